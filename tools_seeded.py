#!/usr/bin/env python3
"""Confirms an independently produced breaking change and runs the twenty checks against it.

usage: python3-vt tools_seeded.py verify <src dir with patchK.diff demoK.py metaK.json> <K> <name>
  1. scratch worktree of /repo HEAD under /tmp; demo must exit 0 on it
  2. apply the patch; demo must exit 1; the baseline suite must give 46 passed and only the 5 always-failing tests failing
  3. run all twenty quick checks against the patched scratch tree (SA_REPO=<scratch>, nothing written to /verif/evidence)
  4. remove the scratch worktree; store patch.diff, demo.py, meta.json under /verif/seeded/<name>/
"""
import json, os, shutil, subprocess, sys

ALWAYS_FAIL = {"test_gmm_kmeans_parallel_init", "test_gmm_kmeans_plusplus_init", "test_kmeans_fit", "test_kmeans_fit_init_pp", "test_kmeans_parameters"}
VERIF = os.path.dirname(os.path.abspath(__file__))


def sh(cmd, cwd=None, env=None, timeout=1800):
    e = dict(os.environ)
    e.update(env or {})
    p = subprocess.run(cmd, shell=True, cwd=cwd, env=e, capture_output=True, text=True, timeout=timeout)
    return p.returncode, p.stdout + p.stderr


def run_checks(repo):
    fired, errs = {}, {}
    for i in range(1, 21):
        pid = f"C{i:02d}"
        rc, out = sh(f"python3-vt -m sa.check {pid} --tier quick", cwd=VERIF, env={"SA_REPO": repo, "SA_NO_WRITE": "1"})
        if rc == 1:
            fired[pid] = [l.strip()[:300] for l in out.splitlines() if l.strip().startswith("violation:")][:3]
        elif rc != 0:
            errs[pid] = [l.strip()[:300] for l in out.splitlines() if "ANALYSIS-ERROR" in l][:2]
    return fired, errs


def verify(srcdir, k, name, skip_suite=False):
    wt = f"/tmp/seedchk_{name}"
    sh(f"git -C /repo worktree remove --force {wt}")
    rc, out = sh(f"git -C /repo worktree add -q --detach {wt} HEAD")
    assert rc == 0, out
    res = {}
    try:
        env = {"PYTHONPATH": f"{wt}/src"}
        demo = os.path.join(srcdir, f"demo{k}.py")
        patch = os.path.join(srcdir, f"patch{k}.diff")
        rc0, out0 = sh(f"/venv/bin/python {demo}", cwd=wt, env=env)
        res["demo_clean_exit"] = rc0
        rc, out = sh(f"git -C {wt} apply {patch}")
        res["patch_applies"] = rc == 0
        if rc != 0:
            res["apply_error"] = out[-400:]
            return res
        rc1, out1 = sh(f"/venv/bin/python {demo}", cwd=wt, env=env)
        res["demo_patched_exit"] = rc1
        res["demo_patched_tail"] = out1.strip().splitlines()[-3:]
        if not skip_suite:
            rc, out = sh(f"/venv/bin/python -m pytest -q -p no:cacheprovider --no-cov -n 8 tests", cwd=wt, env=env)
            failed = {l.split("::")[1].split(" ")[0] for l in out.splitlines() if l.startswith("FAILED")}
            tail = [l for l in out.splitlines() if " passed" in l or " failed" in l][-1:]
            res["suite"] = tail[0] if tail else out[-200:]
            res["suite_new_failures"] = sorted(failed - ALWAYS_FAIL)
        fired, errs = run_checks(wt)
        res["checks_fired"] = fired
        res["checks_analysis_error"] = errs
    finally:
        sh(f"git -C /repo worktree remove --force {wt}")
    dst = os.path.join(VERIF, "seeded", name)
    os.makedirs(dst, exist_ok=True)
    shutil.copy(patch, os.path.join(dst, "patch.diff"))
    shutil.copy(demo, os.path.join(dst, "demo.py"))
    meta = json.load(open(os.path.join(srcdir, f"meta{k}.json")))
    meta["confirmed"] = {
        "what_i_ran": "scratch worktree of /repo HEAD: demo on the clean tree, git apply patch, demo again, full baseline suite with -n 8, then all twenty quick checks with SA_REPO=<scratch>",
        **res,
    }
    meta["kept"] = bool(res.get("patch_applies") and res.get("demo_clean_exit") == 0 and res.get("demo_patched_exit") == 1 and not res.get("suite_new_failures"))
    json.dump(meta, open(os.path.join(dst, "meta.json"), "w"), indent=1)
    return meta


def recheck(name):
    """Re-run the twenty checks against an already confirmed seeded change (patch applied in a scratch worktree)."""
    dst = os.path.join(VERIF, "seeded", name)
    meta = json.load(open(os.path.join(dst, "meta.json")))
    wt = f"/tmp/seedchk_{name}"
    sh(f"git -C /repo worktree remove --force {wt}")
    import time
    for _ in range(10):
        rc, out = sh(f"git -C /repo worktree add -q --detach {wt} HEAD")
        if rc == 0 and os.path.isdir(wt):
            break
        time.sleep(1.0)
    try:
        rc, out = sh(f"git -C {wt} apply {dst}/patch.diff")
        if rc != 0:
            meta["confirmed"]["recheck_note"] = "patch no longer applies to /repo HEAD: " + out[-200:]
            fired, errs = {}, {}
        else:
            fired, errs = run_checks(wt)
            meta["confirmed"].pop("recheck_note", None)
        meta["confirmed"]["checks_fired"] = fired
        meta["confirmed"]["checks_analysis_error"] = errs
    finally:
        sh(f"git -C /repo worktree remove --force {wt}")
    json.dump(meta, open(os.path.join(dst, "meta.json"), "w"), indent=1)
    own = meta["property"]
    return f"{name}: own={own} {'CAUGHT' if own in fired else 'missed'} fired={sorted(fired)} err={sorted(errs)}" + (" NOTE " + meta["confirmed"].get("recheck_note", "") if "recheck_note" in meta["confirmed"] else "")


if __name__ == "__main__":
    if sys.argv[1] == "recheck":
        from concurrent.futures import ThreadPoolExecutor
        names = sys.argv[2:] or sorted(os.listdir(os.path.join(VERIF, "seeded")))
        with ThreadPoolExecutor(max_workers=4) as ex:
            for line in ex.map(recheck, names):
                print(line)
        sys.exit(0)
    if sys.argv[1] == "verify":
        m = verify(sys.argv[2], sys.argv[3], sys.argv[4])
        c = m.get("confirmed", m)
        print(json.dumps({k: c.get(k) for k in ("demo_clean_exit", "demo_patched_exit", "suite", "suite_new_failures", "checks_fired", "checks_analysis_error")}, indent=1)[:3000])
        print("KEPT" if m.get("kept") else "NOT KEPT")
