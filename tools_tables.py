#!/usr/bin/env python3
"""Regenerates the tables of DESIGN.md sections 12 and 13 from seeded/*/meta.json and benign/*/meta.json.

usage: python3-vt tools_tables.py      (rewrites the text between the <!-- seeded-table --> / <!-- benign-table --> markers)
"""
import json, os, re

VERIF = os.path.dirname(os.path.abspath(__file__))


def clip(t, n):
    t = " ".join(str(t).split()).replace("|", "/")
    return t if len(t) <= n else t[: n - 1] + "…"


def rules_of(lines):
    out = []
    for l in lines:
        m = re.search(r"\[([A-Za-z0-9_.'\-]+)\]", l)
        if m and m.group(1) not in out:
            out.append(m.group(1))
    return out


def seeded_table():
    rows = ["| id | change | needs to manifest | own property: rule | also reported by |", "|---|---|---|---|---|"]
    names = sorted(os.listdir(os.path.join(VERIF, "seeded")), key=lambda n: (n.split("-")[0], "r2" in n, n))
    caught = total = 0
    for n in names:
        m = json.load(open(os.path.join(VERIF, "seeded", n, "meta.json")))
        c = m.get("confirmed", {})
        own = m.get("property") or n.split("-")[0]
        fired = c.get("checks_fired", {}) or {}
        total += 1
        if own in fired:
            caught += 1
            ownt = f"**{own}** " + ", ".join(rules_of(fired[own])[:3])
        else:
            ownt = f"{own} (not decided)"
        others = ", ".join(sorted(k for k in fired if k != own))
        change = m.get("change") or m.get("summary") or m.get("what") or m.get("description") or ""
        needs = m.get("needs_to_manifest") or m.get("needs") or m.get("trigger") or ""
        rows.append(f"| {n} | {clip(change, 150)} | {clip(needs, 110)} | {ownt} | {others} |")
    return "\n".join(rows), caught, total


def benign_table():
    d = os.path.join(VERIF, "benign")
    if not os.path.isdir(d):
        return "(none yet)", 0, 0
    rows = ["| id | area | kind of refactoring | summary | checks that did not stay silent |", "|---|---|---|---|---|"]
    silent = total = 0
    for n in sorted(os.listdir(d)):
        m = json.load(open(os.path.join(d, n, "meta.json")))
        if not m.get("kept"):
            continue
        c = m.get("confirmed", {})
        ns = c.get("checks_not_silent", {}) or {}
        total += 1
        if not ns:
            silent += 1
        rows.append(f"| {n} | {clip(m.get('area', ''), 40)} | {clip(m.get('kind', ''), 50)} | {clip(m.get('summary', ''), 160)} | {', '.join('%s (exit %s)' % (k, v['exit']) for k, v in sorted(ns.items())) or 'none'} |")
    return "\n".join(rows), silent, total


def main():
    p = os.path.join(VERIF, "DESIGN.md")
    s = open(p).read()
    st, caught, total = seeded_table()
    s = re.sub(r"(<!-- seeded-table -->\n).*?(\n<!-- /seeded-table -->)", lambda m_: m_.group(1) + st + m_.group(2), s, flags=re.S)
    bt, silent, btotal = benign_table()
    s = re.sub(r"(<!-- benign-table -->\n).*?(\n<!-- /benign-table -->)", lambda m_: m_.group(1) + bt + m_.group(2), s, flags=re.S)
    open(p, "w").write(s)
    print(f"seeded: {caught}/{total} reported by the check of their own property; benign: {silent}/{btotal} silent")


if __name__ == "__main__":
    main()
