"""Demonstration: JFA enrolment must converge to the joint posterior mode (D1)."""
import numpy as np
from bob.learn.em import GMMMachine, GMMStats, JFAMachine
rng = np.random.RandomState(1)
C, Dm, rU, rV, H = 2, 3, 2, 2, 3
ubm = GMMMachine(C); ubm.means = rng.normal(size=(C, Dm)); ubm.variances = rng.uniform(0.5, 2, size=(C, Dm)); ubm.weights = np.array([0.4, 0.6])
def mode_distance(iters):
    m = JFAMachine(r_U=rU, r_V=rV, ubm=ubm, enroll_iterations=iters)
    r = np.random.RandomState(2)
    m.U = r.normal(size=(C * Dm, rU)); m.V = r.normal(size=(C * Dm, rV)); m.D = r.uniform(0.5, 1.5, size=(C * Dm,))
    stats = []
    for h in range(H):
        s = GMMStats(C, Dm); s.n = r.uniform(1, 5, size=C); s.sum_px = r.normal(size=(C, Dm)) * s.n[:, None] + ubm.means * s.n[:, None]
        s.t = int(s.n.sum()); s.sum_pxx = np.abs(r.normal(size=(C, Dm))); stats.append(s)
    y, z = m.enroll(stats)
    # exact joint mode
    sig = ubm.variances.flatten(); mean = ubm.means.flatten()
    n_th = rV + H * rU + C * Dm
    Pm = np.eye(n_th); b = np.zeros(n_th)
    for h, s in enumerate(stats):
        A = np.zeros((C * Dm, n_th)); A[:, :rV] = m.V; A[:, rV + h * rU: rV + (h + 1) * rU] = m.U; A[:, rV + H * rU:] = np.diag(m.D)
        Nh = np.repeat(s.n, Dm)
        Pm += A.T @ (A * (Nh / sig)[:, None]); b += A.T @ ((s.sum_px.flatten() - Nh * mean) / sig)
    th = np.linalg.solve(Pm, b)
    return np.sqrt(np.sum((y - th[:rV]) ** 2) + np.sum((z - th[rV + H * rU:]) ** 2))
d = [mode_distance(k) for k in (1, 20, 200, 2000)]
print("distance of (y,z) to the joint posterior mode after 1/20/200/2000 enrolment iterations:", ["%.4g" % x for x in d])
ok = d[-1] < 1e-6 and d[2] <= d[1] + 1e-12
print("OK" if ok else "FAIL enrolment does not converge to the joint posterior mode")
