"""Demonstration: a MAP machine must start from exactly the prior's variances, also below the default floor (D5b)."""
import numpy as np
from bob.learn.em import GMMMachine
ubm = GMMMachine(2); ubm.variance_thresholds = 1e-20; ubm.means = np.zeros((2, 2)); ubm.variances = np.full((2, 2), 1e-18)
fails = []
m = GMMMachine(2, trainer="map", ubm=ubm)
if not np.array_equal(m.variances, ubm.variances): fails.append(f"constructor: prior variances 1e-18 (floors 1e-20) become {m.variances[0,0]}")
m2 = GMMMachine(2, trainer="map", ubm=ubm); m2.initialize_gaussians()
if not np.array_equal(m2.variances, ubm.variances): fails.append(f"initialize_gaussians: prior variances become {m2.variances[0,0]}")
for f in fails: print("FAIL", f)
print("OK" if not fails else f"{len(fails)} failures")
