import numpy as np
from bob.learn.em.kmeans import KMeansMachine
rng = np.random.RandomState(0)
X = np.concatenate([rng.normal(-3000, 200, (200, 2)), rng.normal(3000, 200, (200, 2))]).astype(np.int16)
km = KMeansMachine(2, random_state=0).fit(X)
v16, w16 = km.get_variances_and_weights_for_each_cluster(X)
v64, w64 = km.get_variances_and_weights_for_each_cluster(X.astype(np.float64))
print("int16:", v16); print("float64:", v64)
