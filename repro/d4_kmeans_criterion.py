"""Demonstration: the k-means training criterion must be the mean squared distance to the nearest centroid,
independent of chunking (D4)."""
import numpy as np, dask.array as da
from bob.learn.em import KMeansMachine
from bob.learn.em.kmeans import get_centroids_distance
rng = np.random.RandomState(0)
X = np.vstack([rng.normal(0, 1, size=(20, 2)), rng.normal(5, 1, size=(20, 2))])
init = np.array([[0., 0.], [5., 5.]])
fails = []
def crit(data):
    m = KMeansMachine(2, init_method=init.copy(), max_iter=1)
    m.fit(data); return float(m.average_min_distance)
true = float(get_centroids_distance(X, init).min(axis=0).mean())
c_np = crit(X)
print("true mean squared distance to the entering centroids:", round(true, 5), " reported (NumPy):", round(c_np, 5))
if not np.isclose(c_np, true): fails.append(f"NumPy criterion {c_np:.5g} != {true:.5g} (ratio {true / c_np:.4g})")
for chunks in ((20, 20), (30, 10), (39, 1)):
    c = crit(da.from_array(X, chunks=(chunks, 2)))
    print("chunks", chunks, "reported:", round(c, 5))
    if not np.isclose(c, true): fails.append(f"chunks {chunks}: criterion {c:.5g} != {true:.5g}")
for f in fails: print("FAIL", f)
print("OK" if not fails else f"{len(fails)} failures")
