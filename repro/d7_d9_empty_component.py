"""Demonstration: a cluster/component that captures nothing must not produce NaN parameters (D7, D9)."""
import numpy as np, warnings
warnings.filterwarnings("ignore")
from bob.learn.em import KMeansMachine, GMMMachine, GMMStats, IVectorMachine
fails = []
X = np.vstack([np.zeros((5, 2)), np.ones((5, 2))])
km = KMeansMachine(3, init_method=np.array([[0., 0.], [1., 1.], [50., 50.]]), max_iter=2)
km.fit(X)
if not np.isfinite(km.centroids_).all(): fails.append(f"k-means centroids with an empty cluster: {km.centroids_.tolist()}")
km2 = KMeansMachine(3); km2.centroids_ = np.array([[0., 0.], [1., 1.], [50., 50.]])
v, w = km2.get_variances_and_weights_for_each_cluster(X)
if not np.isfinite(v).all(): fails.append(f"cluster variances with an empty cluster: {v.tolist()}")
ubm = GMMMachine(2); ubm.means = np.array([[0., 0.], [1., 1.]]); ubm.variances = np.ones((2, 2))
stats = []
rng = np.random.RandomState(0)
for i in range(4):
    s = GMMStats(2, 2); s.n = np.array([3.0, 0.0]); s.t = 3
    s.sum_px = np.vstack([rng.normal(size=2) * 3, np.zeros(2)]); s.sum_pxx = np.vstack([np.abs(rng.normal(size=2)) * 3 + 1, np.zeros(2)])
    stats.append(s)
np.random.seed(0)
iv = IVectorMachine(ubm, dim_t=2, max_iterations=3); iv.fit(stats)
if not (np.isfinite(iv.sigma).all() and np.isfinite(iv.T).all()): fails.append(f"i-vector sigma/T with a zero-count UBM component: sigma={iv.sigma.tolist()}")
for f in fails: print("FAIL", f)
print("OK" if not fails else f"{len(fails)} failures")
