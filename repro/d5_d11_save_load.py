"""Demonstration (not a check): GMMMachine save/load defects D5, D11 against the real code.
Run: /venv/bin/python /verif/repro/d5_d11_save_load.py   (prints FAIL lines on the defective tree)"""
import tempfile, os, numpy as np
from bob.learn.em import GMMMachine
fails = []
d = tempfile.mkdtemp()
ubm = GMMMachine(2); ubm.means = np.array([[0., 0.], [1., 1.]]); ubm.variances = np.ones((2, 2))
m = GMMMachine(2, trainer="map", ubm=ubm, convergence_threshold=0.123, max_fitting_steps=7)
p = os.path.join(d, "m.h5"); m.save(p)
r = GMMMachine.from_hdf5(p, ubm=ubm)
if r.trainer != "map": fails.append(f"trainer reloads as {r.trainer!r} (saved 'map')")
if r.convergence_threshold != 0.123: fails.append(f"convergence_threshold reloads as {r.convergence_threshold} (saved 0.123)")
try:
    GMMMachine.from_hdf5(p); fails.append("MAP machine loaded without UBM: no refusal")
except ValueError: pass
lo = GMMMachine(2); lo.variance_thresholds = np.full((2, 2), 1e-20); lo.means = np.zeros((2, 2)); lo.variances = np.full((2, 2), 1e-18)
p2 = os.path.join(d, "lo.h5"); lo.save(p2)
r2 = GMMMachine.from_hdf5(p2)
if not np.array_equal(r2.variances, lo.variances): fails.append(f"variances 1e-18 with floors 1e-20 reload as {r2.variances[0,0]}")
for kw in (dict(max_fitting_steps=None), dict(convergence_threshold=None)):
    n = GMMMachine(2, **kw); n.means = np.zeros((2, 2)); n.variances = np.ones((2, 2))
    p3 = os.path.join(d, "n.h5")
    if os.path.exists(p3): os.remove(p3)
    try:
        n.save(p3); r3 = GMMMachine.from_hdf5(p3)
        k = list(kw)[0]
        if getattr(r3, k) is not None: fails.append(f"{k}=None reloads as {getattr(r3, k)}")
    except TypeError as e:
        fails.append(f"save with {kw} raises TypeError: {e}")
for f in fails: print("FAIL", f)
print("OK" if not fails else f"{len(fails)} failures")
