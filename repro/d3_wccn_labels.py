"""Demonstration: WCCN must depend on the partition only (D3)."""
import numpy as np
from bob.learn.em import WCCN
rng = np.random.RandomState(0)
X = rng.normal(size=(30, 3)); part = np.repeat([0, 1, 2], 10)
ref = WCCN().fit(X, part).weights
fails = []
for name, lab in (("{1,2,3}", part + 1), ("{-2,0,1}", np.array([-2, 0, 1])[part]), ("{10,20,30}", part * 10 + 10), ("{2,0,1} permuted", np.array([2, 0, 1])[part])):
    try:
        w = WCCN().fit(X, lab).weights
        if not np.allclose(w, ref): fails.append(f"labels {name}: projection differs from labels {{0,1,2}} (max diff {abs(w-ref).max():.3g})")
    except Exception as e:
        fails.append(f"labels {name}: {type(e).__name__}: {e}")
for f in fails: print("FAIL", f)
print("OK" if not fails else f"{len(fails)} failures")
