"""Demonstration: a k-means model must not share memory with the initial centroids it was given (D10)."""
import numpy as np
from bob.learn.em import KMeansMachine
X = np.random.RandomState(0).normal(size=(20, 2))
init = np.array([[0., 0.], [1., 1.]])
m = KMeansMachine(2, init_method=init, max_iter=0)
m.fit(X)
before = m.centroids_.copy()
init[:] = 99.0
ok = np.array_equal(m.centroids_, before) and m.centroids_ is not init
print("OK" if ok else f"FAIL overwriting the caller's initial-centroid array changed the model: centroids_ is init = {m.centroids_ is init}, centroids = {m.centroids_.tolist()}")
