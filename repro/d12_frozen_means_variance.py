"""Demonstration: ML EM must not decrease the likelihood when only the variances are updated (means frozen) (D12)."""
import numpy as np, warnings
warnings.filterwarnings("ignore")
from bob.learn.em import GMMMachine
rng = np.random.RandomState(0)
X = np.vstack([rng.normal(0, 1, size=(100, 2)), rng.normal(4, 1.5, size=(100, 2))])
m = GMMMachine(2, update_means=False, update_variances=True, update_weights=False, max_fitting_steps=1, convergence_threshold=None)
m.means = np.array([[0.5, 0.5], [3.0, 3.0]]); m.variances = np.ones((2, 2)); m.variance_thresholds = 1e-8
lls = [float(m.log_likelihood(X).mean())]
for it in range(6):
    m.fit(X); lls.append(float(m.log_likelihood(X).mean()))
drops = [(i, lls[i], lls[i + 1]) for i in range(len(lls) - 1) if lls[i + 1] < lls[i] - 1e-9]
print("average log-likelihood per iteration:", [round(v, 4) for v in lls])
print("OK" if not drops else f"FAIL likelihood decreased with frozen means: {drops[:3]}")
