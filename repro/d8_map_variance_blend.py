"""Demonstration: MAP variance adaptation must be equivariant under feature rescaling and follow Reynolds eq. 13 (D8)."""
import numpy as np
from bob.learn.em import GMMMachine
def adapted_variances(scale):
    rng = np.random.RandomState(0)
    X = rng.normal(size=(200, 2)) * scale + 3 * scale
    ubm = GMMMachine(2); ubm.means = np.array([[2., 2.], [4., 4.]]) * scale; ubm.variances = np.ones((2, 2)) * scale ** 2; ubm.weights = np.array([.5, .5])
    ubm.variance_thresholds = 1e-12
    m = GMMMachine(2, trainer="map", ubm=ubm, update_means=True, update_variances=True, max_fitting_steps=1, map_relevance_factor=4.0)
    m.fit(X)
    # Reynolds eq. 13 computed independently from the same statistics
    s = ubm.acc_stats(X); n = s.n[:, None]; a = n / (n + 4.0)
    ref = a * s.sum_pxx / n + (1 - a) * (ubm.variances + ubm.means ** 2) - m.means ** 2
    return m.variances, ref
v1, r1 = adapted_variances(1.0); v10, r10 = adapted_variances(10.0)
ratio = v10 / v1
print("variance ratio under x -> 10x (should be 100):", np.round(ratio.ravel(), 3))
print("max |variances - Reynolds eq.13| at scale 1:", float(abs(v1 - r1).max()))
ok = np.allclose(ratio, 100) and np.allclose(v1, r1)
print("OK" if ok else "FAIL adapted variances are not a^2-equivariant / differ from a*E[x^2] + (1-a)(prior var + prior mean^2) - mean^2")
