"""Demonstration: ISVMachine.transform must return the channel offset U x of the array's UBM statistics (D2)."""
import numpy as np
from bob.learn.em import GMMMachine, ISVMachine
rng = np.random.RandomState(0)
ubm = GMMMachine(2); ubm.means = rng.normal(size=(2, 3)); ubm.variances = np.ones((2, 3))
m = ISVMachine(r_U=2, ubm=ubm)
X = rng.normal(size=(20, 3))
try:
    out = m.transform(X)
    ref = m.estimate_ux([ubm.acc_stats(X)])
    print("OK" if np.allclose(out, ref) else "FAIL transform differs from estimate_ux on the UBM statistics")
except TypeError as e:
    print("FAIL ISVMachine.transform raises TypeError:", e)
