"""Demonstration: training must not depend on chunking of the feature axis (D6)."""
import numpy as np, dask.array as da, warnings
warnings.filterwarnings("ignore")
from bob.learn.em import KMeansMachine, GMMMachine
rng = np.random.RandomState(0)
X = np.vstack([rng.normal(0, 1, size=(20, 2)), rng.normal(5, 1, size=(20, 2))])
init = np.array([[0., 0.], [5., 5.]])
fails = []
ref = KMeansMachine(2, init_method=init.copy(), max_iter=3).fit(X).centroids_
Xd = da.from_array(X, chunks=((20, 20), (1, 1)))
try:
    c = KMeansMachine(2, init_method=init.copy(), max_iter=3).fit(Xd).centroids_
    if not np.allclose(c, ref): fails.append("k-means centroids differ with feature-axis chunks")
except Exception as e:
    fails.append(f"k-means with feature-axis chunks raises {type(e).__name__}: {str(e)[:80]}")
def gmm(data):
    m = GMMMachine(2, max_fitting_steps=2); m.means = init.copy(); m.variances = np.ones((2, 2)); m.fit(data); return m.means
gref = gmm(X)
try:
    g = gmm(Xd)
    if g.shape != gref.shape or not np.allclose(g, gref): fails.append(f"GMM means with feature-axis chunks have shape {g.shape} (expected {gref.shape})")
except Exception as e:
    fails.append(f"GMM with feature-axis chunks raises {type(e).__name__}: {str(e)[:80]}")
for f in fails: print("FAIL", f)
print("OK" if not fails else f"{len(fails)} failures")
