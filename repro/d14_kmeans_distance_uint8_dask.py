"""Demonstration: the distances / labels a k-means machine reports are the same for a Dask array and the same NumPy array (D14).
Integer-typed samples and integer-typed centroids (uint8 pixels, centroids picked among them)."""
import dask.array as da
import numpy as np
from bob.learn.em import KMeansMachine
x = np.array([[10, 200], [250, 3], [100, 100], [5, 250]], dtype=np.uint8)
m = KMeansMachine(2)
m.means = x[:2].copy()
a = m.transform(x)
b = np.asarray(m.transform(da.from_array(x, chunks=(2, 2))))
print("NumPy :", a.tolist())
print("Dask  :", b.tolist())
la, lb = m.predict(x), np.asarray(m.predict(da.from_array(x, chunks=(2, 2))))
print("labels:", la.tolist(), lb.tolist())
ok = np.allclose(a, b) and (la == lb).all()
print("OK" if ok else "FAIL the Dask arm subtracts in uint8: differences wrap around (10 - 250 = 16), the distances and nearest centroids differ from the NumPy arm")
