#!/usr/bin/env python3
"""Confirms an independently produced *behaviour-preserving* refactoring and runs the twenty checks against it.

usage: python3-vt tools_benign.py verify <src dir with patchK.diff equivK.py metaK.json> <K> <name>
       python3-vt tools_benign.py recheck [names...]
  1. scratch worktree of /repo HEAD under /tmp; equivK.py output recorded on it
  2. apply the patch; equivK.py must print identical output; the baseline suite must give 46 passed / the 5 always-failing tests
  3. run all twenty quick checks against the patched scratch tree (SA_REPO=<scratch>, nothing written to /verif/evidence):
     every one of them must exit 0 - an exit 1 is a false alarm of the checker, an exit 2 an analysis it cannot carry through
  4. remove the scratch worktree; store patch.diff, equiv.py, meta.json under /verif/benign/<name>/
"""
import json, os, shutil, subprocess, sys, time

ALWAYS_FAIL = {"test_gmm_kmeans_parallel_init", "test_gmm_kmeans_plusplus_init", "test_kmeans_fit", "test_kmeans_fit_init_pp", "test_kmeans_parameters"}
VERIF = os.path.dirname(os.path.abspath(__file__))


def sh(cmd, cwd=None, env=None, timeout=1800):
    e = dict(os.environ)
    e.update(env or {})
    p = subprocess.run(cmd, shell=True, cwd=cwd, env=e, capture_output=True, text=True, timeout=timeout)
    return p.returncode, p.stdout + p.stderr


def worktree(wt):
    sh(f"git -C /repo worktree remove --force {wt}")
    for _ in range(10):
        rc, out = sh(f"git -C /repo worktree add -q --detach {wt} HEAD")
        if rc == 0 and os.path.isdir(wt):
            return
        time.sleep(1.0)
    raise RuntimeError(out)


def run_checks(repo):
    res = {}
    for i in range(1, 21):
        pid = f"C{i:02d}"
        rc, out = sh(f"python3-vt -m sa.check {pid} --tier quick", cwd=VERIF, env={"SA_REPO": repo, "SA_NO_WRITE": "1"})
        if rc != 0:
            res[pid] = {"exit": rc, "lines": [l.strip()[:400] for l in out.splitlines() if l.strip().startswith("violation:") or "ANALYSIS-ERROR" in l][:4]}
    return res


def verify(srcdir, k, name, skip_suite=False):
    wt = f"/tmp/benchk_{name}"
    worktree(wt)
    res = {}
    try:
        env = {"PYTHONPATH": f"{wt}/src"}
        eq = os.path.join(srcdir, f"equiv{k}.py")
        patch = os.path.join(srcdir, f"patch{k}.diff")
        rc0, out0 = sh(f"/venv/bin/python {eq}", cwd=wt, env=env)
        res["equiv_clean_exit"] = rc0
        rc, out = sh(f"git -C {wt} apply {patch}")
        res["patch_applies"] = rc == 0
        if rc != 0:
            rc, out = sh(f"git -C {wt} apply --3way {patch}")
            res["patch_applies"] = rc == 0
            res["apply_note"] = "applied with --3way" if rc == 0 else out[-300:]
            if rc != 0:
                return {"confirmed": res, "kept": False}
        rc1, out1 = sh(f"/venv/bin/python {eq}", cwd=wt, env=env)
        res["equiv_patched_exit"] = rc1
        strip = lambda t: "\n".join(l for l in t.splitlines() if "Warning" not in l and "warn" not in l and "HTTP server on port" not in l and "distributed." not in l)
        res["equiv_identical"] = strip(out0) == strip(out1)
        if not res["equiv_identical"]:
            a, b = strip(out0).splitlines(), strip(out1).splitlines()
            res["equiv_first_difference"] = next(((x, y) for x, y in zip(a, b) if x != y), (len(a), len(b)))
        if not skip_suite:
            rc, out = sh("/venv/bin/python -m pytest -q -p no:cacheprovider --no-cov -n 8 tests", cwd=wt, env=env)
            failed = {l.split("::")[1].split(" ")[0] for l in out.splitlines() if l.startswith("FAILED")}
            tail = [l for l in out.splitlines() if " passed" in l or " failed" in l][-1:]
            res["suite"] = tail[0] if tail else out[-200:]
            res["suite_new_failures"] = sorted(failed - ALWAYS_FAIL)
        sh(f"git -C {wt} diff > {wt}/.applied.diff")
        res["checks_not_silent"] = run_checks(wt)
        applied = open(f"{wt}/.applied.diff").read()
    finally:
        sh(f"git -C /repo worktree remove --force {wt}")
    dst = os.path.join(VERIF, "benign", name)
    os.makedirs(dst, exist_ok=True)
    with open(os.path.join(dst, "patch.diff"), "w") as fh:
        fh.write(applied)
    shutil.copy(eq, os.path.join(dst, "equiv.py"))
    meta = json.load(open(os.path.join(srcdir, f"meta{k}.json")))
    meta["confirmed"] = {"what_i_ran": "scratch worktree of /repo HEAD: equivalence script on the clean tree, git apply, script again (output must be identical), full baseline suite with -n 8, then all twenty quick checks with SA_REPO=<scratch>", **res}
    meta["kept"] = bool(res.get("patch_applies") and res.get("equiv_clean_exit") == 0 and res.get("equiv_patched_exit") == 0 and res.get("equiv_identical") and not res.get("suite_new_failures"))
    json.dump(meta, open(os.path.join(dst, "meta.json"), "w"), indent=1)
    return meta


def recheck(name):
    dst = os.path.join(VERIF, "benign", name)
    meta = json.load(open(os.path.join(dst, "meta.json")))
    wt = f"/tmp/benchk_{name}"
    worktree(wt)
    try:
        rc, out = sh(f"git -C {wt} apply {dst}/patch.diff")
        if rc != 0:
            meta["confirmed"]["recheck_note"] = "patch no longer applies to /repo HEAD: " + out[-200:]
            res = {}
        else:
            res = run_checks(wt)
            meta["confirmed"].pop("recheck_note", None)
        meta["confirmed"]["checks_not_silent"] = res
    finally:
        sh(f"git -C /repo worktree remove --force {wt}")
    json.dump(meta, open(os.path.join(dst, "meta.json"), "w"), indent=1)
    note = meta["confirmed"].get("recheck_note", "")
    if not res and not note:
        return f"{name}: SILENT"
    return f"{name}: NOT SILENT " + ", ".join("%s: exit %s" % (k, v["exit"]) for k, v in res.items()) + " " + note


if __name__ == "__main__":
    if sys.argv[1] == "recheck":
        from concurrent.futures import ThreadPoolExecutor

        names = sys.argv[2:] or sorted(os.listdir(os.path.join(VERIF, "benign")))
        with ThreadPoolExecutor(max_workers=4) as ex:
            for line in ex.map(recheck, names):
                print(line)
        sys.exit(0)
    if sys.argv[1] == "verify":
        m = verify(sys.argv[2], sys.argv[3], sys.argv[4])
        print(json.dumps(m.get("confirmed", m), indent=1)[:3000])
        print("KEPT" if m.get("kept") else "NOT KEPT")
