#!/bin/bash
name=$1; shift
wt=/tmp/chkb_$name
git -C /repo worktree remove --force $wt >/dev/null 2>&1
git -C /repo worktree add -q --detach $wt HEAD
git -C $wt apply /verif/benign/$name/patch.diff || echo "PATCH DOES NOT APPLY"
cd /verif
for p in "$@"; do SA_REPO=$wt SA_NO_WRITE=1 python3-vt -m sa.check $p 2>&1 | grep -E "violation:|ANALYSIS-ERROR|\] tier" | cut -c1-400; done
git -C /repo worktree remove --force $wt
