#!/bin/bash
# usage: chk_seed.sh <seeded name> <props...> : apply patch in scratch worktree and run the given checks
name=$1; shift
wt=/tmp/chk_$name
git -C /repo worktree remove --force $wt >/dev/null 2>&1
git -C /repo worktree add -q --detach $wt HEAD
git -C $wt apply /verif/seeded/$name/patch.diff || echo "PATCH DOES NOT APPLY"
cd /verif
for p in "$@"; do SA_REPO=$wt SA_NO_WRITE=1 python3-vt -m sa.check $p 2>&1 | grep -E "violation:|ANALYSIS-ERROR|\] tier" | cut -c1-330; done
git -C /repo worktree remove --force $wt
