#!/usr/bin/env python3
"""Regenerates MANIFEST.json from the table below (kept valid at all times)."""
import json, os, importlib, sys
HERE = os.path.dirname(os.path.abspath(__file__))
sys.path.insert(0, HERE)
CLAIMED = {}
for i in range(1, 21):
    pid = f"C{i:02d}"
    if os.path.exists(os.path.join(HERE, "sa", "props", pid + ".py")):
        m = importlib.import_module(f"sa.props.{pid}")
        CLAIMED[pid] = m
PENDING_REASON = "check not built yet in this round (planned in DESIGN.md section 4); not claimed until its engine exists"
checks = []
for pid, m in CLAIMED.items():
    checks.append({
        "property_id": pid,
        "quick_cmd": f"python3-vt -m sa.check {pid} --tier quick",
        "thorough_cmd": f"python3-vt -m sa.check {pid} --tier thorough",
        "evidence_file": f"/verif/evidence/{pid}.json",
        "replay_cmd_template": f"python3-vt -m sa.check {pid} --replay {{path}}",
        "engine": "sa",
        "level_claimed": {
            "category": "other",
            "text": getattr(m, "LEVEL_TEXT", "") or ("Static analysis (no execution): necessary structural conditions of the property are decided for every input/history at once on the current source; " + m.EXPLANATION),
            "design_ref": f"DESIGN.md section 4, {pid}",
        },
        "level_note": "Trusted base: CPython ast; the library model of NumPy/SciPy/Dask/h5py calls (DESIGN 1); the rule tables in sa/engines. HOLDS means the decided necessary conditions hold, not that the numerical behaviour is proved. " + "; ".join(getattr(m, "ASSUMPTIONS", [])),
        "technique": getattr(m, "TECHNIQUE", "static analysis: custom AST/CFG/def-use checkers specific to this repository"),
    })
na = [{"property_id": f"C{i:02d}", "reason": PENDING_REASON} for i in range(1, 21) if f"C{i:02d}" not in CLAIMED]
man = {
    "version": 1,
    "setup_cmd": "python3-vt -m sa.setup",
    "hooks": {
        "guard": "BOB_LEARN_EM_VERIF",
        "enable": "no hooks: the checks parse /repo/src/bob/learn/em/*.py with ast and never import or run it",
        "baseline_off_cmd": "cd /repo && /venv/bin/python -m pytest -ra -q -p no:cacheprovider --timeout=900 --continue-on-collection-errors -n 8 --no-cov",
        "source_commits": [],
        "add_only": True,
    },
    "engines": [{"name": "sa", "path": "/verif/sa", "serves_properties": sorted(CLAIMED), "kind_free_text": "repository-specific static analysis: ast front end with callee resolution, statement CFG, reaching definitions/def-use cones, abstract domains (dimension, polarity, ownership, container kind), rule tables"}],
    "checks": checks,
    "not_applicable": na,
    "notes": "All checks are static (family: static analysis). exit 0 holds / exit 1 VIOLATION / exit 2 ANALYSIS-ERROR (anchor vanished, floor not met, undecided). Known findings: /verif/known_findings.json.",
}
extra = os.path.join(HERE, "manifest_extra.json")
if os.path.exists(extra):
    ex = json.load(open(extra))
    man["hooks"]["source_commits"] = ex.get("source_commits", [])
    for e in ex.get("not_applicable", []):
        man["not_applicable"] = [x for x in man["not_applicable"] if x["property_id"] != e["property_id"]] + [e]
json.dump(man, open(os.path.join(HERE, "MANIFEST.json"), "w"), indent=1)
print("claimed:", sorted(CLAIMED), "not_applicable:", [x["property_id"] for x in man["not_applicable"]])
