"""Per-function statement CFG over the statement kinds the package uses.

Nodes are the ast statement objects themselves (compound statements stand for the
evaluation of their header: If/While test, For iterator). Three sentinels:
ENTRY, EXIT (normal return / fall-through) and RAISE (exceptional exit).
Path queries are phrased as "can dst be reached from src while avoiding a set of
nodes", which covers dominance, post-dominance and must-pass-through rules.
"""
from __future__ import annotations

import ast

ENTRY, EXIT, RAISE = "<entry>", "<exit>", "<raise>"


class CFG:
    def __init__(self, funcnode):
        self.func = funcnode
        self.succ = {ENTRY: [], EXIT: [], RAISE: []}
        self.pred = {ENTRY: [], EXIT: [], RAISE: []}
        self.order = {}  # stmt -> textual order index
        self._n = 0
        body = funcnode.body
        first = self._block(body, EXIT, None, None, [])
        self._edge(ENTRY, first, None)

    # -- construction -------------------------------------------------------
    def _node(self, st):
        if st not in self.succ:
            self.succ[st] = []
            self.pred[st] = []
            self.order[st] = self._n
            self._n += 1

    def _edge(self, a, b, label):
        for x in (a, b):
            if x not in self.succ:
                self._node(x)
        self.succ[a].append((b, label))
        self.pred[b].append((a, label))

    def _block(self, stmts, follow, brk, cont, handlers):
        """Wire a statement list; returns the entry node of the block (or follow if empty)."""
        if not stmts:
            return follow
        for st in stmts:
            self._node(st)
        entries = []
        nxt = follow
        for st in reversed(stmts):
            nxt = self._stmt(st, nxt, brk, cont, handlers)
            entries.append(nxt)
        return nxt

    def _stmt(self, st, follow, brk, cont, handlers):
        self._node(st)
        for h in handlers:
            self._edge(st, h, "exc")
        if isinstance(st, ast.If):
            t = self._block(st.body, follow, brk, cont, handlers)
            f = self._block(st.orelse, follow, brk, cont, handlers)
            self._edge(st, t, "T")
            self._edge(st, f, "F")
        elif isinstance(st, ast.While):
            after = self._block(st.orelse, follow, brk, cont, handlers)
            b = self._block(st.body, st, follow, st, handlers)
            self._edge(st, b, "T")
            self._edge(st, after, "F")
        elif isinstance(st, (ast.For, ast.AsyncFor)):
            after = self._block(st.orelse, follow, brk, cont, handlers)
            b = self._block(st.body, st, follow, st, handlers)
            self._edge(st, b, "T")
            self._edge(st, after, "F")
        elif isinstance(st, ast.Try):
            hs = []
            fin_entry = self._block(st.finalbody, follow, brk, cont, handlers) if st.finalbody else follow
            for h in st.handlers:
                self._node(h)
                he = self._block(h.body, fin_entry, brk, cont, handlers)
                self._edge(h, he, None)
                hs.append(h)
            els = self._block(st.orelse, fin_entry, brk, cont, handlers)
            b = self._block(st.body, els, brk, cont, handlers + hs)
            self._edge(st, b, None)
        elif isinstance(st, (ast.With, ast.AsyncWith)):
            b = self._block(st.body, follow, brk, cont, handlers)
            self._edge(st, b, None)
        elif isinstance(st, ast.Return):
            self._edge(st, EXIT, "return")
        elif isinstance(st, ast.Raise):
            self._edge(st, handlers[-1] if handlers else RAISE, "raise")
        elif isinstance(st, ast.Break):
            self._edge(st, brk if brk is not None else follow, "break")
        elif isinstance(st, ast.Continue):
            self._edge(st, cont if cont is not None else follow, "continue")
        else:
            # simple statement (Assign, AugAssign, AnnAssign, Expr, Delete, Import, Pass,
            # nested FunctionDef/ClassDef as a definition statement, Assert, Global ...)
            self._edge(st, follow, None)
        return st

    # -- queries -----------------------------------------------------------
    def nodes(self):
        return [n for n in self.succ if n not in (ENTRY, EXIT, RAISE)]

    def reach_avoiding(self, src, dst, avoid=(), skip_labels=()):
        """True iff dst is reachable from src by a non-empty path none of whose
        intermediate nodes is in avoid and none of whose edges has a skipped label."""
        avoid = set(avoid)
        seen = set()
        todo = [b for b, lab in self.succ.get(src, []) if lab not in skip_labels]
        while todo:
            n = todo.pop()
            if n is dst or n == dst:
                return True
            if n in seen or n in avoid:
                continue
            seen.add(n)
            todo.extend(b for b, lab in self.succ.get(n, []) if lab not in skip_labels)
        return False

    def reachable(self, src, dst):
        return self.reach_avoiding(src, dst)

    def dominates(self, a, b):
        """Every path ENTRY -> b passes through a (a != b)."""
        if a is b:
            return True
        return not self.reach_avoiding(ENTRY, b, {a})

    def must_pass_before_exit(self, a, via, exit_node=EXIT):
        """Every path from a to the normal exit passes through a node in `via`."""
        return not self.reach_avoiding(a, exit_node, set(via))

    def branch_dominates(self, test, label, b):
        """Every path ENTRY -> b leaves `test` through the edge with this label last, i.e.
        b can only be reached via that branch of test."""
        other = [x for x, lab in self.succ.get(test, []) if lab != label and lab in ("T", "F")]
        # remove the other branch edges: is b still reachable without passing test's other edges?
        seen, todo = set(), [ENTRY]
        while todo:
            n = todo.pop()
            if n in seen:
                continue
            seen.add(n)
            for x, lab in self.succ.get(n, []):
                if n is test and lab == label:
                    continue  # we cut the wanted branch; if b is still reachable, it does not dominate
                todo.append(x)
        return b not in seen

    def in_loop(self, st):
        return self.reach_avoiding(st, st)


def guards_of(stmt, stop=None):
    """Structural path conditions that hold when `stmt` executes:
    list of (test expression, polarity) from enclosing If/While, plus the negation
    of every earlier sibling `if c: <raise|return|continue|break>` (no else)."""
    out = []
    node = stmt
    while node is not None and node is not stop:
        parent = getattr(node, "_parent", None)
        if parent is None:
            break
        for field in ("body", "orelse", "finalbody"):
            seq = getattr(parent, field, None)
            if isinstance(seq, list) and node in seq:
                i = seq.index(node)
                for prev in seq[:i]:
                    if isinstance(prev, ast.If) and not prev.orelse and prev.body and isinstance(prev.body[-1], (ast.Raise, ast.Return, ast.Continue, ast.Break)):
                        out.append((prev.test, False))
                if isinstance(parent, (ast.If, ast.While)):
                    if field == "body":
                        out.append((parent.test, True))
                    elif field == "orelse" and isinstance(parent, ast.If):
                        out.append((parent.test, False))
        if isinstance(parent, (ast.FunctionDef, ast.Lambda)):
            break
        node = parent
    return out


def enclosing_guards(stmt, stop=None):
    """Like guards_of, but only the tests of the enclosing if / while statements: the conditions under which the statement is
    *skipped on valid input*.  Earlier sibling `if c: raise / return` exits (input validation) are not included."""
    out = []
    node = stmt
    while node is not None and node is not stop:
        parent = getattr(node, "_parent", None)
        if parent is None:
            break
        for field in ("body", "orelse"):
            seq = getattr(parent, field, None)
            if isinstance(seq, list) and node in seq and isinstance(parent, (ast.If, ast.While)):
                out.append((parent.test, field == "body"))
        if isinstance(parent, (ast.FunctionDef, ast.Lambda)):
            break
        node = parent
    return out
