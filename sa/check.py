"""CLI: python3-vt -m sa.check <id> --tier quick|thorough

exit 0: every obligation discharged (known findings are printed, not alarms)
exit 1: VIOLATION property=<id> replay=<path>
exit 2: ANALYSIS-ERROR (anchor vanished, floor not met, undecided obligation, crash)
"""
from __future__ import annotations

import argparse
import importlib
import json
import os
import sys
import traceback

from .frontend import AnalysisError, Program
from .report import Report

ALL = [f"C{i:02d}" for i in range(1, 21)]


def run_property(pid, tier="quick", sources=None, write=True, quiet=False):
    R = Report(pid, tier, quiet=quiet)
    try:
        mod = importlib.import_module(f"sa.props.{pid}")
        P = Program(sources=sources)
        R.units = [f"src/bob/learn/em/{m}.py" for m in P.modules]
        R.explanation = getattr(mod, "EXPLANATION", "")
        R.assumptions = list(getattr(mod, "ASSUMPTIONS", []))
        mod.run(P, R, tier)
    except AnalysisError as e:
        R.error(str(e))
    except Exception as e:  # a crash is never a VIOLATION
        tb = traceback.format_exc().strip().splitlines()
        R.error(f"checker crashed: {type(e).__name__}: {e} @ {tb[-3].strip() if len(tb) >= 3 else ''}")
        if os.environ.get("SA_DEBUG"):
            traceback.print_exc()
    code = R.finish(write=write)
    return code, R


def main(argv=None):
    ap = argparse.ArgumentParser()
    ap.add_argument("prop")
    ap.add_argument("--tier", default=os.environ.get("VERIF_TIER", "quick"), choices=["quick", "thorough"])
    ap.add_argument("--replay", default=None)
    a = ap.parse_args(argv)
    if a.prop == "all":
        worst = 0
        for pid in ALL:
            code, _ = run_property(pid, a.tier)
            worst = max(worst, code)
        return worst
    if a.replay:
        with open(a.replay) as fh:
            want = json.load(fh)
        code, R = run_property(a.prop, a.tier, write=False)
        keys = {(v["rule"], v["where"], v["what"]) for v in want.get("violations", [])}
        still = [o for o in R.obs if o.key() in keys and o.verdict == "violation"]
        print(f"replay: {len(still)}/{len(keys)} recorded violations still reported")
        return 1 if still else 0
    code, R = run_property(a.prop, a.tier, write=not os.environ.get("SA_NO_WRITE"))
    if a.tier == "thorough" and code == 0:
        from .selftest import run_selftest

        code = run_selftest(a.prop, R)
    return code


if __name__ == "__main__":
    sys.exit(main())
