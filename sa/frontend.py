"""Front end: the resolved program (DESIGN.md section 2).

Parses every module of the package from the working tree (or from an in-memory
{module name: source} map, used by the checker self-tests), builds symbol
tables, the class hierarchy, import-alias maps, and resolves callees.
"""
from __future__ import annotations

import ast
import os

REPO = os.environ.get("SA_REPO", "/repo")
PKG_REL = "src/bob/learn/em"
MODNAMES = [
    "gmm",
    "kmeans",
    "utils",
    "linear_scoring",
    "factor_analysis",
    "ivector",
    "wccn",
    "whitening",
    "__init__",
]


class AnalysisError(Exception):
    """An anchor vanished / a construct cannot be understood: exit 2, never a VIOLATION."""


def load_sources(repo=None):
    repo = repo or REPO
    out = {}
    for m in MODNAMES:
        p = os.path.join(repo, PKG_REL, m + ".py")
        if not os.path.exists(p):
            raise AnalysisError(f"module {PKG_REL}/{m}.py is missing")
        with open(p, encoding="utf-8") as fh:
            out[m] = fh.read()
    return out


def load_clients(repo=None):
    """tests/ and doc/plot/ are parsed only as clients (extra call sites)."""
    repo = repo or REPO
    out = {}
    for sub in ("tests", "doc/plot"):
        d = os.path.join(repo, sub)
        if not os.path.isdir(d):
            continue
        for fn in sorted(os.listdir(d)):
            if fn.endswith(".py"):
                with open(os.path.join(d, fn), encoding="utf-8") as fh:
                    out[f"{sub}/{fn}"] = fh.read()
    return out


def src(node):
    """Normalised text of a node: findings are keyed by this, not by line numbers."""
    try:
        return ast.unparse(node)
    except Exception:  # pragma: no cover
        return f"<{type(node).__name__}>"


class Func:
    def __init__(self, module, qualname, node, cls=None, role="function"):
        self.module = module
        self.qualname = qualname
        self.node = node
        self.cls = cls
        self.role = role  # function | method | fget | fset | classmethod | staticmethod | nested
        a = node.args
        self.posparams = [x.arg for x in a.posonlyargs + a.args]
        self.kwonly = [x.arg for x in a.kwonlyargs]
        self.params = self.posparams + self.kwonly
        self.vararg = a.vararg.arg if a.vararg else None
        self.kwarg = a.kwarg.arg if a.kwarg else None
        self.defaults = {}
        pos = a.posonlyargs + a.args
        for p, d in zip(pos[len(pos) - len(a.defaults):], a.defaults):
            self.defaults[p.arg] = d
        for p, d in zip(a.kwonlyargs, a.kw_defaults):
            if d is not None:
                self.defaults[p.arg] = d
        self.annotations = {
            x.arg: x.annotation
            for x in a.posonlyargs + a.args + a.kwonlyargs
            if x.annotation is not None
        }

    @property
    def key(self):
        return f"{self.module.name}:{self.qualname}"

    @property
    def self_name(self):
        if getattr(self, "_self_override", None) is not None:
            return self._self_override  # a view of a helper in which this parameter receives the object (proto.site_func)
        if self.cls is not None and self.role in ("method", "fget", "fset", "classmethod"):
            return self.posparams[0] if self.posparams else None
        return None

    @property
    def value_params(self):
        """Parameters other than self/cls."""
        s = self.self_name
        return [p for p in self.params if p != s]

    def body(self):
        b = self.node.body
        if b and isinstance(b[0], ast.Expr) and isinstance(b[0].value, ast.Constant) and isinstance(b[0].value.value, str):
            return b[1:]
        return b

    def __repr__(self):
        return f"<Func {self.key}>"


class ClassInfo:
    def __init__(self, module, name, node):
        self.module = module
        self.name = name
        self.node = node
        self.base_exprs = node.bases
        self.methods = {}
        self.props = {}  # name -> {"get": Func, "set": Func}

    def __repr__(self):
        return f"<Class {self.module.name}.{self.name}>"


class Module:
    def __init__(self, name, source):
        self.name = name
        self.source = source
        try:
            self.tree = ast.parse(source)
        except SyntaxError as e:
            raise AnalysisError(f"module {name} does not parse: {e}")
        if not os.environ.get("SA_SHOW_RAW"):  # sa.show prints the un-canonicalised text (what variant locators match)
            from .canon import normalise

            self.tree = normalise(self.tree)  # equivalent spellings reduced to one canonical form (sa/canon.py)
        self.funcs = {}
        self.classes = {}
        self.aliases = {}  # local name -> dotted
        self.constants = {}  # module-level NAME = expr
        for n in ast.walk(self.tree):
            for ch in ast.iter_child_nodes(n):
                if not isinstance(ch, (ast.expr_context, ast.operator, ast.cmpop, ast.unaryop, ast.boolop)):
                    ch._parent = n  # (context / operator nodes are singletons shared by every tree the parser builds)
        self.tree._parent = None
        self._index()

    def _imports(self, stmts, table):
        for st in stmts:
            if isinstance(st, ast.Import):
                for al in st.names:
                    if al.asname:
                        table.setdefault(al.asname, []).append(al.name)
                    else:
                        top = al.name.split(".")[0]
                        table.setdefault(top, []).append(top)
            elif isinstance(st, ast.ImportFrom):
                mod = st.module or ""
                if st.level:
                    mod = "bob.learn.em" + ("." + mod if mod else "")
                for al in st.names:
                    table.setdefault(al.asname or al.name, []).append(f"{mod}.{al.name}")

    def _index(self):
        tbl = {}
        self._imports(self.tree.body, tbl)
        self.aliases = {k: v[0] for k, v in tbl.items()}
        for st in self.tree.body:
            if isinstance(st, ast.Assign) and len(st.targets) == 1 and isinstance(st.targets[0], ast.Name):
                self.constants[st.targets[0].id] = st.value
            if isinstance(st, ast.FunctionDef):
                self._add_func(st, None, st.name)
            elif isinstance(st, ast.ClassDef):
                ci = ClassInfo(self, st.name, st)
                self.classes[st.name] = ci
                for m in st.body:
                    if isinstance(m, ast.FunctionDef):
                        self._add_method(ci, m)

    def _add_method(self, ci, m):
        role = "method"
        propname = None
        for d in m.decorator_list:
            t = src(d)
            if t == "property":
                role = "fget"
                propname = m.name
            elif t.endswith(".setter"):
                role = "fset"
                propname = t.split(".")[0]
            elif t == "classmethod":
                role = "classmethod"
            elif t == "staticmethod":
                role = "staticmethod"
        if role in ("fget", "fset"):
            qn = f"{ci.name}.{propname}.{role}"
            f = self._add_func(m, ci, qn, role)
            ci.props.setdefault(propname, {})["get" if role == "fget" else "set"] = f
        else:
            f = self._add_func(m, ci, f"{ci.name}.{m.name}", role)
            ci.methods[m.name] = f

    def _add_func(self, node, ci, qualname, role="function"):
        f = Func(self, qualname, node, ci, role)
        self.funcs[qualname] = f
        node._func = f
        local = {}
        for sub in ast.walk(node):
            if sub is node:
                continue
            if isinstance(sub, (ast.Import, ast.ImportFrom)):
                self._imports([sub], local)
        f.local_aliases = local  # name -> [dotted alternatives]
        # nested defs
        for sub in ast.walk(node):
            if isinstance(sub, ast.FunctionDef) and sub is not node and enclosing_funcdef(sub) is node:
                self._add_func(sub, None, f"{qualname}.<locals>.{sub.name}", "nested")
        return f


def enclosing_funcdef(node):
    p = getattr(node, "_parent", None)
    while p is not None and not isinstance(p, (ast.FunctionDef, ast.Lambda)):
        p = getattr(p, "_parent", None)
    return p if isinstance(p, ast.FunctionDef) else None


def enclosing_stmt(node):
    p = node
    while p is not None and not isinstance(p, ast.stmt):
        p = getattr(p, "_parent", None)
    return p


IN_PKG = "bob.learn.em"


class Program:
    def __init__(self, sources=None, repo=None):
        self.repo = repo or REPO
        self.sources = sources if sources is not None else load_sources(self.repo)
        self.modules = {name: Module(name, s) for name, s in self.sources.items()}
        self.class_index = {}
        for m in self.modules.values():
            for c in m.classes.values():
                self.class_index[c.name] = c
        self.n_funcs = sum(len(m.funcs) for m in self.modules.values())

    # ---- lookup -------------------------------------------------------
    def func(self, key, required=True):
        mod, _, qn = key.partition(":")
        m = self.modules.get(mod)
        f = m.funcs.get(qn) if m else None
        if f is None and required:
            raise AnalysisError(f"anchor vanished: function {key} not found")
        return f

    def cls(self, name, required=True):
        c = self.class_index.get(name)
        if c is None and required:
            raise AnalysisError(f"anchor vanished: class {name} not found")
        return c

    def all_funcs(self, modules=None):
        for m in self.modules.values():
            if modules is None or m.name in modules:
                yield from m.funcs.values()

    def bases(self, ci):
        out = []
        for b in ci.base_exprs:
            n = b.id if isinstance(b, ast.Name) else None
            if n and n in self.class_index:
                out.append(self.class_index[n])
        return out

    def mro(self, ci):
        out, todo = [], [ci]
        while todo:
            c = todo.pop(0)
            if c in out:
                continue
            out.append(c)
            todo.extend(self.bases(c))
        return out

    def subclasses(self, ci):
        return [c for c in self.class_index.values() if c is not ci and ci in self.mro(c)]

    def lookup_method(self, ci, name):
        for c in self.mro(ci):
            if name in c.methods:
                return c.methods[name]
        return None

    def lookup_prop(self, ci, name):
        for c in self.mro(ci):
            if name in c.props:
                return c.props[name]
        return None

    def method_targets(self, ci, name):
        """Possible targets of `obj.name(...)` with static receiver class ci."""
        out = []
        f = self.lookup_method(ci, name)
        if f:
            out.append(f)
        for sc in self.subclasses(ci):
            if name in sc.methods and sc.methods[name] not in out:
                out.append(sc.methods[name])
        return out

    # ---- names --------------------------------------------------------
    def dotted_all(self, expr, func):
        """All dotted names an expression may denote (function-local imports may give two)."""
        if isinstance(expr, ast.Name):
            if func is not None and expr.id in getattr(func, "local_aliases", {}):
                return list(func.local_aliases[expr.id])
            mod = func.module if func is not None else None
            if mod is not None:
                # walk up nested functions
                f = func
                while f is not None and f.role == "nested":
                    parent = enclosing_funcdef(f.node)
                    f = getattr(parent, "_func", None) if parent is not None else None
                    if f is not None and expr.id in f.local_aliases:
                        return list(f.local_aliases[expr.id])
                if expr.id in mod.aliases:
                    return [mod.aliases[expr.id]]
                if expr.id in mod.funcs or expr.id in mod.classes:
                    return [f"{IN_PKG}.{mod.name}.{expr.id}"]
                if expr.id in mod.constants:
                    return [f"{IN_PKG}.{mod.name}.{expr.id}"]
            return []
        if isinstance(expr, ast.Attribute):
            return [b + "." + expr.attr for b in self.dotted_all(expr.value, func)]
        return []

    def dotted(self, expr, func):
        a = self.dotted_all(expr, func)
        return a[0] if a else None

    def resolve_pkg_name(self, dotted):
        """bob.learn.em[.mod].name -> Func | ClassInfo | None"""
        if not dotted or not dotted.startswith(IN_PKG + "."):
            return None
        rest = dotted[len(IN_PKG) + 1:].split(".")
        if len(rest) == 1:
            init = self.modules.get("__init__")
            if init and rest[0] in init.aliases:
                return self.resolve_pkg_name(init.aliases[rest[0]])
            return None
        mod = self.modules.get(rest[0])
        if mod is None:
            return None
        name = rest[1]
        obj = mod.funcs.get(name) or mod.classes.get(name)
        if obj is None and name in mod.aliases:
            return self.resolve_pkg_name(mod.aliases[name])
        if obj is not None and len(rest) == 3 and isinstance(obj, ClassInfo):
            return self.lookup_method(obj, rest[2])
        return obj

    # ---- receiver classes ----------------------------------------------
    RECEIVER_ATTRS = {"ubm": "GMMMachine"}
    RECEIVER_NAMES = {
        # (module, local/param name) -> class, where no annotation exists; confirmed by reading
        ("gmm", "machine"): "GMMMachine",
        ("gmm", "statistics"): "GMMStats",
        ("gmm", "new_machine"): "GMMMachine",
        ("gmm", "kmeans_machine"): "KMeansMachine",
        ("gmm", "other"): None,
        ("linear_scoring", "ubm"): "GMMMachine",
        ("ivector", "machine"): "IVectorMachine",
        ("ivector", "new_machine"): "IVectorMachine",
    }

    def _ann_class(self, ann):
        if ann is None:
            return None
        if isinstance(ann, ast.Constant) and isinstance(ann.value, str):
            t = ann.value
        else:
            t = src(ann)
        t = t.strip("'\"")
        if t in self.class_index:
            return self.class_index[t]
        return None

    def recv_class(self, expr, func):
        """Static class of a receiver expression, or None."""
        if isinstance(expr, ast.Name):
            if func.self_name and expr.id == func.self_name:
                return func.cls
            if expr.id in func.annotations:
                c = self._ann_class(func.annotations[expr.id])
                if c:
                    return c
            # local bound to a constructor call / cls(...) / from_hdf5
            for n in ast.walk(func.node):
                if isinstance(n, ast.Assign) and len(n.targets) == 1 and isinstance(n.targets[0], ast.Name) and n.targets[0].id == expr.id:
                    v = n.value
                    if isinstance(v, ast.BoolOp) and isinstance(v.op, ast.Or):
                        v = v.values[-1]
                    if isinstance(v, ast.Call):
                        if isinstance(v.func, ast.Name):
                            if v.func.id in ("cls",) and func.cls:
                                return func.cls
                            tgt = self.resolve_pkg_name(self.dotted(v.func, func))
                            if isinstance(tgt, ClassInfo):
                                return tgt
                        if isinstance(v.func, ast.Attribute) and v.func.attr == "from_hdf5":
                            return self.recv_class(v.func.value, func)
                        # a copy / same-class view of an object of known class: copy.copy(x), x._some_view()
                        if self.dotted(v.func, func) in ("copy.copy", "copy.deepcopy") and v.args:
                            c_ = self.recv_class(v.args[0], func)
                            if c_ is not None:
                                return c_
                        if isinstance(v.func, ast.Attribute) and isinstance(v.func.value, ast.Name) and v.func.value.id != expr.id:
                            c_ = self.recv_class(v.func.value, func)
                            m_ = self.lookup_method(c_, v.func.attr) if c_ is not None else None
                            if m_ is not None and any(isinstance(x, ast.Call) and ((isinstance(x.func, ast.Attribute) and x.func.attr == "__new__") or src(x.func) in ("copy.copy", "copy.deepcopy", f"type({m_.self_name})", "cls")) for x in ast.walk(m_.node)) and any(isinstance(r_, ast.Return) and isinstance(r_.value, ast.Name) for r_ in ast.walk(m_.node)):
                                return c_
            cname = self.RECEIVER_NAMES.get((func.module.name, expr.id))
            if cname:
                return self.class_index.get(cname)
            return None
        if isinstance(expr, ast.Attribute):
            if expr.attr in self.RECEIVER_ATTRS:
                return self.class_index.get(self.RECEIVER_ATTRS[expr.attr])
            return None
        return None

    # ---- call resolution -------------------------------------------------
    def peel_call(self, call, func):
        """Wrapper peeling. Returns (kind, callee_expr, args, keywords) where kind is
        'task' for dask.delayed(f)(...), 'plain' otherwise."""
        f = call.func
        if isinstance(f, ast.Call):
            d = self.dotted(f.func, func)
            if d in ("dask.delayed", "dask.delayed.delayed") and len(f.args) == 1:
                return "task", f.args[0], call.args, call.keywords
        return "plain", f, call.args, call.keywords

    def resolve_callee(self, fexpr, func):
        """Targets of calling expression fexpr inside func.
        Returns list of ('repo', Func) / ('ctor', ClassInfo, Func|None) / ('lib', dotted) / ('unknown', text)."""
        if isinstance(fexpr, ast.Name):
            d = self.dotted(fexpr, func)
            if fexpr.id == "cls" and func.role == "classmethod":
                return [("ctor", func.cls, self.lookup_method(func.cls, "__init__"))]
            obj = self.resolve_pkg_name(d)
            if isinstance(obj, Func):
                return [("repo", obj)]
            if isinstance(obj, ClassInfo):
                return [("ctor", obj, self.lookup_method(obj, "__init__"))]
            # nested function defined in this function
            nested = func.module.funcs.get(f"{func.qualname}.<locals>.{fexpr.id}")
            if nested:
                return [("repo", nested)]
            if d:
                return [("lib", d)]
            return [("unknown", fexpr.id)]
        if isinstance(fexpr, ast.Attribute):
            rc = self.recv_class(fexpr.value, func)
            if rc is not None:
                ts = self.method_targets(rc, fexpr.attr)
                if ts:
                    return [("repo", t) for t in ts]
            d = self.dotted(fexpr, func)
            if d:
                obj = self.resolve_pkg_name(d)
                if isinstance(obj, Func):
                    return [("repo", obj)]
                return [("lib", d)]
            return [("unknown", src(fexpr))]
        return [("unknown", src(fexpr))]

    def bind_args(self, callee, args, keywords, skip_self=True):
        """Map parameter name -> argument expression for a resolved repo callee."""
        params = list(callee.posparams)
        if skip_self and callee.self_name:
            params = params[1:]
        out = {}
        for p, a in zip(params, args):
            if isinstance(a, ast.Starred):
                break
            out[p] = a
        for kw in keywords:
            if kw.arg is not None:
                out[kw.arg] = kw.value
        return out


# ---- small AST helpers used by several engines -------------------------------

def is_self_attr(node, selfname, attr=None):
    return (
        isinstance(node, ast.Attribute)
        and isinstance(node.value, ast.Name)
        and node.value.id == selfname
        and (attr is None or node.attr == attr)
    )


def attr_chain(node):
    """x.a.b -> ['x','a','b'] or None."""
    parts = []
    while isinstance(node, ast.Attribute):
        parts.append(node.attr)
        node = node.value
    if isinstance(node, ast.Name):
        parts.append(node.id)
        return list(reversed(parts))
    return None


def walk_no_nested(node):
    """ast.walk that does not descend into nested function definitions / lambdas."""
    todo = [node]
    first = True
    while todo:
        n = todo.pop()
        if not first and isinstance(n, (ast.FunctionDef, ast.Lambda, ast.ClassDef)):
            continue
        first = False
        yield n
        todo.extend(ast.iter_child_nodes(n))


def calls_in(node):
    return [n for n in walk_no_nested(node) if isinstance(n, ast.Call)]


def names_in(node):
    return {n.id for n in ast.walk(node) if isinstance(n, ast.Name)}


def const_value(node):
    if isinstance(node, ast.Constant):
        return node.value
    if isinstance(node, ast.UnaryOp) and isinstance(node.op, ast.USub) and isinstance(node.operand, ast.Constant):
        return -node.operand.value
    return None


def canon_text(func, node):
    """Source text of `node` with the locals of `func` (names bound in its body; not parameters, not globals)
    abstracted to $1, $2 ... in order of first appearance: stable under renaming of locals."""
    params = set(func.params) | ({func.vararg} if func.vararg else set()) | ({func.kwarg} if func.kwarg else set())
    stored = {n.id for n in ast.walk(func.node) if isinstance(n, ast.Name) and isinstance(n.ctx, (ast.Store, ast.Del))} - params
    from .astclone import clone as _clone

    t = _clone(node)
    order = {}
    names = sorted((n for n in ast.walk(t) if isinstance(n, ast.Name) and n.id in stored), key=lambda n: (getattr(n, "lineno", 0), getattr(n, "col_offset", 0)))
    for n in names:
        order.setdefault(n.id, f"L{len(order) + 1}")
    for n in names:
        n.id = order[n.id]
    return ast.unparse(t)
