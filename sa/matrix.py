"""Runs every variant of the catalogue against every property's check (in memory, 16 workers) and reports
which checks catch which variant; a benign twin that makes *any* check leave exit 0 is a false alarm."""
from __future__ import annotations

import json
import os
import sys
from concurrent.futures import ProcessPoolExecutor

from .frontend import load_sources
from .selftest import apply_variant, normalised
from .variants import VARIANTS

ALL = [f"C{i:02d}" for i in range(1, 21)]


def _run(args):
    vid, srcs = args
    from .check import run_property
    from . import dataflow
    from .engines import dimrun

    out = {}
    for pid in ALL:
        dataflow._DU_CACHE.clear()
        dimrun._CACHE.clear()
        code, R = run_property(pid, "quick", sources=srcs, write=False, quiet=True)
        out[pid] = (code, [f"{o.rule} {o.where}" for o in R.obs if o.verdict == "violation"][:2], R.errors[:1])
    return vid, out


def main():
    base = normalised(load_sources())
    tasks = []
    skipped = []
    for v in VARIANTS:
        if v["kind"] == "skip":
            continue
        s = apply_variant(base, v)
        if s is None:
            skipped.append(v["id"])
            continue
        tasks.append((v["id"], s))
    byid = {v["id"]: v for v in VARIANTS}
    res = {}
    with ProcessPoolExecutor(max_workers=16) as ex:
        for vid, out in ex.map(_run, tasks, chunksize=2):
            res[vid] = out
    report = {"skipped": skipped, "variants": {}}
    bad = 0
    for vid, out in res.items():
        v = byid[vid]
        fired = [p for p, (c, _, _) in out.items() if c == 1]
        undec = [p for p, (c, _, _) in out.items() if c == 2]
        entry = {"kind": v["kind"], "listed": v["props"], "fired": fired, "undecided": undec, "descr": v["descr"]}
        if v["kind"] == "break":
            missing = [p for p in v["props"] if p not in fired]
            if missing:
                entry["MISSED_BY"] = missing
                bad += 1
        else:
            allowed_undec = v.get("may_be_undecided")
            if fired or (undec and not allowed_undec):
                entry["FALSE_ALARM"] = {p: out[p][1] or out[p][2] for p in fired + undec}
                bad += 1
        report["variants"][vid] = entry
    os.makedirs("notes", exist_ok=True)
    with open("notes/variant_matrix.json", "w") as fh:
        json.dump(report, fh, indent=1)
    nb = sum(1 for e in report["variants"].values() if e["kind"] == "break")
    nn = sum(1 for e in report["variants"].values() if e["kind"] == "benign")
    print(f"{nb} break variants, {nn} benign twins, {len(skipped)} skipped; {bad} problems")
    for vid, e in report["variants"].items():
        if "MISSED_BY" in e:
            print(f"  MISSED  {vid}: listed {e['listed']} fired {e['fired']} undecided {e['undecided']}")
        if "FALSE_ALARM" in e:
            print(f"  FALSE ALARM {vid}: {e['FALSE_ALARM']}")
    extra = {vid: sorted(set(e["fired"]) - set(e["listed"])) for vid, e in report["variants"].items() if e["kind"] == "break" and set(e["fired"]) - set(e["listed"])}
    print(f"  ({len(extra)} break variants are additionally caught by checks they were not listed for)")
    return 1 if bad else 0


if __name__ == "__main__":
    sys.exit(main())
