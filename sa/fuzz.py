"""Robustness and sensitivity sweep of the checkers: generic syntactic mutants of the current sources.

Not a registered check.  Generic mutation operators (arithmetic / relational operator replacement, constant change,
statement deletion, adjacent-argument swap, keyword-value change) are applied one at a time, in memory, to the package's
modules; every mutant is run through all twenty quick checks.  Purposes:
  * robustness: no checker may crash on a mutant ("checker crashed" = exit 2 with a traceback reason);
  * sensitivity survey: which mutants no check reports (survivors) - read by hand to find blind spots.  Many survivors are
    equivalent mutants or break no listed property; the numbers are a survey, not a verdict.

usage: python3-vt -m sa.fuzz [n_mutants] [seed]     -> notes/fuzz_report.json
"""
from __future__ import annotations

import ast
import copy
import json
import os
import random
import sys
from concurrent.futures import ProcessPoolExecutor

from .frontend import load_sources

ALL = [f"C{i:02d}" for i in range(1, 21)]
MODS = ["gmm", "kmeans", "utils", "linear_scoring", "factor_analysis", "ivector", "wccn", "whitening"]
FN_OF = {}
SWAP_BIN = {ast.Add: ast.Sub, ast.Sub: ast.Add, ast.Mult: ast.Div, ast.Div: ast.Mult}
SWAP_CMP = {ast.Lt: ast.LtE, ast.LtE: ast.Lt, ast.Gt: ast.GtE, ast.GtE: ast.Gt, ast.Eq: ast.NotEq, ast.NotEq: ast.Eq, ast.Is: ast.IsNot, ast.IsNot: ast.Is}


def sites(tree):
    """Enumerate mutation sites: (kind, path) where path locates the node by a preorder index."""
    out = []
    idx = 0
    for node in ast.walk(tree):
        node._fz = idx
        idx += 1
    for fn in ast.walk(tree):
        if not isinstance(fn, ast.FunctionDef):
            continue
        for node in ast.walk(fn):
            FN_OF.setdefault(node._fz, fn.name)
        for node in ast.walk(fn):
            if isinstance(node, ast.BinOp) and type(node.op) in SWAP_BIN:
                out.append(("binop", node._fz))
            elif isinstance(node, ast.AugAssign) and type(node.op) in SWAP_BIN:
                out.append(("augop", node._fz))
            elif isinstance(node, ast.Compare) and len(node.ops) == 1 and type(node.ops[0]) in SWAP_CMP:
                out.append(("cmp", node._fz))
            elif isinstance(node, ast.Constant) and isinstance(node.value, (int, float)) and not isinstance(node.value, bool):
                out.append(("const", node._fz))
            elif isinstance(node, ast.Constant) and isinstance(node.value, bool):
                out.append(("bool", node._fz))
            elif isinstance(node, (ast.Assign, ast.AugAssign, ast.Expr)) and not (isinstance(node, ast.Expr) and isinstance(node.value, ast.Constant)):
                if isinstance(node, ast.Expr) and isinstance(node.value, ast.Call) and ast.unparse(node.value.func).startswith("logger"):
                    continue
                out.append(("delete", node._fz))
            elif isinstance(node, ast.Call) and len(node.args) >= 2:
                out.append(("argswap", node._fz))
            elif isinstance(node, ast.UnaryOp) and isinstance(node.op, ast.USub):
                out.append(("neg", node._fz))
    return sorted(set(out), key=lambda x: (x[1], x[0]))


class M(ast.NodeTransformer):
    def __init__(self, kind, target):
        self.kind, self.target, self.done, self.descr = kind, target, False, ""

    def generic_visit(self, node):
        if getattr(node, "_fz", None) == self.target and not self.done:
            k = self.kind
            before = ast.unparse(node)[:70]
            if k == "binop":
                node.op = SWAP_BIN[type(node.op)]()
            elif k == "augop":
                node.op = SWAP_BIN[type(node.op)]()
            elif k == "cmp":
                node.ops = [SWAP_CMP[type(node.ops[0])]()]
            elif k == "const":
                v = node.value
                node.value = (v + 1) if isinstance(v, int) else (v * 2 if v else 1.0)
            elif k == "bool":
                node.value = not node.value
            elif k == "argswap":
                node.args[0], node.args[1] = node.args[1], node.args[0]
            elif k == "neg":
                self.done = True
                self.descr = f"{before}  ->  {ast.unparse(node.operand)[:70]}"
                return super().generic_visit(node.operand)
            elif k == "delete":
                self.done = True
                self.descr = f"delete `{before}`"
                return ast.Pass()
            self.done = True
            self.descr = f"{before}  ->  {ast.unparse(node)[:70]}"
        return super().generic_visit(node)


def make_mutant(src, kind, target):
    tree = ast.parse(src)
    idx = 0
    ctx = ""
    for node in ast.walk(tree):
        node._fz = idx
        idx += 1
        for ch in ast.iter_child_nodes(node):
            if not isinstance(ch, (ast.expr_context, ast.operator, ast.cmpop, ast.unaryop, ast.boolop)):
                ch._par = node  # (the context / operator nodes are shared singletons: a pointer set on one leaks into every later tree)
    for node in ast.walk(tree):
        if node._fz == target:
            p_ = node
            while p_ is not None and not isinstance(p_, ast.stmt):
                p_ = getattr(p_, "_par", None)
            if p_ is not None:
                ctx = ast.unparse(p_).split("\n")[0][:110]
    m = M(kind, target)
    new = m.visit(tree)
    ast.fix_missing_locations(new)
    if not m.done:
        return None, None
    try:
        text = ast.unparse(new)
        ast.parse(text)
    except Exception:
        return None, None
    return text, m.descr + (f"   @ `{ctx}`" if kind in ("const", "bool", "neg", "cmp") else "")


def _run(args):
    mid, mod, text, descr = args
    from . import dataflow
    from .check import run_property
    from .engines import dimrun

    base = _BASE
    srcs = dict(base)
    srcs[mod] = text
    out = {}
    for pid in ALL:
        dataflow._DU_CACHE.clear()
        dimrun._CACHE.clear()
        try:
            code, R = run_property(pid, "quick", sources=srcs, write=False, quiet=True)
            crashed = [e for e in R.errors if "checker crashed" in e]
            out[pid] = (code, crashed[:1], [f"{o.rule}" for o in R.obs if o.verdict == "violation"][:2], R.errors[:1] if code == 2 else [])
        except Exception as e:  # pragma: no cover
            out[pid] = (3, [repr(e)], [], [])
    return mid, mod, descr, out


_BASE = None


def _init(base):
    global _BASE
    _BASE = base


def main():
    n = int(sys.argv[1]) if len(sys.argv) > 1 else 400
    seed = int(sys.argv[2]) if len(sys.argv) > 2 else int(os.environ.get("VERIF_SEED", "0") or 0)
    rnd = random.Random(seed)
    base = {m: ast.unparse(ast.parse(s)) for m, s in load_sources().items()}
    allsites = []
    fn_of = {}
    for mod in MODS:
        tree = ast.parse(base[mod])
        FN_OF.clear()
        for kind, t in sites(tree):
            allsites.append((mod, kind, t))
        fn_of[mod] = dict(FN_OF)
    rnd.shuffle(allsites)
    tasks = []
    for mod, kind, t in allsites:
        if len(tasks) >= n:
            break
        text, descr = make_mutant(base[mod], kind, t)
        if text is None or text == base[mod]:
            continue
        tasks.append((len(tasks), mod, text, f"[{kind}] in {fn_of[mod].get(t, '?')}: {descr}"))
    res = []
    with ProcessPoolExecutor(max_workers=16, initializer=_init, initargs=(base,)) as ex:
        for r in ex.map(_run, tasks, chunksize=2):
            res.append(r)
    crashes, survivors, caught, undec_only = [], [], [], []
    for mid, mod, descr, out in res:
        cr = {p: v[1] for p, v in out.items() if v[1] or v[0] == 3}
        fired = [p for p, v in out.items() if v[0] == 1]
        und = [p for p, v in out.items() if v[0] == 2]
        if cr:
            crashes.append({"mutant": descr, "module": mod, "crashes": cr})
        if fired:
            caught.append({"mutant": descr, "module": mod, "fired": fired})
        elif und:
            undec_only.append({"mutant": descr, "module": mod, "undecided": {p: out[p][3] for p in und}})
        else:
            survivors.append({"mutant": descr, "module": mod})
    os.makedirs("notes", exist_ok=True)
    rep = {"seed": seed, "mutants": len(res), "sites_total": len(allsites), "caught": len(caught), "analysis_error_only": len(undec_only), "survivors": len(survivors), "crashes": crashes, "survivor_list": survivors, "analysis_error_list": undec_only, "caught_list": caught}
    with open(f"notes/fuzz_report_{seed}.json", "w") as fh:
        json.dump(rep, fh, indent=1)
    print(f"mutation sites {len(allsites)}, mutants run {len(res)}: reported by some check {len(caught)}, only ANALYSIS-ERROR {len(undec_only)}, survivors {len(survivors)}, checker crashes {len(crashes)}")
    for c in crashes[:20]:
        print("  CRASH", c["module"], c["mutant"], c["crashes"])
    return 1 if crashes else 0


if __name__ == "__main__":
    sys.exit(main())
