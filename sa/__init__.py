"""Static-analysis machinery deciding C01-C20 of bob.learn.em (see /verif/DESIGN.md).

Nothing in this package imports or executes repository code: every module of
/repo/src/bob/learn/em is parsed with `ast` on each run and rules are decided on
the syntax tree, per-function CFGs, def-use facts and small abstract domains.
"""
