"""Obligations, verdicts, evidence files, known findings, exit codes (DESIGN.md section 7)."""
from __future__ import annotations

import json
import os
import time

VERIF = os.path.dirname(os.path.dirname(os.path.abspath(__file__)))
EVIDENCE_DIR = os.path.join(VERIF, "evidence")
KNOWN_FILE = os.path.join(VERIF, "known_findings.json")

OK, VIOL, UNDEC, KNOWN = "ok", "violation", "undecided", "known-finding"


class Ob:
    __slots__ = ("rule", "where", "what", "verdict", "reason", "line", "nontrivial", "canon", "alt")

    def __init__(self, rule, where, what, verdict, reason="", line=None, nontrivial=True, canon=None):
        self.alt = None  # constructs in mutually exclusive arms of one test that compute the same thing share this key
        self.canon = canon  # the construct with the names of locals abstracted ($1, $2 ...): stable under renaming
        self.rule = rule
        self.where = where  # "module:qualname"
        self.what = what  # normalised construct / instance
        self.verdict = verdict
        self.reason = reason
        self.line = line
        self.nontrivial = nontrivial

    def key(self):
        return (self.rule, self.where, self.what)

    def as_dict(self):
        d = {"rule": self.rule, "where": self.where, "what": self.what, "verdict": self.verdict}
        if self.reason:
            d["reason"] = self.reason
        if self.line:
            d["line"] = self.line
        return d


def load_known():
    if not os.path.exists(KNOWN_FILE):
        return {"open": [], "fixed": []}
    with open(KNOWN_FILE) as fh:
        return json.load(fh)


class Report:
    def __init__(self, prop_id, tier="quick", quiet=False):
        self.prop_id = prop_id
        self.tier = tier
        self.quiet = quiet
        self.obs = []
        self.notes = []
        self.errors = []  # analysis errors (reasons)
        self.units = []
        self.functions_analysed = set()
        self.extra = {}
        self.explanation = ""
        self.assumptions = []
        self.t0 = time.time()
        self._seen = set()

    # -- recording ---------------------------------------------------------
    def _add(self, ob):
        k = (ob.rule, ob.where, ob.what, ob.verdict)
        if k in self._seen:
            return ob
        self._seen.add(k)
        self.obs.append(ob)
        return ob

    def ok(self, rule, where, what, reason="", line=None, nontrivial=True):
        return self._add(Ob(rule, where, what, OK, reason, line, nontrivial))

    def violation(self, rule, where, what, reason="", line=None, canon=None, alt=None):
        ob = Ob(rule, where, what, VIOL, reason, line, canon=canon)
        ob.alt = alt
        return self._add(ob)

    def undecided(self, rule, where, what, reason="", line=None):
        return self._add(Ob(rule, where, what, UNDEC, reason, line))

    def check(self, cond, rule, where, what, reason_ok="", reason_bad="", line=None):
        if cond:
            return self.ok(rule, where, what, reason_ok, line)
        return self.violation(rule, where, what, reason_bad or reason_ok, line)

    def note(self, text):
        self.notes.append(text)

    def error(self, reason):
        self.errors.append(reason)

    def floor(self, rule, count, minimum):
        """A rule matching fewer instances than confirmed by hand never passes silently."""
        if count < minimum:
            self.error(f"rule {rule}: {count} instances found, floor confirmed by hand is {minimum}")

    def analysed(self, func):
        self.functions_analysed.add(func.key if hasattr(func, "key") else str(func))

    # -- finishing -----------------------------------------------------------
    def finish(self, write=True):
        known = load_known()
        # A listed finding absorbs at most one reported construct: the one with the same text, or - so that renaming a
        # local variable does not turn a listed finding into a new one - the one with the same canonical form (locals
        # abstracted).  Anything beyond the listed multiplicity is reported.
        entries = [e for e in known.get("open", []) if e.get("property") == self.prop_id]
        free = list(entries)
        lines = []
        n_viol = 0
        known_hit = []
        replay = None
        cand = [ob for ob in self.obs if ob.verdict == VIOL]
        for exact in (True, False):
            for ob in cand:
                if ob.verdict != VIOL:
                    continue
                for e in free:
                    if (e["rule"], e["where"]) != (ob.rule, ob.where):
                        continue
                    if (exact and e["what"] == ob.what) or (not exact and ob.canon is not None and e.get("canon") == ob.canon):
                        ob.verdict = KNOWN
                        known_hit.append((ob, e))
                        free.remove(e)
                        break
        # the same construct spelled once per arm of a switch (an in-place form and an allocating form of one division) is
        # one finding: the alternatives of an absorbed construct - same rule, function, canonical form, exclusive arms - go with it
        for ob in cand:
            if ob.verdict == VIOL and ob.alt is not None and ob.canon is not None:
                twin = next(((o2, e2) for o2, e2 in known_hit if o2.alt == ob.alt and (o2.rule, o2.where, o2.canon) == (ob.rule, ob.where, ob.canon)), None)
                if twin is not None:
                    ob.verdict = KNOWN
                    known_hit.append((ob, twin[1]))
        viols = [o for o in self.obs if o.verdict == VIOL]
        undec = [o for o in self.obs if o.verdict == UNDEC]
        for ob, e in known_hit:
            lines.append(f"KNOWN-FINDING: property={self.prop_id} {ob.rule} {ob.where} `{ob.what}`: {e.get('what_fails', ob.reason)}")
        known_hit = [ob for ob, e in known_hit]
        # a listed finding that is no longer reported is worth a note (not an error: it may have been repaired)
        for e in free:
            self.note(f"known finding no longer reported (repaired or construct rewritten): {(e['rule'], e['where'], e['what'])}")
        if viols:
            n_viol = len(viols)
            if write:
                os.makedirs(os.path.join(EVIDENCE_DIR, "replay"), exist_ok=True)
                replay = os.path.join(EVIDENCE_DIR, "replay", f"{self.prop_id}.json")
                with open(replay, "w") as fh:
                    json.dump({"property": self.prop_id, "violations": [o.as_dict() for o in viols]}, fh, indent=1)
            else:
                replay = "<memory>"
            for o in viols:
                lines.append(f"  violation: [{o.rule}] {o.where}" + (f":{o.line}" if o.line else "") + f" `{o.what}` -- {o.reason}")
            lines.append(f"VIOLATION property={self.prop_id} replay={replay}")
        for o in undec:
            self.errors.append(f"undecided obligation [{o.rule}] {o.where} `{o.what}`: {o.reason}")
        for e in self.errors:
            lines.append(f"ANALYSIS-ERROR property={self.prop_id} reason={e}")
        code = 1 if viols else (2 if self.errors else 0)
        n_ob = len(self.obs)
        n_ok = len([o for o in self.obs if o.verdict == OK])
        distinct = len({(o.where, o.what) for o in self.obs if o.nontrivial})
        wall = time.time() - self.t0
        summary = (
            f"[{self.prop_id}] tier={self.tier} units={len(self.units)} functions={len(self.functions_analysed)} "
            f"obligations={n_ob} discharged={n_ok} known={len(known_hit)} violations={n_viol} "
            f"undecided={len(undec)} wall={wall:.2f}s -> "
            + ("HOLDS" if code == 0 else "VIOLATION" if code == 1 else "ANALYSIS-ERROR")
        )
        if not self.quiet:
            by_rule = {}
            for o in self.obs:
                by_rule.setdefault(o.rule, [0, 0])
                by_rule[o.rule][0] += 1
                by_rule[o.rule][1] += o.verdict == OK
            print(f"units analysed: {', '.join(self.units)}")
            for r, (n, k) in sorted(by_rule.items()):
                print(f"  rule {r}: {k}/{n} discharged")
            for n_ in self.notes:
                print(f"  note: {n_}")
            for ln in lines:
                print(ln)
            print(summary)
        if write:
            self._write_evidence(n_ob, n_ok, distinct, known_hit, viols, undec, wall)
        self.exit_code = code
        self.lines = lines
        return code

    def _write_evidence(self, n_ob, n_ok, distinct, known_hit, viols, undec, wall):
        os.makedirs(EVIDENCE_DIR, exist_ok=True)
        samples = [o.as_dict() for o in self.obs[:12]]
        samples += [o.as_dict() for o in (viols + known_hit + undec)][:20]
        by_rule = {}
        for o in self.obs:
            by_rule.setdefault(o.rule, {"obligations": 0, "discharged": 0})
            by_rule[o.rule]["obligations"] += 1
            by_rule[o.rule]["discharged"] += o.verdict == OK
        ev = {
            "property_id": self.prop_id,
            "tier": self.tier,
            "seed": int(os.environ.get("VERIF_SEED", "0") or 0),
            "level": "other",
            "coverage": {
                "explanation": self.explanation
                or "static analysis of the current working tree; see DESIGN.md",
                "evaluations": n_ob,
                "distinct_nontrivial": distinct,
                "rule": "one evaluation = one obligation generated from the current source by a rule instance "
                "(rule, function, normalised construct); distinct = distinct (function, construct) pairs whose "
                "verdict needed the engine (table look-ups and anchor-existence checks are marked trivial and not counted)",
                "samples": samples,
                "obligations": n_ob,
                "discharged": n_ok,
                "known_findings_reported": len(known_hit),
                "undecided": len(undec),
                "by_rule": by_rule,
                "units": self.units,
                "functions_analysed": sorted(self.functions_analysed),
                "notes": self.notes,
                "exhaustive": True,
                **self.extra,
            },
            "assumptions": self.assumptions,
            "wall_s": round(wall, 3),
            "violations": len(viols),
        }
        with open(os.path.join(EVIDENCE_DIR, f"{self.prop_id}.json"), "w") as fh:
            json.dump(ev, fh, indent=1, default=str)
