"""Variant catalogue for the checker self-test (DESIGN Appendix B).

Each entry edits the ast.unparse-normalised text of one module of the *current* tree.
kind = "break": the edit breaks the listed properties (while parsing and, by inspection,
keeping the 46 baseline tests green) and the check must report it.
kind = "benign": behaviour-preserving twin; the check must stay silent.
"""

VARIANTS = []


def V(id, props, module, old, new, descr, kind="break", count=1, **kw):
    VARIANTS.append(dict(id=id, props=props, module=module, old=old, new=new, descr=descr, kind=kind, count=count, **kw))


def V2(id, props, edits, descr, kind="break", **kw):
    VARIANTS.append(dict(id=id, props=props, edits=edits, descr=descr, kind=kind, **kw))


SETTER_V = """        self._variances = np.maximum(self.variance_thresholds, variances)
        n_log_2pi = self._variances.shape[-1] * np.log(2 * np.pi)
        self._g_norms = n_log_2pi + np.log(self._variances).sum(axis=-1)"""

# ----------------------------------------------------------------------------- C17
V("C17-gnorms-refresh-dropped", ["C17", "C01"], "gmm", SETTER_V,
  "        self._variances = np.maximum(self.variance_thresholds, variances)",
  "variances setter no longer refreshes the normaliser (stale g_norms after a second assignment)")
V("C17-gnorms-from-unclamped", ["C17"], "gmm", SETTER_V,
  """        n_log_2pi = variances.shape[-1] * np.log(2 * np.pi)
        self._g_norms = n_log_2pi + np.log(variances).sum(axis=-1)
        self._variances = np.maximum(self.variance_thresholds, variances)""",
  "normaliser computed from the unclamped argument")
V("C17-no-clamp", ["C17", "C13"], "gmm", "self._variances = np.maximum(self.variance_thresholds, variances)",
  "self._variances = np.asarray(variances)", "variances stored without the floor clamp")
V("C17-clamp-min", ["C17", "C13"], "gmm", "self._variances = np.maximum(self.variance_thresholds, variances)",
  "self._variances = np.minimum(self.variance_thresholds, variances)", "clamp uses minimum")
V("C17-gnorms-lazy-reset", ["C17", "C01"], "gmm", SETTER_V,
  """        self._variances = np.maximum(self.variance_thresholds, variances)
        self._g_norms = None""",
  "lazy design: reset the cache, getter recomputes", kind="benign")
V("C17-clamp-clip", ["C17", "C13"], "gmm", "self._variances = np.maximum(self.variance_thresholds, variances)",
  "self._variances = np.clip(variances, self.variance_thresholds, None)", "clamp spelled with np.clip", kind="benign")
V("C17-logw-only-init", ["C17", "C01"], "gmm",
  "        self._weights = weights\n        self._log_weights = np.log(self._weights)",
  "        self._weights = weights\n        if not hasattr(self, '_log_weights'):\n            self._log_weights = np.log(self._weights)",
  "log-weights cached on first assignment only")
V("C17-logw-dropped", ["C17", "C01"], "gmm",
  "        self._weights = weights\n        self._log_weights = np.log(self._weights)",
  "        self._weights = weights",
  "weights setter no longer refreshes log-weights")
V("C17-logw-of-param", ["C17"], "gmm",
  "        self._weights = weights\n        self._log_weights = np.log(self._weights)",
  "        self._log_weights = np.log(weights)\n        self._weights = weights",
  "log of the parameter, statements swapped", kind="benign")
V("C17-floors-no-reclamp", ["C17", "C13"], "gmm",
  "        self._variance_thresholds = threshold\n        if self._variances is not None:\n            self.variances = np.maximum(threshold, self._variances)",
  "        self._variance_thresholds = threshold",
  "floors setter only stores: variances stay below raised floors")
V("C17-floors-reclamp-before", ["C17"], "gmm",
  "        self._variance_thresholds = threshold\n        if self._variances is not None:\n            self.variances = np.maximum(threshold, self._variances)",
  "        if self._variances is not None:\n            self.variances = self._variances\n        self._variance_thresholds = threshold",
  "re-clamp runs before the new floors are stored")
V("C17-floors-reclamp-plain", ["C17"], "gmm",
  "            self.variances = np.maximum(threshold, self._variances)",
  "            self.variances = self._variances",
  "re-assign through the setter without the redundant maximum", kind="benign")
V("C17-mstep-private-means", ["C17", "C19"], "gmm",
  "        machine.means = statistics.sum_px / thresholded_n[:, None]",
  "        machine._means = statistics.sum_px / thresholded_n[:, None]",
  "M-step writes a private field directly", kind="benign")  # _means has no cache: benign for C17 semantics? see below
V("C17-mstep-private-variances", ["C17", "C13"], "gmm",
  "        machine.variances = statistics.sum_pxx / thresholded_n[:, None] - np.power(machine.means, 2)",
  "        machine._variances = statistics.sum_pxx / thresholded_n[:, None] - np.power(machine.means, 2)",
  "M-step bypasses the variances setter: no clamp, stale normaliser")
V("C17-mstep-elem-store", ["C17"], "gmm",
  "        machine.means = statistics.sum_px / thresholded_n[:, None]",
  "        machine.variances[:] = np.maximum(machine.variances, 1e-06)\n        machine.means = statistics.sum_px / thresholded_n[:, None]",
  "element store into the array returned by the variances getter")
V("C17-load-partial", ["C17", "C18"], "gmm",
  "        self.__dict__.update(new_self.__dict__)",
  "        self._means = new_self._means\n        self._variances = new_self._variances\n        self._weights = new_self._weights",
  "load copies three private fields only: normaliser, log-weights and floors stay stale")
V("C17-load-setters", ["C17"], "gmm",
  "        self.__dict__.update(new_self.__dict__)",
  "        self.variance_thresholds = new_self.variance_thresholds\n        self.means = new_self.means\n        self.variances = new_self.variances\n        self.weights = new_self.weights",
  "load through the four setters", kind="benign")
V("C17-getstate-drops-logw", ["C17"], "gmm",
  '    def load(self, hdf5):\n        """Overwrites the current state',
  "    def __getstate__(self):\n        state = dict(self.__dict__)\n        state.pop('_log_weights', None)\n        return state\n\n    def load(self, hdf5):\n        \"\"\"Overwrites the current state",
  "pickling drops the log-weights cache without restoring it")
V("C17-gnorms-from-clamped-local", ["C17", "C01"], "gmm", SETTER_V,
  """        v = np.maximum(self.variance_thresholds, variances)
        self._g_norms = v.shape[-1] * np.log(2 * np.pi) + np.log(v).sum(axis=-1)
        self._variances = v""",
  "normaliser computed from the clamped local before the store", kind="benign")
