"""Variant catalogue for the checker self-test (DESIGN Appendix B).

Each entry edits the ast.unparse-normalised text of one module of the *current* tree.
kind = "break": the edit breaks the listed properties (while parsing and, by inspection,
keeping the 46 baseline tests green) and the check must report it.
kind = "benign": behaviour-preserving twin; the check must stay silent.
"""

VARIANTS = []


def V(id, props, module, old, new, descr, kind="break", count=1, **kw):
    VARIANTS.append(dict(id=id, props=props, module=module, old=old, new=new, descr=descr, kind=kind, count=count, **kw))


def VP(id, props, patch, descr, module=None, old=None, new=None, kind=None, count=1, **kw):
    """A stored refactoring (benign/<name>/patch.diff, equivalence confirmed on the real code) as the base; with old/new an edit
    of the refactored text on top of it (the break), without: the refactoring itself (a benign twin)."""
    VARIANTS.append(dict(id=id, props=props, patch=patch, module=module, old=old, new=new, descr=descr, kind=kind or ("break" if old else "benign"), count=count, **kw))


def V2(id, props, edits, descr, kind="break", **kw):
    VARIANTS.append(dict(id=id, props=props, edits=edits, descr=descr, kind=kind, **kw))


SETTER_V = """        self._variances = np.maximum(self.variance_thresholds, variances)
        n_log_2pi = self._variances.shape[-1] * np.log(2 * np.pi)
        self._g_norms = n_log_2pi + np.log(self._variances).sum(axis=-1)"""

# ----------------------------------------------------------------------------- C17
V("C17-gnorms-refresh-dropped", ["C17", "C01"], "gmm", SETTER_V,
  "        self._variances = np.maximum(self.variance_thresholds, variances)",
  "variances setter no longer refreshes the normaliser (stale g_norms after a second assignment)")
V("C17-gnorms-from-unclamped", ["C17"], "gmm", SETTER_V,
  """        n_log_2pi = variances.shape[-1] * np.log(2 * np.pi)
        self._g_norms = n_log_2pi + np.log(variances).sum(axis=-1)
        self._variances = np.maximum(self.variance_thresholds, variances)""",
  "normaliser computed from the unclamped argument")
V("C17-no-clamp", ["C17", "C13"], "gmm", "self._variances = np.maximum(self.variance_thresholds, variances)",
  "self._variances = np.asarray(variances)", "variances stored without the floor clamp")
V("C17-clamp-min", ["C17", "C13"], "gmm", "self._variances = np.maximum(self.variance_thresholds, variances)",
  "self._variances = np.minimum(self.variance_thresholds, variances)", "clamp uses minimum")
V("C17-gnorms-lazy-reset", ["C17", "C01"], "gmm", SETTER_V,
  """        self._variances = np.maximum(self.variance_thresholds, variances)
        self._g_norms = None""",
  "lazy design: reset the cache, getter recomputes", kind="benign")
V("C17-clamp-clip", ["C17", "C13"], "gmm", "self._variances = np.maximum(self.variance_thresholds, variances)",
  "self._variances = np.clip(variances, self.variance_thresholds, None)", "clamp spelled with np.clip", kind="benign")
V("C17-logw-only-init", ["C17", "C01"], "gmm",
  "        self._weights = weights\n        self._log_weights = np.log(self._weights)",
  "        self._weights = weights\n        if not hasattr(self, '_log_weights'):\n            self._log_weights = np.log(self._weights)",
  "log-weights cached on first assignment only")
V("C17-logw-dropped", ["C17", "C01"], "gmm",
  "        self._weights = weights\n        self._log_weights = np.log(self._weights)",
  "        self._weights = weights",
  "weights setter no longer refreshes log-weights")
V("C17-logw-of-param", ["C17"], "gmm",
  "        self._weights = weights\n        self._log_weights = np.log(self._weights)",
  "        self._log_weights = np.log(weights)\n        self._weights = weights",
  "log of the parameter, statements swapped", kind="benign")
V("C17-floors-no-reclamp", ["C17", "C13"], "gmm",
  "        self._variance_thresholds = threshold\n        if self._variances is not None:\n            self.variances = np.maximum(threshold, self._variances)",
  "        self._variance_thresholds = threshold",
  "floors setter only stores: variances stay below raised floors")
V("C17-floors-reclamp-before", ["C17"], "gmm",
  "        self._variance_thresholds = threshold\n        if self._variances is not None:\n            self.variances = np.maximum(threshold, self._variances)",
  "        if self._variances is not None:\n            self.variances = self._variances\n        self._variance_thresholds = threshold",
  "re-clamp runs before the new floors are stored")
V("C17-floors-reclamp-plain", ["C17"], "gmm",
  "            self.variances = np.maximum(threshold, self._variances)",
  "            self.variances = self._variances",
  "re-assign through the setter without the redundant maximum", kind="benign")
V("C17-mstep-private-means", ["C17", "C19"], "gmm",
  "        machine.means = statistics.sum_px / thresholded_n[:, None]",
  "        machine._means = statistics.sum_px / thresholded_n[:, None]",
  "M-step writes a private field directly", kind="benign")  # _means has no cache: benign for C17 semantics? see below
V("C17-mstep-private-variances", ["C17", "C13"], "gmm",
  "        machine.variances = (statistics.sum_pxx - 2 * machine.means * statistics.sum_px) / thresholded_n[:, None] + np.power(machine.means, 2)",
  "        machine._variances = (statistics.sum_pxx - 2 * machine.means * statistics.sum_px) / thresholded_n[:, None] + np.power(machine.means, 2)",
  "M-step bypasses the variances setter: no clamp, stale normaliser")
V("C17-mstep-elem-store", ["C17"], "gmm",
  "        machine.means = statistics.sum_px / thresholded_n[:, None]",
  "        machine.variances[:] = np.maximum(machine.variances, 1e-06)\n        machine.means = statistics.sum_px / thresholded_n[:, None]",
  "element store into the array returned by the variances getter")
V("C17-load-partial", ["C17", "C18"], "gmm",
  "        self.__dict__.update(new_self.__dict__)",
  "        self._means = new_self._means\n        self._variances = new_self._variances\n        self._weights = new_self._weights",
  "load copies three private fields only: normaliser, log-weights and floors stay stale")
V("C17-load-setters", ["C17"], "gmm",
  "        self.__dict__.update(new_self.__dict__)",
  "        self.variance_thresholds = new_self.variance_thresholds\n        self.means = new_self.means\n        self.variances = new_self.variances\n        self.weights = new_self.weights",
  "load through the four setters", kind="benign")
V("C17-getstate-drops-logw", ["C17"], "gmm",
  '    def load(self, hdf5):\n        """Overwrites the current state',
  "    def __getstate__(self):\n        state = dict(self.__dict__)\n        state.pop('_log_weights', None)\n        return state\n\n    def load(self, hdf5):\n        \"\"\"Overwrites the current state",
  "pickling drops the log-weights cache without restoring it")
V("C17-gnorms-from-clamped-local", ["C17", "C01"], "gmm", SETTER_V,
  """        v = np.maximum(self.variance_thresholds, variances)
        self._g_norms = v.shape[-1] * np.log(2 * np.pi) + np.log(v).sum(axis=-1)
        self._variances = v""",
  "normaliser computed from the clamped local before the store", kind="benign")

# ----------------------------------------------------------------------------- C18
V("C18-threshold-constant", ["C18"], "gmm",
  "convergence_threshold=hdf5['convergence_threshold'][()] if 'convergence_threshold' in hdf5 else None",
  "convergence_threshold=1e-05", "revert of fix c8c8800: threshold restored from a constant")
V("C18-trainer-undereferenced", ["C18"], "gmm",
  "        if trainer == 'map' and ubm is None:",
  "        if hdf5['trainer'] == 'map' and ubm is None:", "revert of fix b309f63 (part): Dataset compared to a string")
V("C18-trainer-undecoded", ["C18"], "gmm",
  "            trainer = hdf5['trainer'][()]\n            if isinstance(trainer, bytes):\n                trainer = trainer.decode()\n",
  "            trainer = hdf5['trainer'][()]\n", "revert of fix b309f63 (part): trainer stays bytes, MAP reloads as ML")
V("C18-variances-before-floors", ["C18"], "gmm",
  "            self.variance_thresholds = gaussians_group['variance_thresholds'][...]\n            self.means = gaussians_group['means'][...]\n            self.variances = gaussians_group['variances'][...]",
  "            self.means = gaussians_group['means'][...]\n            self.variances = gaussians_group['variances'][...]\n            self.variance_thresholds = gaussians_group['variance_thresholds'][...]",
  "revert of fix aeb7501: variances assigned before floors")
V("C18-save-none-unguarded", ["C18"], "gmm",
  "        if self.max_fitting_steps is not None:\n            hdf5['max_fitting_steps'] = self.max_fitting_steps",
  "        hdf5['max_fitting_steps'] = self.max_fitting_steps", "revert of fix cd01cac (part): None stored unguarded")
V("C18-read-none-unguarded", ["C18"], "gmm",
  "max_fitting_steps=hdf5['max_fitting_steps'][()] if 'max_fitting_steps' in hdf5 else None",
  "max_fitting_steps=hdf5['max_fitting_steps'][()]", "reader reads an omitted key unconditionally")
V("C18-key-dropped", ["C18"], "gmm",
  ", update_weights=hdf5['update_weights'][()])", ")", "reader no longer restores update_weights (constructor default)")
V("C18-key-crossed", ["C18"], "gmm",
  "update_variances=hdf5['update_variances'][()]", "update_variances=hdf5['update_means'][()]", "update_means read into update_variances")
V("C18-deref-dropped", ["C18"], "gmm",
  "update_means=hdf5['update_means'][()]", "update_means=hdf5['update_means']", "dataset object stored as a switch (always truthy)")
V("C18-means-not-restored", ["C18"], "gmm",
  "            self.means = gaussians_group['means'][...]\n            self.variances = gaussians_group['variances'][...]\n        else:",
  "            self.variances = gaussians_group['variances'][...]\n        else:", "means never restored")
V("C18-initfields-crossed", ["C18"], "gmm",
  "self.init_fields(new_self.log_likelihood, new_self.t, new_self.n, new_self.sum_px, new_self.sum_pxx)",
  "self.init_fields(new_self.log_likelihood, new_self.t, new_self.n, new_self.sum_pxx, new_self.sum_px)", "first and second order statistics crossed in load")
V("C18-resize-after", ["C18"], "gmm",
  "        if new_self.shape != self.shape:\n            logger.warning('Loaded GMMStats from hdf5 with a different shape.')\n            self.resize(*new_self.shape)\n        self.init_fields(new_self.log_likelihood, new_self.t, new_self.n, new_self.sum_px, new_self.sum_pxx)",
  "        self.init_fields(new_self.log_likelihood, new_self.t, new_self.n, new_self.sum_px, new_self.sum_pxx)\n        if new_self.shape != self.shape:\n            logger.warning('Loaded GMMStats from hdf5 with a different shape.')\n            self.resize(*new_self.shape)",
  "resize wipes the loaded statistics when shapes differ")
V("C18-stats-key-crossed", ["C18"], "gmm",
  "            self.sum_pxx = hdf5['sumPxx'][...]", "            self.sum_pxx = hdf5['sumPx'][...]", "sum_pxx restored from the sumPx key")
V("C18-stats-t-dropped", ["C18"], "gmm",
  "            self.t = hdf5['T'][()]\n", "", "sample count not restored")
V("C18-legacy-thresholds-dropped", ["C18"], "gmm",
  "            self.variance_thresholds = np.array(g_variance_thresholds).reshape(n_gaussians, -1)\n", "", "legacy arm drops the floors")
V("C18-reader-local", ["C18"], "gmm",
  "update_means=hdf5['update_means'][()]", "update_means=bool(hdf5['update_means'][()])", "extra conversion of a switch", kind="benign")
V("C18-reader-reordered", ["C18"], "gmm",
  "            self.variance_thresholds = gaussians_group['variance_thresholds'][...]\n            self.means = gaussians_group['means'][...]\n            self.variances = gaussians_group['variances'][...]",
  "            self.means = gaussians_group['means'][...]\n            self.variance_thresholds = gaussians_group['variance_thresholds'][...]\n            self.variances = gaussians_group['variances'][...]",
  "means first, floors still before variances", kind="benign")
V("C18-trainer-asstr", ["C18"], "gmm",
  "            trainer = hdf5['trainer'][()]\n            if isinstance(trainer, bytes):\n                trainer = trainer.decode()\n",
  "            trainer = hdf5['trainer'].asstr()[()]\n", "decode with asstr()", kind="benign")

# ----------------------------------------------------------------------------- C14
MU_DICT = "        mu_l = {label: numerical_module.mean(X[numerical_module.where(y_ == label)[0]], axis=0) for label in possible_labels}"
V("C14-mu-positional", ["C14", "C16"], "wccn", MU_DICT,
  "        mu_l = numerical_module.array([numerical_module.mean(X[numerical_module.where(y_ == label)[0]], axis=0) for label in possible_labels])",
  "revert of fix 8d5ae68: class means positional in set order, indexed by label value")
V("C14-mu-list-enumerate", ["C14", "C16"], "wccn",
  MU_DICT + "\n        Sw = numerical_module.zeros((X.shape[1], X.shape[1]), dtype=float)\n        for label in possible_labels:\n            indexes = numerical_module.where(y_ == label)[0]\n            X_l_mu_l = X[indexes] - mu_l[label]",
  "        labels = sorted(possible_labels)\n        mu_l = [numerical_module.mean(X[numerical_module.where(y_ == label)[0]], axis=0) for label in labels]\n        Sw = numerical_module.zeros((X.shape[1], X.shape[1]), dtype=float)\n        for pos, label in enumerate(labels):\n            indexes = numerical_module.where(y_ == label)[0]\n            X_l_mu_l = X[indexes] - mu_l[pos]",
  "sorted labels with enumerate: positional pairing", kind="benign")
V("C14-lower-false", ["C14"], "wccn", "self.weights = cholesky(inv_scaled_Sw, lower=True)", "self.weights = cholesky(inv_scaled_Sw, lower=False)", "upper factor in WCCN")
V("C14-lower-dropped", ["C14"], "whitening", "self.weights = cholesky(inv_cov, lower=True)", "self.weights = cholesky(inv_cov)", "upper factor in whitening (library default)")
V("C14-upper-transposed", ["C14"], "whitening", "self.weights = cholesky(inv_cov, lower=True)", "self.weights = cholesky(inv_cov).T", "upper factor transposed = lower factor", kind="benign")
V("C14-no-inverse", ["C14"], "whitening", "inv_cov = pinv(cov) if self.pinv else inv(cov)", "inv_cov = cov", "Cholesky of the covariance instead of its inverse")
V("C14-transform-sign", ["C14"], "wccn", "(x - self.input_subtract) / self.input_divide @ self.weights", "(x + self.input_subtract) / self.input_divide @ self.weights", "mean added instead of subtracted")
V("C14-transform-order", ["C14"], "whitening", "(X - self.input_subtract) / self.input_divide @ self.weights", "(X / self.input_divide - self.input_subtract) @ self.weights", "subtract after scaling")
V("C14-label-arith", ["C14", "C16"], "wccn", "            Sw += X_l_mu_l.T @ X_l_mu_l", "            Sw += (1 + 1e-09 * label) * (X_l_mu_l.T @ X_l_mu_l)", "label value used arithmetically")
V("C14-nclasses-max", ["C14"], "wccn", "n_classes = len(possible_labels)", "n_classes = max(y) + 1", "class count from the largest label value")
V("C14-wrong-mean", ["C14"], "wccn", "            X_l_mu_l = X[indexes] - mu_l[label]", "            X_l_mu_l = X[indexes] - numerical_module.mean(X, axis=0)", "centres every class on the global mean")
V("C14-mean-axis", ["C14"], "whitening", "mu = numerical_module.mean(X, axis=0)", "mu = numerical_module.mean(X)", "scalar grand mean instead of per-feature mean")
V("C14-arm-different-fn", ["C14", "C04"], "whitening", "            from scipy.linalg import cholesky, inv", "            from scipy.linalg import cholesky\n            from scipy.linalg import pinvh as inv", "NumPy arm binds another inverse than the Dask arm", kind="break")
V("C14-renamed-locals", ["C14", "C16"], "wccn", "possible_labels", "classes", "rename a local", kind="benign", count="all")

# ----------------------------------------------------------------------------- C16
V("C16-seed-removed", ["C16"], "factor_analysis",
  "        if self.random_state is not None:\n            np.random.seed(self.random_state)\n        U_shape", "        U_shape",
  "U/V initialisation no longer re-seeded: depends on the global RNG state")
V("C16-seed-after-draw", ["C16"], "factor_analysis",
  "        if self.random_state is not None:\n            np.random.seed(self.random_state)\n        U_shape = (self.supervector_dimension, self.r_U)\n        self._U = np.random.normal(scale=1.0, loc=0.0, size=U_shape)",
  "        U_shape = (self.supervector_dimension, self.r_U)\n        self._U = np.random.normal(scale=1.0, loc=0.0, size=U_shape)\n        if self.random_state is not None:\n            np.random.seed(self.random_state)",
  "seed call moved after the first draw")
V("C16-seed-constantless", ["C16"], "factor_analysis", "np.random.seed(self.random_state)", "np.random.seed()", "seed() without argument")
V("C16-kinit-unseeded", ["C16"], "kmeans", ", random_state=self.random_state, max_iter=self.init_max_iter", ", max_iter=self.init_max_iter", "k_init without random_state (dask-ml default None)")
V("C16-kinit-none", ["C16"], "kmeans", "random_state=self.random_state, max_iter=self.init_max_iter", "random_state=None, max_iter=self.init_max_iter", "k_init(random_state=None)")
V("C16-kmeans-default-seed", ["C16"], "gmm", "KMeansMachine(self.n_gaussians, random_state=self.random_state)", "KMeansMachine(self.n_gaussians)", "k-means trainer with its own constant default seed: still reproducible", kind="benign")
V("C16-extra-global-draw", ["C16"], "gmm", "            self.means = copy.deepcopy(kmeans_machine.centroids_)", "            self.means = copy.deepcopy(kmeans_machine.centroids_) + 1e-12 * np.random.rand(*kmeans_machine.centroids_.shape)", "unseeded global draw added to the GMM initialisation")
V("C16-unseeded-generator", ["C16"], "factor_analysis", "self._U = np.random.normal(scale=1.0, loc=0.0, size=U_shape)", "self._U = np.random.RandomState().normal(scale=1.0, loc=0.0, size=U_shape)", "fresh unseeded RandomState")
V("C16-seeded-generator", ["C16"], "factor_analysis", "self._U = np.random.normal(scale=1.0, loc=0.0, size=U_shape)", "self._U = np.random.RandomState(self.random_state).normal(scale=1.0, loc=0.0, size=U_shape)", "own generator seeded from random_state", kind="benign")
V("C16-append-in-set-loop", ["C16"], "factor_analysis",
  "        for y_i in set(y):\n            id_plus_d_prod = self._compute_id_plus_d_prod_i(dt_inv_sigma_d, n_acc[y_i])\n            X_i = self._get_statistics_by_class_id(X, y, y_i)\n            latent_x_i = latent_x[y_i]\n            latent_y_i = latent_y[y_i] if latent_y is not None else None\n            fn_z_i = self._compute_fn_z_i(X_i, latent_x_i, latent_y_i, n_acc[y_i], f_acc[y_i])\n            latent_z[y_i] = id_plus_d_prod * dt_inv_sigma * fn_z_i\n        return latent_z",
  "        new_z = []\n        for y_i in set(y):\n            id_plus_d_prod = self._compute_id_plus_d_prod_i(dt_inv_sigma_d, n_acc[y_i])\n            X_i = self._get_statistics_by_class_id(X, y, y_i)\n            latent_x_i = latent_x[y_i]\n            latent_y_i = latent_y[y_i] if latent_y is not None else None\n            fn_z_i = self._compute_fn_z_i(X_i, latent_x_i, latent_y_i, n_acc[y_i], f_acc[y_i])\n            new_z.append(id_plus_d_prod * dt_inv_sigma * fn_z_i)\n        return np.vstack(new_z)",
  "latent z rows collected in set-iteration order instead of by class id")
V("C16-wrong-class-index", ["C16"], "factor_analysis",
  "            acc_D_A2 += fn_z_i * latent_z[y_i]", "            acc_D_A2 += fn_z_i * latent_z[y_i - 1]", "neighbouring class's offset used in the D accumulator")
V("C16-sorted-loop", ["C16"], "factor_analysis", "        for i in set(y):\n            n_acc_i = n_acc[i]", "        for i in sorted(set(y)):\n            n_acc_i = n_acc[i]", "iterate the classes in sorted order", kind="benign")
V("C16-time-seed", ["C16"], "kmeans", "random_state=self.random_state, max_iter=self.init_max_iter", "random_state=int(time.time()), max_iter=self.init_max_iter", "seed taken from the clock")

# ----------------------------------------------------------------------------- C07
V("C07-fn_y-sign-D", ["C07", "C09"], "factor_analysis", "fn_y_i = f_acc_i.flatten() - tmp_CD * (m + D * latent_z_i)", "fn_y_i = f_acc_i.flatten() - tmp_CD * (m - D * latent_z_i)", "revert of fix 8aa6de2: D z enters the speaker-factor residual with +")
V("C07-fn_y-distributed", ["C07", "C09"], "factor_analysis", "fn_y_i = f_acc_i.flatten() - tmp_CD * (m + D * latent_z_i)", "fn_y_i = f_acc_i.flatten() - tmp_CD * m - tmp_CD * D * latent_z_i", "product distributed", kind="benign")
V("C07-fn_y-negated-form", ["C07", "C09"], "factor_analysis", "fn_y_i = f_acc_i.flatten() - tmp_CD * (m + D * latent_z_i)", "fn_y_i = -(tmp_CD * (m + D * latent_z_i) - f_acc_i.flatten())", "written as -(b - a)", kind="benign")
V("C07-fn_y-U-plus", ["C07", "C09"], "factor_analysis", "            fn_y_i -= tmp_CD * U_dot_x", "            fn_y_i += tmp_CD * U_dot_x", "channel term added to the speaker-factor residual")
V("C07-fn_y-U-dropped", ["C07", "C09"], "factor_analysis", "            fn_y_i -= tmp_CD * U_dot_x", "            pass", "channel term dropped from the speaker-factor residual")
V("C07-fn_y-class-weight", ["C07", "C09"], "factor_analysis", "            U_dot_x = U @ latent_x_i[:, session_id]\n            tmp_CD = np.repeat(n_i, self.feature_dimension)\n            fn_y_i -= tmp_CD * U_dot_x", "            U_dot_x = U @ latent_x_i[:, session_id]\n            fn_y_i -= tmp_CD * U_dot_x / len(X_i)", "channel term weighted by the class total instead of the session counts")
V("C07-fn_z-V-plus", ["C07", "C09"], "factor_analysis", "fn_z_i = f_acc_i.flatten() - tmp_CD * (m + V_dot_v)", "fn_z_i = f_acc_i.flatten() - tmp_CD * (m - V_dot_v)", "V y enters the offset residual with +")
V("C07-fn_z-mean-dropped", ["C07", "C09"], "factor_analysis", "fn_z_i = f_acc_i.flatten() - tmp_CD * (m + V_dot_v)", "fn_z_i = f_acc_i.flatten() - tmp_CD * V_dot_v", "UBM mean not subtracted in the offset residual")
V("C07-fn_x-D-plus", ["C07", "C09"], "factor_analysis", "fn_x_ih = f_i.flatten() - n_ic * (self.mean_supervector + self._D * latent_z_i)", "fn_x_ih = f_i.flatten() - n_ic * (self.mean_supervector - self._D * latent_z_i)", "D z enters the channel residual with +")
V("C07-fn_x-V-plus", ["C07", "C09"], "factor_analysis", "fn_x_ih -= n_ic * V_dot_v if latent_y_i is not None else 0", "fn_x_ih += n_ic * V_dot_v if latent_y_i is not None else 0", "V y added to the channel residual")
V("C07-prior-dropped", ["C07"], "factor_analysis", "return np.linalg.inv(I + (UProd * n_i[:, None, None]).sum(axis=0))", "return np.linalg.inv(1e-12 * I + (UProd * n_i[:, None, None]).sum(axis=0))", "prior precision (identity) effectively removed from the channel posterior", kind="benign", may_be_undecided=True)
V("C07-prior-removed", ["C07"], "factor_analysis", "id_plus_d_prod = np.ones(tmp_CD.shape) + dt_inv_sigma_d * tmp_CD", "id_plus_d_prod = dt_inv_sigma_d * tmp_CD", "identity missing from the offset precision")
V("C07-precision-minus", ["C07"], "factor_analysis", "return np.linalg.inv(I + (VProd * n_acc_i[:, None, None]).sum(axis=0))", "return np.linalg.inv(I - (VProd * n_acc_i[:, None, None]).sum(axis=0))", "data term subtracted in the speaker precision")
V("C07-not-inverted", ["C07"], "factor_analysis", "return np.linalg.inv(I + (VProd * n_acc_i[:, None, None]).sum(axis=0))", "return I + (VProd * n_acc_i[:, None, None]).sum(axis=0)", "precision returned instead of covariance")
V("C07-stale-z", ["C07"], "factor_analysis",
  "            latent_y = self.update_y(X=X, y=y, n_classes=1, VProd=VProd, latent_x=latent_x, latent_y=latent_y, latent_z=latent_z, n_acc=n_acc, f_acc=f_acc)\n            latent_x = self.compute_latent_x(X=X, y=y, n_classes=1, UProd=UProd, latent_y=latent_y, latent_z=latent_z)\n            latent_z = self.update_z(",
  "            old_z = latent_z\n            latent_y = self.update_y(X=X, y=y, n_classes=1, VProd=VProd, latent_x=latent_x, latent_y=latent_y, latent_z=latent_z, n_acc=n_acc, f_acc=f_acc)\n            latent_x = self.compute_latent_x(X=X, y=y, n_classes=1, UProd=UProd, latent_y=latent_y, latent_z=latent_z)\n            latent_z = self.update_z(",
  "harmless alias of the current z", kind="benign")
V("C07-stale-y-to-x", ["C07"], "factor_analysis",
  "            latent_y = self.update_y(X=X, y=y, n_classes=1, VProd=VProd, latent_x=latent_x, latent_y=latent_y, latent_z=latent_z, n_acc=n_acc, f_acc=f_acc)\n            latent_x = self.compute_latent_x(X=X, y=y, n_classes=1, UProd=UProd, latent_y=latent_y, latent_z=latent_z)",
  "            prev_y = latent_y\n            latent_y = self.update_y(X=X, y=y, n_classes=1, VProd=VProd, latent_x=latent_x, latent_y=latent_y, latent_z=latent_z, n_acc=n_acc, f_acc=f_acc)\n            latent_x = self.compute_latent_x(X=X, y=y, n_classes=1, UProd=UProd, latent_y=prev_y, latent_z=latent_z)",
  "channel update conditioned on the previous pass's speaker factors (Jacobi instead of Gauss-Seidel)")
V("C07-z-update-dropped", ["C07"], "factor_analysis",
  "            latent_x = self.compute_latent_x(X=X, y=y, n_classes=1, UProd=UProd, latent_y=latent_y, latent_z=latent_z)\n            latent_z = self.update_z(X=X, y=y, latent_x=latent_x, latent_y=latent_y, latent_z=latent_z, n_acc=n_acc, f_acc=f_acc)\n        return (latent_y[0], latent_z[0])",
  "            latent_x = self.compute_latent_x(X=X, y=y, n_classes=1, UProd=UProd, latent_y=latent_y, latent_z=latent_z)\n        latent_z = self.update_z(X=X, y=y, latent_x=latent_x, latent_y=latent_y, latent_z=latent_z, n_acc=n_acc, f_acc=f_acc)\n        return (latent_y[0], latent_z[0])",
  "offset update moved out of the enrolment loop")
V("C07-x-before-y", ["C07"], "factor_analysis",
  "            latent_y = self.update_y(X=X, y=y, n_classes=1, VProd=VProd, latent_x=latent_x, latent_y=latent_y, latent_z=latent_z, n_acc=n_acc, f_acc=f_acc)\n            latent_x = self.compute_latent_x(X=X, y=y, n_classes=1, UProd=UProd, latent_y=latent_y, latent_z=latent_z)",
  "            latent_x = self.compute_latent_x(X=X, y=y, n_classes=1, UProd=UProd, latent_y=latent_y, latent_z=latent_z)\n            latent_y = self.update_y(X=X, y=y, n_classes=1, VProd=VProd, latent_x=latent_x, latent_y=latent_y, latent_z=latent_z, n_acc=n_acc, f_acc=f_acc)",
  "another block order within a pass", kind="benign")
V("C07-iterations-minus-one", ["C07"], "factor_analysis", "        for i in range(iterations):\n            logger.info('Enrollment: Iteration %d', i + 1)\n            latent_y = self.update_y(", "        for i in range(iterations - 1):\n            logger.info('Enrollment: Iteration %d', i + 1)\n            latent_y = self.update_y(", "one enrolment pass fewer than configured")
V("C07-args-crossed", ["C07", "C09"], "factor_analysis", "fn_y_i = self._compute_fn_y_i(X_i, latent_x_i, latent_z_i, n_acc_i, f_acc_i)", "fn_y_i = self._compute_fn_y_i(X_i, latent_z_i, latent_x_i, n_acc_i, f_acc_i)", "x and z factors crossed at the residual kernel call")
V("C07-return-stale", ["C07"], "factor_analysis",
  "            latent_z = self.update_z(X=X, y=y, latent_x=latent_x, latent_y=latent_y, latent_z=latent_z, n_acc=n_acc, f_acc=f_acc)\n        return latent_z",
  "            new_z = self.update_z(X=X, y=y, latent_x=latent_x, latent_y=latent_y, latent_z=latent_z, n_acc=n_acc, f_acc=f_acc)\n        return latent_z",
  "ISV enrolment returns the buffer name instead of the result (same object here: update_z fills it in place)", kind="benign", may_be_undecided=True)

# ----------------------------------------------------------------------------- C08
V("C08-offset-plus", ["C08", "C11"], "linear_scoring", "b = sum_px[:, :, :] - n[:, :, None] * (ubm.means[None, :, :] + test_channel_offsets)", "b = sum_px[:, :, :] - n[:, :, None] * (ubm.means[None, :, :] - test_channel_offsets)", "channel offset enters with the wrong sign")
V("C08-offset-unweighted", ["C08", "C11"], "linear_scoring", "b = sum_px[:, :, :] - n[:, :, None] * (ubm.means[None, :, :] + test_channel_offsets)", "b = sum_px[:, :, :] - n[:, :, None] * ubm.means[None, :, :] - test_channel_offsets", "channel offset not weighted by the counts")
V("C08-ubm-mean-plus", ["C08"], "linear_scoring", "a = (models_means - ubm.means) / ubm.variances", "a = (models_means + ubm.means) / ubm.variances", "UBM mean added in the model factor")
V("C08-distributed", ["C08"], "linear_scoring", "b = sum_px[:, :, :] - n[:, :, None] * (ubm.means[None, :, :] + test_channel_offsets)", "b = sum_px[:, :, :] - n[:, :, None] * ubm.means[None, :, :] - n[:, :, None] * test_channel_offsets", "distributed product", kind="benign")
V("C08-norm-by-n", ["C08"], "linear_scoring", "b = np.where(abs(t) <= EPSILON, 0, b[:, :] / t[None, :])", "b = np.where(abs(t) <= EPSILON, 0, b[:, :] / n.sum(axis=1)[None, :])", "normalised by the summed responsibilities")
V("C08-guard-removed", ["C08"], "linear_scoring", "b = np.where(abs(t) <= EPSILON, 0, b[:, :] / t[None, :])", "b = b[:, :] / t[None, :]", "zero-frame guard removed")
V("C08-guard-inverted-form", ["C08"], "linear_scoring", "b = np.where(abs(t) <= EPSILON, 0, b[:, :] / t[None, :])", "b = np.where(abs(t) > EPSILON, b[:, :] / t[None, :], 0)", "guard written the other way round", kind="benign")
V("C08-always-normalised", ["C08"], "linear_scoring", "    if frame_length_normalization:\n        b = np.where(", "    if True:\n        b = np.where(", "normalisation applied regardless of the flag")
V("C08-unwrap-late", ["C08"], "linear_scoring",
  "    if ubm.trainer == 'map':\n        ubm = ubm.ubm\n    if isinstance(test_stats, GMMStats):\n        test_stats = [test_stats]",
  "    ubm_means = ubm.means\n    if ubm.trainer == 'map':\n        ubm = ubm.ubm\n    if isinstance(test_stats, GMMStats):\n        test_stats = [test_stats]",
  "harmless early read that is not used", kind="benign")
V2("C08-unwrap-late-used", ["C08"], [
    dict(module="linear_scoring", old="    if ubm.trainer == 'map':\n        ubm = ubm.ubm\n    if isinstance(test_stats, GMMStats):", new="    ubm_means = ubm.means\n    if ubm.trainer == 'map':\n        ubm = ubm.ubm\n    if isinstance(test_stats, GMMStats):"),
    dict(module="linear_scoring", old="a = (models_means - ubm.means) / ubm.variances", new="a = (models_means - ubm_means) / ubm.variances"),
  ], "UBM means read before the MAP -> prior unwrapping and used in the model factor")
V("C08-unwrap-removed", ["C08"], "linear_scoring", "    if ubm.trainer == 'map':\n        ubm = ubm.ubm\n", "", "MAP machine no longer replaced by its prior")
V("C08-stats-not-wrapped", ["C08"], "linear_scoring", "    if isinstance(test_stats, GMMStats):\n        test_stats = [test_stats]\n", "", "single statistics object no longer wrapped")
V("C08-variance-dropped", ["C08", "C15"], "linear_scoring", "a = (models_means - ubm.means) / ubm.variances", "a = models_means - ubm.means", "variance normalisation dropped")

# ----------------------------------------------------------------------------- C11
V("C11-transform-bare-stats", ["C11"], "factor_analysis", "return self.estimate_ux([ubm_projected_X])", "return self.estimate_ux(ubm_projected_X)", "revert of fix 90e07b2: bare GMMStats passed where a list is iterated")
V("C11-enroll-bare-stats", ["C11"], "factor_analysis", "return self.enroll([self.ubm.acc_stats(X)])", "return self.enroll(self.ubm.acc_stats(X))", "enroll_using_array passes bare statistics", count=2)
V("C11-score-rescaled", ["C11"], "factor_analysis", "return self.score(model, [self.ubm.acc_stats(d) for d in data])", "return self.score(model, [self.ubm.acc_stats(d) for d in data]) / len(data)", "array-level score post-processed")
V("C11-score-recentred", ["C11"], "factor_analysis", "return self.score(model, [self.ubm.acc_stats(d) for d in data])", "return self.score(model, [self.ubm.acc_stats(d - d.mean(axis=0)) for d in data])", "array re-centred before projection")
V("C11-score-local", ["C11"], "factor_analysis", "return self.score(model, [self.ubm.acc_stats(d) for d in data])", "stats = [self.ubm.acc_stats(d) for d in data]\n        return self.score(model, stats)", "statistics bound to a local first", kind="benign")
V("C11-offset-first-only", ["C11"], "factor_analysis", "        x = self.estimate_x(data)\n        Ux = self._U @ x\n        z = self.D * latent_z + self.mean_supervector", "        x = self.estimate_x(data[:1])\n        Ux = self._U @ x\n        z = self.D * latent_z + self.mean_supervector", "channel factor estimated from the first statistics only")
V("C11-no-frame-norm", ["C11"], "factor_analysis", "Ux.reshape((self.ubm.n_gaussians, self.feature_dimension)), frame_length_normalization=True)[0][0]", "Ux.reshape((self.ubm.n_gaussians, self.feature_dimension)), frame_length_normalization=False)[0][0]", "frame normalisation switched off", count=2)
V("C11-offset-negated", ["C11"], "factor_analysis", "        Ux = self._U @ x\n        zy = ", "        Ux = -(self._U @ x)\n        zy = ", "channel offset negated in JFA scoring")
V("C11-no-compensation", ["C11"], "factor_analysis", "data_sum, Ux.reshape((self.ubm.n_gaussians, self.feature_dimension)), frame_length_normalization=True)[0][0]", "data_sum, 0, frame_length_normalization=True)[0][0]", "no channel compensation", count=2)
V("C11-client-mean-minus", ["C11"], "factor_analysis", "z = self.D * latent_z + self.mean_supervector", "z = self.mean_supervector - self.D * latent_z", "client offset subtracted from the UBM mean")
V("C11-client-V-missing", ["C11"], "factor_analysis", "zy = self.V @ latent_y + self.D * latent_z + self.mean_supervector", "zy = self.D * latent_z + self.mean_supervector", "JFA client mean without V y")
V("C11-pool-skips-one", ["C11"], "factor_analysis", "            data_sum = sum(data[1:], start=data[0])", "            data_sum = sum(data[2:], start=data[0])", "pooling skips the second statistics object", count=2)
V("C11-pool-inplace", ["C11", "C19"], "factor_analysis", "            data_sum = sum(data[1:], start=data[0])", "            data_sum = functools.reduce(operator.iadd, data)", "probe statistics pooled in place (mutates the caller's first object)", count=2)
V("C11-fnx-first-only", ["C11"], "factor_analysis", "sum_px_sum = sum((x_i_s.sum_px for x_i_s in X_i))", "sum_px_sum = X_i[0].sum_px", "first-order statistics of the first session only")
V("C11-other-ubm", ["C11"], "factor_analysis", "self.ubm, data_sum, Ux.reshape", "self.ubm.ubm if self.ubm.trainer == 'map' else self.ubm, data_sum, Ux.reshape", "explicit unwrapping that linear_scoring does itself", kind="benign", count=2, may_be_undecided=True)

# ----------------------------------------------------------------------------- C03 (GMM loop) -- the k-means twins are under C06
GW = "        while self.max_fitting_steps is None or step < self.max_fitting_steps:"
V("C03-cap-le", ["C03"], "gmm", GW, "        while self.max_fitting_steps is None or step <= self.max_fitting_steps:", "one iteration more than the cap")
V("C03-cap-and", ["C03"], "gmm", GW, "        while self.max_fitting_steps is not None and step < self.max_fitting_steps:", "no training at all without a cap")
V("C03-cap-none-dropped", ["C03"], "gmm", GW, "        while step < self.max_fitting_steps:", "TypeError when no cap is configured")
V("C03-step-init-1", ["C03"], "gmm", "        step = 0\n        while self.max_fitting_steps", "        step = 1\n        while self.max_fitting_steps", "counter starts at one: one iteration fewer, test on first pass")
V("C03-thr-lt", ["C03"], "gmm", "convergence_value <= self.convergence_threshold", "convergence_value < self.convergence_threshold", "strict comparison with the threshold")
V("C03-guard-2", ["C03"], "gmm", "            if step > 1:\n                convergence_value = abs((average_output_previous", "            if step > 2:\n                convergence_value = abs((average_output_previous", "convergence test delayed to the third pass")
V("C03-guard-0", ["C03"], "gmm", "            if step > 1:\n                convergence_value = abs((average_output_previous", "            if step > 0:\n                convergence_value = abs((average_output_previous", "convergence test on the first pass against the literal 0")
V("C03-guard-ge2", ["C03"], "gmm", "            if step > 1:\n                convergence_value = abs((average_output_previous", "            if step >= 2:\n                convergence_value = abs((average_output_previous", "guard spelled >= 2", kind="benign")
V("C03-no-abs", ["C03"], "gmm", "convergence_value = abs((average_output_previous - average_output) / average_output_previous)", "convergence_value = (average_output_previous - average_output) / average_output_previous", "signed change")
V("C03-absolute-change", ["C03"], "gmm", "convergence_value = abs((average_output_previous - average_output) / average_output_previous)", "convergence_value = abs(average_output_previous - average_output)", "absolute instead of relative change")
V("C03-abs-abs", ["C03"], "gmm", "convergence_value = abs((average_output_previous - average_output) / average_output_previous)", "convergence_value = abs(average_output_previous - average_output) / abs(average_output_previous)", "abs(a-b)/abs(b)", kind="benign")
V("C03-prev-after", ["C03"], "gmm",
  "            average_output_previous = average_output\n            if input_is_dask:",
  "            if input_is_dask:", "placeholder", kind="skip")
V2("C03-prev-after-update", ["C03"], [
    dict(module="gmm", old="            average_output_previous = average_output\n            if input_is_dask:", new="            if input_is_dask:"),
    dict(module="gmm", old="            logger.debug(f'log likelihood = {average_output}')\n            if step > 1:", new="            logger.debug(f'log likelihood = {average_output}')\n            average_output_previous = average_output\n            if step > 1:"),
  ], "previous criterion copied after the update: change is always 0")
V("C03-unaveraged", ["C03", "C04"], "gmm", "average_output = float(statistics.log_likelihood / statistics.t)", "average_output = float(statistics.log_likelihood)", "stops on the total, not the average, log-likelihood")
V2("C03-criterion-first-block", ["C03", "C04"], [
    dict(module="gmm", old="    statistics = functools.reduce(operator.iadd, statistics)\n    m_step_func(", new="    first = statistics[0]\n    first_ll, first_t = (first.log_likelihood, first.t)\n    statistics = functools.reduce(operator.iadd, statistics)\n    m_step_func("),
    dict(module="gmm", old="average_output = float(statistics.log_likelihood / statistics.t)", new="average_output = float(first_ll / first_t)"),
  ], "criterion taken from the first block only: chunk-dependent stopping")
V("C03-weights-unnormalised", ["C03", "C13"], "gmm", "machine.weights = thresholded_n / statistics.t", "machine.weights = thresholded_n", "ML weights are raw counts (not on the simplex)")
V("C03-means-not-divided", ["C03"], "gmm", "machine.means = statistics.sum_px / thresholded_n[:, None]", "machine.means = statistics.sum_px / statistics.t", "means divided by the sample count instead of the responsibilities")
V("C03-variance-mean-unsquared", ["C03", "C15"], "gmm", "machine.variances = (statistics.sum_pxx - 2 * machine.means * statistics.sum_px) / thresholded_n[:, None] + np.power(machine.means, 2)", "machine.variances = (statistics.sum_pxx - 2 * machine.means * statistics.sum_px) / thresholded_n[:, None] + machine.means", "squared mean replaced by the mean in the centred second moment")
V("C03-variance-uncentred-form", ["C03"], "gmm", "machine.variances = (statistics.sum_pxx - 2 * machine.means * statistics.sum_px) / thresholded_n[:, None] + np.power(machine.means, 2)", "machine.variances = statistics.sum_pxx / thresholded_n[:, None] - np.power(machine.means, 2)", "revert of fix 2de149c: E[x^2] - mean^2 with possibly frozen means")
V("C03-variance-cross-sign", ["C03"], "gmm", "machine.variances = (statistics.sum_pxx - 2 * machine.means * statistics.sum_px) / thresholded_n[:, None] + np.power(machine.means, 2)", "machine.variances = (statistics.sum_pxx + 2 * machine.means * statistics.sum_px) / thresholded_n[:, None] + np.power(machine.means, 2)", "cross term of the centred second moment added")
V("C03-switches-swapped", ["C03"], "gmm", "update_means=machine.update_means, update_variances=machine.update_variances", "update_means=machine.update_variances, update_variances=machine.update_means", "update switches crossed in the wrapper")
V("C03-store-under-wrong-switch", ["C03"], "gmm",
  "    if update_means:\n        logger.debug('Update means.')\n        machine.means = statistics.sum_px / thresholded_n[:, None]\n    if update_variances:\n        logger.debug('Update variances.')\n        machine.variances =",
  "    if update_variances:\n        logger.debug('Update means.')\n        machine.means = statistics.sum_px / thresholded_n[:, None]\n    if update_variances:\n        logger.debug('Update variances.')\n        machine.variances =",
  "means updated under the variances switch")
V("C03-arms-different-criterion", ["C03", "C04"], "gmm", "                _, average_output = m_step(stats, self)", "                average_output, _ = m_step(stats, self)", "NumPy arm takes the machine as criterion", kind="break")
V("C03-post-loop-update", ["C03"], "gmm", "            logger.info('Reached maximum step. Training stopped without convergence.')\n        return self", "            logger.info('Reached maximum step. Training stopped without convergence.')\n        self.weights = self.weights / self.weights.sum()\n        return self", "model modified after the last M-step")
V("C03-for-range", ["C03"], "gmm", "placeholder-for-range", "", "for-range loop", kind="skip")
V("C03-logging-moved", ["C03"], "gmm", "            logger.debug(f'log likelihood = {average_output}')\n            if step > 1:", "            if step > 1:", "a log line removed", kind="benign")
V("C03-trainer-crossed", ["C03", "C05"], "gmm", "m_step_func = map_gmm_m_step if machine.trainer == 'map' else ml_gmm_m_step", "m_step_func = ml_gmm_m_step if machine.trainer == 'map' else map_gmm_m_step", "M-step functions crossed")

# ----------------------------------------------------------------------------- C06 (k-means loop + criterion)
KW = "        while self.max_iter is None or step < self.max_iter:"
V("C06-criterion-block-mean", ["C06", "C04"], "kmeans", "average_min_distance = min_distance.sum()", "average_min_distance = min_distance.mean()", "revert of fix 389211a: block mean summed over blocks and divided by N")
V("C06-criterion-weighted-late", ["C06", "C04"], "kmeans", "    average_min_distance /= n_samples\n", "    average_min_distance /= len(stats)\n", "criterion divided by the number of blocks")
V("C06-criterion-not-normalised", ["C06", "C04"], "kmeans", "    average_min_distance /= n_samples\n", "", "criterion is the total, not the mean, squared distance")
V("C06-nsamples-first-block", ["C06", "C04"], "kmeans", "        n_samples = len(X)\n        logger.debug('Transform X array to delayed list')\n        X = array_to_delayed_list(X, input_is_dask)", "        logger.debug('Transform X array to delayed list')\n        X = array_to_delayed_list(X, input_is_dask)\n        n_samples = len(X[0]) if input_is_dask else len(X)", "sample count taken from the first block after the split", may_be_undecided=True)
V("C06-cap-le", ["C06"], "kmeans", KW, "        while self.max_iter is None or step <= self.max_iter:", "one iteration more than max_iter")
V("C06-thr-lt", ["C06"], "kmeans", "convergence_value <= self.convergence_threshold", "convergence_value < self.convergence_threshold", "strict comparison")
V("C06-guard-2", ["C06"], "kmeans", "            if step > 1:\n                convergence_value = abs((distance_previous", "            if step > 2:\n                convergence_value = abs((distance_previous", "test delayed to the third pass")
V("C06-guard-dropped", ["C06"], "kmeans", "            if step > 1:\n                convergence_value = abs((distance_previous - distance) / distance_previous)\n                logger.debug(f'Convergence value = {convergence_value} and threshold is {self.convergence_threshold}')\n                if self.convergence_threshold is not None and convergence_value <= self.convergence_threshold:\n                    logger.info('Reached convergence threshold. Training stopped.')\n                    break",
  "            convergence_value = abs((distance_previous - distance) / distance_previous)\n            logger.debug(f'Convergence value = {convergence_value} and threshold is {self.convergence_threshold}')\n            if self.convergence_threshold is not None and convergence_value <= self.convergence_threshold:\n                logger.info('Reached convergence threshold. Training stopped.')\n                break",
  "no step guard: first comparison is against inf (nan <= thr is false): behaviour unchanged", kind="benign")
V("C06-no-abs", ["C06"], "kmeans", "convergence_value = abs((distance_previous - distance) / distance_previous)", "convergence_value = (distance_previous - distance) / distance_previous", "signed change")
V("C06-prev-dropped", ["C06"], "kmeans", "            distance_previous = distance\n", "", "previous criterion never updated (stays inf)")
V("C06-argmin-axis", ["C06", "C20"], "kmeans", "return np.argmin(centroids_dist, axis=0)", "return np.argmin(centroids_dist, axis=1)", "argmin over the sample axis")
V("C06-stale-centroids", ["C06"], "kmeans", "                stats = [e_step(X, means=self.centroids_)]", "                stats = [e_step(X, means=initial_centroids)]", "assignment against the initial centroids in the NumPy arm", may_be_undecided=True)
V("C06-criterion-other-source", ["C06"], "kmeans", "            distance = self.average_min_distance\n", "            distance = float(np.mean(self.centroids_))\n", "convergence tested on something that is not the criterion")
V("C06-mean-of-sums", ["C06"], "kmeans", "    means = first_order_statistics / zeroeth_order_statistics[:, None]", "    means = first_order_statistics / len(stats)", "centroid = sum / number of blocks")
V("C06-sum-spelled", ["C06", "C04"], "kmeans", "average_min_distance = min_distance.sum()", "average_min_distance = np.sum(min_distance, axis=0)", "sum spelled with np.sum", kind="benign")

# ----------------------------------------------------------------------------- C01
V("C01-logweights-dropped", ["C01"], "gmm", "    log_weighted_likelihoods = machine.log_weights[:, None] + ll", "    log_weighted_likelihoods = ll", "mixture weights dropped from the weighted log-likelihood")
V("C01-normaliser-dropped", ["C01", "C15"], "gmm", "    ll = -0.5 * (machine.g_norms[:, None] + z)", "    ll = -0.5 * z", "Gaussian normaliser dropped (density does not integrate to one)")
V("C01-normaliser-not-halved", ["C01", "C15"], "gmm", "    ll = -0.5 * (machine.g_norms[:, None] + z)", "    ll = -0.5 * z - machine.g_norms[:, None]", "normaliser not halved")
V("C01-variance-squared", ["C01", "C15"], "gmm", "temp = np.sum((data - machine.means[i]) ** 2 / machine.variances[i], axis=-1)", "temp = np.sum((data - machine.means[i]) ** 2 / machine.variances[i] ** 2, axis=-1)", "squared difference divided by the squared variance")
V("C01-variance-sqrt", ["C01", "C15"], "gmm", "temp = np.sum((data - machine.means[i]) ** 2 / machine.variances[i], axis=-1)", "temp = np.sum((data - machine.means[i]) ** 2 / np.sqrt(machine.variances[i]), axis=-1)", "squared difference divided by the standard deviation")
V("C01-log-pi", ["C01"], "gmm", "        n_log_2pi = self._variances.shape[-1] * np.log(2 * np.pi)\n        self._g_norms = n_log_2pi + np.log(self._variances).sum(axis=-1)\n\n    @property\n    def variance_thresholds", "        n_log_2pi = self._variances.shape[-1] * np.log(np.pi)\n        self._g_norms = n_log_2pi + np.log(self._variances).sum(axis=-1)\n\n    @property\n    def variance_thresholds", "log(pi) instead of log(2 pi) in the setter's normaliser")
V("C01-lazy-log-pi", ["C01"], "gmm", "            n_log_2pi = self.variances.shape[-1] * np.log(2 * np.pi)", "            n_log_2pi = self.variances.shape[-1] * np.log(2 * np.e)", "wrong constant in the lazy getter only")
V("C01-2pi-outside-log", ["C01"], "gmm", "            n_log_2pi = self.variances.shape[-1] * np.log(2 * np.pi)", "            n_log_2pi = self.variances.shape[-1] * 2 * np.pi", "2 pi outside the logarithm")
V("C01-const-hardcoded", ["C01"], "gmm", "            n_log_2pi = self.variances.shape[-1] * np.log(2 * np.pi)", "            n_log_2pi = self.variances.shape[-1] * 1.8378770664093453", "hard-coded log(2 pi)", kind="benign")
V("C01-2pi-inside-log-var", ["C01"], "gmm", SETTER_V, "        self._variances = np.maximum(self.variance_thresholds, variances)\n        self._g_norms = np.log(2 * np.pi * self._variances).sum(axis=-1)", "normaliser as sum(log(2 pi var))", kind="benign")
V("C01-naive-logsumexp", ["C01"], "gmm", "        log_likelihood = logaddexp_reduce(log_weighted_likelihoods)\n    else:", "        log_likelihood = np.log(np.sum(np.exp(log_weighted_likelihoods), axis=0))\n    else:", "exp -> sum -> log in the NumPy arm: underflows in the tails")
V("C01-maxshift-logsumexp", ["C01"], "gmm", "        log_likelihood = logaddexp_reduce(log_weighted_likelihoods)\n    else:", "        m = np.max(log_weighted_likelihoods, axis=0)\n        log_likelihood = m + np.log(np.sum(np.exp(log_weighted_likelihoods - m[None, :]), axis=0))\n    else:", "max-shifted log-sum-exp", kind="benign")
V("C01-scipy-logsumexp", ["C01"], "gmm", "        log_likelihood = logaddexp_reduce(log_weighted_likelihoods)\n    else:", "        log_likelihood = scipy.special.logsumexp(log_weighted_likelihoods, axis=0)\n    else:", "scipy logsumexp", kind="benign", may_be_undecided=True)
V("C01-dask-sum", ["C01", "C04"], "gmm", "chunk=logaddexp_reduce, aggregate=logaddexp_reduce", "chunk=logaddexp_reduce, aggregate=np.sum", "Dask arm aggregates the per-chunk log-sum-exps with a plain sum")
V("C01-reduce-axis1", ["C01"], "gmm", "    return np.logaddexp.reduce(array, axis=axis, keepdims=keepdims, initial=-np.inf)", "    return np.logaddexp.reduce(array, axis=1, keepdims=keepdims, initial=-np.inf)", "log-sum-exp over the sample axis")
V("C01-broadcast-lost", ["C01"], "gmm", "    ll = -0.5 * (machine.g_norms[:, None] + z)", "    ll = -0.5 * (machine.g_norms + z)", "normaliser broadcast along the sample axis: (C,)+(C,N)")
V("C01-atleast2d-dropped", ["C01"], "gmm", "    data = np.atleast_2d(data)\n    log_weighted_likelihoods = log_weighted_likelihood(data=data, machine=machine)\n    ll_reduced", "    log_weighted_likelihoods = log_weighted_likelihood(data=data, machine=machine)\n    ll_reduced", "a single vector is no longer promoted to a batch of one", kind="benign")  # confirmed on the real code: vstack of the per-component scalars is a (C, 1) column, the result is identical
V("C01-vectorised", ["C01", "C15"], "gmm",
  "    z = []\n    for i in range(n_gaussians):\n        temp = np.sum((data - machine.means[i]) ** 2 / machine.variances[i], axis=-1)\n        z.append(temp)\n    z = np.vstack(z)",
  "    z = np.sum((data[None, :, :] - machine.means[:, None, :]) ** 2 / machine.variances[:, None, :], axis=-1)",
  "quadratic form vectorised by broadcasting", kind="benign")
V("C01-renamed", ["C01"], "gmm", "log_weighted_likelihoods = machine.log_weights[:, None] + ll\n    return log_weighted_likelihoods", "lwl = ll + machine.log_weights[:, None]\n    return lwl", "operands swapped, local renamed", kind="benign")

# ----------------------------------------------------------------------------- C02
IADD_PXX = "        self.sum_px += other.sum_px\n        self.sum_pxx += other.sum_pxx\n        return self"
V("C02-iadd-field-dropped", ["C02", "C04"], "gmm", IADD_PXX, "        self.sum_px += other.sum_px\n        return self", "+= forgets the second-order statistics")
V("C02-iadd-assign", ["C02", "C04"], "gmm", "        self.n += other.n\n        self.sum_px += other.sum_px\n        self.sum_pxx", "        self.n = other.n\n        self.sum_px += other.sum_px\n        self.sum_pxx", "+= overwrites the counts instead of adding")
V("C02-iadd-explicit", ["C02"], "gmm", "        self.t += other.t\n        self.n += other.n", "        self.t = self.t + other.t\n        self.n += other.n", "one field accumulated with x = x + y", kind="benign")
V("C02-add-field-copied", ["C02"], "gmm", "        new_stats.n = self.n + other.n", "        new_stats.n = self.n", "+ copies the left operand's counts")
V("C02-add-returns-self", ["C02", "C19"], "gmm",
  "        new_stats = GMMStats(self.n_gaussians, self.n_features)\n        new_stats.log_likelihood = self.log_likelihood + other.log_likelihood\n        new_stats.t = self.t + other.t\n        new_stats.n = self.n + other.n\n        new_stats.sum_px = self.sum_px + other.sum_px\n        new_stats.sum_pxx = self.sum_pxx + other.sum_pxx\n        return new_stats",
  "        self += other\n        return self", "+ implemented as += on the left operand")
V("C02-add-deepcopy", ["C02"], "gmm",
  "        new_stats = GMMStats(self.n_gaussians, self.n_features)\n        new_stats.log_likelihood = self.log_likelihood + other.log_likelihood\n        new_stats.t = self.t + other.t\n        new_stats.n = self.n + other.n\n        new_stats.sum_px = self.sum_px + other.sum_px\n        new_stats.sum_pxx = self.sum_pxx + other.sum_pxx\n        return new_stats",
  "        new_stats = copy.deepcopy(self)\n        new_stats.log_likelihood += other.log_likelihood\n        new_stats.t += other.t\n        new_stats.n += other.n\n        new_stats.sum_px += other.sum_px\n        new_stats.sum_pxx += other.sum_pxx\n        return new_stats",
  "+ as deep copy then +=", kind="benign")
V("C02-guard-one-field", ["C02"], "gmm", "    def __iadd__(self, other):\n        if self.n_gaussians != other.n_gaussians or self.n_features != other.n_features:", "    def __iadd__(self, other):\n        if self.n_gaussians != other.n_gaussians:", "shape test weakened to one field")
V("C02-guard-and", ["C02"], "gmm", "    def __add__(self, other):\n        if self.n_gaussians != other.n_gaussians or self.n_features != other.n_features:", "    def __add__(self, other):\n        if self.n_gaussians != other.n_gaussians and self.n_features != other.n_features:", "shape test refuses only when both fields differ")
V("C02-guard-after", ["C02"], "gmm",
  "        if self.n_gaussians != other.n_gaussians or self.n_features != other.n_features:\n            raise ValueError('Statistics could not be added together (shape mismatch)')\n        self.log_likelihood += other.log_likelihood\n        self.t += other.t",
  "        self.log_likelihood += other.log_likelihood\n        self.t += other.t\n        if self.n_gaussians != other.n_gaussians or self.n_features != other.n_features:\n            raise ValueError('Statistics could not be added together (shape mismatch)')",
  "shape test after two fields were already modified")
V("C02-guard-shape-prop", ["C02"], "gmm", "    def __add__(self, other):\n        if self.n_gaussians != other.n_gaussians or self.n_features != other.n_features:", "    def __add__(self, other):\n        if self.shape != other.shape:", "shape test through the shape property", kind="benign")
V("C02-ll-mean", ["C02", "C03", "C04"], "gmm", "statistics.log_likelihood = log_likelihood.sum()", "statistics.log_likelihood = log_likelihood.mean()", "block-averaged log-likelihood stored as the total")
V("C02-n-mean", ["C02", "C04"], "gmm", "statistics.n = responsibility.sum(axis=-1)", "statistics.n = responsibility.mean(axis=-1)", "averaged responsibilities stored as counts")
V("C02-normaliser-max", ["C02"], "gmm", "responsibility = np.exp(log_weighted_likelihoods - log_likelihood[None, :])", "responsibility = np.exp(log_weighted_likelihoods - log_weighted_likelihoods.max(axis=0)[None, :])", "responsibilities normalised by the max instead of the log-sum-exp")
V("C02-pxx-weighted-square", ["C02", "C15"], "gmm", "sum_pxx.append(np.sum(px * data, axis=0))", "sum_pxx.append(np.sum(px * data * data, axis=0))", "third-order moment stored as second-order statistic")
V("C02-px-over-features", ["C02"], "gmm", "sum_px.append(np.sum(px, axis=0))", "sum_px.append(np.sum(px, axis=-1))", "first-order statistic summed over the feature axis")
V("C02-eq-field-dropped", ["C02", "C18"], "gmm", " and np.array_equal(self.sum_pxx, other.sum_pxx)", "", "equality ignores the second-order statistics")
V("C02-fold-skips-first", ["C02", "C04"], "gmm", "statistics = functools.reduce(operator.iadd, statistics)", "statistics = functools.reduce(operator.iadd, statistics[1:])", "first block's statistics left out of the M-step")
V("C02-t-from-n", ["C02"], "gmm", "statistics.t = data.shape[0]", "statistics.t = len(data)", "sample count via len()", kind="benign")

# ----------------------------------------------------------------------------- C13
V("C13-clip-removed", ["C13"], "gmm", "thresholded_n = np.clip(statistics.n, mean_var_update_threshold, None)", "thresholded_n = statistics.n", "count floor removed from the ML M-step: 0/0 for a component without responsibility")
V("C13-clip-upper-only", ["C13"], "gmm", "thresholded_n = np.clip(statistics.n, mean_var_update_threshold, None)", "thresholded_n = np.clip(statistics.n, None, mean_var_update_threshold)", "clip bounds swapped: counts capped, not floored")
V("C13-clip-as-maximum", ["C13", "C03"], "gmm", "thresholded_n = np.clip(statistics.n, mean_var_update_threshold, None)", "thresholded_n = np.maximum(statistics.n, mean_var_update_threshold)", "floor spelled with np.maximum", kind="benign")
V("C13-means-raw-n", ["C13"], "gmm", "machine.means = statistics.sum_px / thresholded_n[:, None]", "machine.means = statistics.sum_px / statistics.n[:, None]", "ML means divide by the raw counts")
V("C13-map-means-raw-n", ["C13", "C05"], "gmm", "statistics.sum_px / n_threshold[:, None]", "statistics.sum_px / statistics.n[:, None]", "MAP means divide by the raw counts (NaN * 0 survives the blend)", kind="benign")
V("C13-map-where-removed", ["C13", "C05"], "gmm", "machine.variances = np.where(statistics.n[:, None] < mean_var_update_threshold, prior_norm_variances, new_variances)", "machine.variances = new_variances", "no-evidence fallback of the MAP variances removed: alpha*sum_pxx/n is 0/0")
V("C13-relevance-dropped", ["C13", "C05"], "gmm", "alpha = statistics.n / (statistics.n + relevance_factor)", "alpha = statistics.n / statistics.n", "alpha = n/n: 0/0 for an empty component")
V("C13-sigma-clamp-before", ["C13", "C10"], "ivector",
  "        machine.sigma = (stats.snormij - fnorm_sigma_wij_tt) / stats.nij[:, None]\n        machine.sigma[machine.sigma < machine.variance_floor] = machine.variance_floor",
  "        machine.sigma[machine.sigma < machine.variance_floor] = machine.variance_floor\n        machine.sigma = (stats.snormij - fnorm_sigma_wij_tt) / stats.nij[:, None]",
  "covariance clamp applied before the update")
V("C13-sigma-clamp-removed", ["C13", "C10"], "ivector", "        machine.sigma[machine.sigma < machine.variance_floor] = machine.variance_floor\n", "", "covariance clamp removed")
V("C13-sigma-clamp-maximum", ["C13", "C10"], "ivector",
  "        machine.sigma = (stats.snormij - fnorm_sigma_wij_tt) / stats.nij[:, None]\n        machine.sigma[machine.sigma < machine.variance_floor] = machine.variance_floor",
  "        machine.sigma = np.maximum((stats.snormij - fnorm_sigma_wij_tt) / stats.nij[:, None], machine.variance_floor)",
  "clamp spelled with np.maximum", kind="benign")
V("C13-zero-matrix-guard-removed", ["C13", "C10"], "ivector", "        X[mask] = [np.linalg.solve(A[c], B[c]) for c in range(len(mask)) if A[c].any()]", "        X[mask] = [np.linalg.solve(A[c], B[c]) for c in range(len(mask))]", "zero-matrix filter removed from the per-component solve")
V("C13-map-weights-not-renormalised", ["C13", "C05"], "gmm", "        gamma = machine.weights.sum()\n        machine.weights /= gamma\n", "", "adapted weights not renormalised")
V("C13-new-division-by-count", ["C13"], "gmm", "        machine.weights = thresholded_n / statistics.t", "        machine.weights = thresholded_n / statistics.t\n        machine.weights = machine.weights / (statistics.n / statistics.n.sum())* (statistics.n / statistics.n.sum())", "a fifth unguarded division by a count")

# ----------------------------------------------------------------------------- C05
V("C05-alpha-n-times-r", ["C05"], "gmm", "alpha = statistics.n / (statistics.n + relevance_factor)", "alpha = statistics.n / (statistics.n * relevance_factor)", "alpha = n/(n*r)")
V("C05-alpha-inverted", ["C05"], "gmm", "alpha = statistics.n / (statistics.n + relevance_factor)", "alpha = relevance_factor / (statistics.n + relevance_factor)", "alpha and 1-alpha exchanged")
V("C05-mean-not-divided", ["C05"], "gmm", "np.multiply(alpha[:, None], statistics.sum_px / n_threshold[:, None])", "np.multiply(alpha[:, None], statistics.sum_px)", "data term of the mean blend not divided by the counts")
V("C05-blend-swapped", ["C05"], "gmm", "new_means = np.multiply(alpha[:, None], statistics.sum_px / n_threshold[:, None]) + np.multiply(1 - alpha[:, None], machine.ubm.means)", "new_means = np.multiply(1 - alpha[:, None], statistics.sum_px / n_threshold[:, None]) + np.multiply(alpha[:, None], machine.ubm.means)", "alpha on the prior, 1-alpha on the data")
V("C05-blend-operator-form", ["C05"], "gmm", "new_means = np.multiply(alpha[:, None], statistics.sum_px / n_threshold[:, None]) + np.multiply(1 - alpha[:, None], machine.ubm.means)", "new_means = alpha[:, None] * (statistics.sum_px / n_threshold[:, None]) + machine.ubm.means - alpha[:, None] * machine.ubm.means", "blend written with operators and distributed", kind="benign")
V("C05-weights-prior-unweighted", ["C05"], "gmm", "machine.weights = alpha * ml_weights + (1 - alpha) * machine.ubm.weights", "machine.weights = alpha * ml_weights + machine.ubm.weights", "prior weights not weighted by 1-alpha")
V("C05-variance-mean-cubed", ["C05", "C15"], "gmm", "+ (1 - alpha[:, None]) * (machine.ubm.variances + machine.ubm.means) - np.power(machine.means, 2)", "+ (1 - alpha[:, None]) * (machine.ubm.variances + machine.ubm.means ** 3) - np.power(machine.means, 2)", "a *different* dimension error at the known-finding site")
V("C05-variance-mean2-weighted", ["C05"], "gmm", "+ (1 - alpha[:, None]) * (machine.ubm.variances + machine.ubm.means) - np.power(machine.means, 2)", "+ (1 - alpha[:, None]) * (machine.ubm.variances + machine.ubm.means - np.power(machine.means, 2))", "adapted mean^2 inside the (1-alpha) bracket")
V("C05-means-fallback-removed", ["C05"], "gmm", "machine.means = np.where(statistics.n[:, None] < mean_var_update_threshold, machine.ubm.means, new_means)", "machine.means = new_means", "no-evidence fallback of the means removed", kind="break")
V("C05-fallback-to-data", ["C05"], "gmm", "machine.means = np.where(statistics.n[:, None] < mean_var_update_threshold, machine.ubm.means, new_means)", "machine.means = np.where(statistics.n[:, None] < mean_var_update_threshold, statistics.sum_px, new_means)", "no-evidence fallback is not the prior mean")
V("C05-prior-aliased", ["C05", "C19"], "gmm", "            self.means = copy.deepcopy(self.ubm.means)\n            self.variance_thresholds = copy.deepcopy(self.ubm.variance_thresholds)\n            self.variances = copy.deepcopy(self.ubm.variances)\n            self.weights = copy.deepcopy(self.ubm.weights)\n        else:\n            self.weights = np.full", "            self.means = self.ubm.means\n            self.variance_thresholds = copy.deepcopy(self.ubm.variance_thresholds)\n            self.variances = copy.deepcopy(self.ubm.variances)\n            self.weights = copy.deepcopy(self.ubm.weights)\n        else:\n            self.weights = np.full", "constructor aliases the prior's means")
V("C05-prior-crossed", ["C05"], "gmm", "            self.variances = copy.deepcopy(self.ubm.variances)\n            self.weights = copy.deepcopy(self.ubm.weights)\n        else:\n            logger.debug", "            self.variances = copy.deepcopy(self.ubm.variance_thresholds)\n            self.weights = copy.deepcopy(self.ubm.weights)\n        else:\n            logger.debug", "variances initialised from the prior's floors")
V("C05-floors-after-variances", ["C05"], "gmm", "            self.variance_thresholds = copy.deepcopy(self.ubm.variance_thresholds)\n            self.variances = copy.deepcopy(self.ubm.variances)\n            self.weights = copy.deepcopy(self.ubm.weights)\n        else:\n            logger.debug", "            self.variances = copy.deepcopy(self.ubm.variances)\n            self.variance_thresholds = copy.deepcopy(self.ubm.variance_thresholds)\n            self.weights = copy.deepcopy(self.ubm.weights)\n        else:\n            logger.debug", "revert of fix 633f4cd (initialize_gaussians): variances before floors")
V("C05-prior-copy-method", ["C05", "C19"], "gmm", "            self.means = copy.deepcopy(self.ubm.means)\n            self.variance_thresholds = copy.deepcopy(self.ubm.variance_thresholds)\n            self.variances = copy.deepcopy(self.ubm.variances)\n            self.weights = copy.deepcopy(self.ubm.weights)\n        else:\n            self.weights = np.full", "            self.means = self.ubm.means.copy()\n            self.variance_thresholds = copy.deepcopy(self.ubm.variance_thresholds)\n            self.variances = copy.deepcopy(self.ubm.variances)\n            self.weights = copy.deepcopy(self.ubm.weights)\n        else:\n            self.weights = np.full", ".copy() instead of deepcopy", kind="benign")

# ----------------------------------------------------------------------------- C20
V("C20-unpack-swapped", ["C20", "C13"], "gmm", "            self.variances, self.weights = kmeans_machine.get_variances_and_weights_for_each_cluster(data)", "            self.weights, self.variances = kmeans_machine.get_variances_and_weights_for_each_cluster(data)", "variances and weights unpacked in the wrong order")
V("C20-return-swapped", ["C20"], "kmeans", "    return (variances, weights)\n\nclass KMeansMachine", "    return (weights, variances)\n\nclass KMeansMachine", "callee returns (weights, variances)")
V("C20-weights-by-clusters", ["C20", "C13"], "kmeans", "weights = weights_count / weights_count.sum()", "weights = weights_count / len(weights_count)", "weights = count / number of clusters")
V("C20-variance-mean-unsquared", ["C20", "C15"], "kmeans", "variances = variances_sum / weights_count[:, None] - means ** 2", "variances = variances_sum / weights_count[:, None] - means", "mean subtracted unsquared")
V("C20-variance-plus", ["C20"], "kmeans", "variances = variances_sum / weights_count[:, None] - means ** 2", "variances = variances_sum / weights_count[:, None] + means ** 2", "squared mean added")
V("C20-dask-distance-unsquared", ["C20", "C15", "C04"], "kmeans", "distances.append(np.sum((means[i] - x) ** 2, axis=-1))", "distances.append(np.sqrt(np.sum((means[i] - x) ** 2, axis=-1)))", "Dask arm returns Euclidean, SciPy arm squared Euclidean distances")
V("C20-cdist-euclidean", ["C20", "C15", "C04"], "kmeans", "return scipy.spatial.distance.cdist(means, x, metric='sqeuclidean')", "return scipy.spatial.distance.cdist(means, x, metric='euclidean')", "SciPy arm returns unsquared distances")
V("C20-cdist-transposed", ["C20", "C04"], "kmeans", "return scipy.spatial.distance.cdist(means, x, metric='sqeuclidean')", "return scipy.spatial.distance.cdist(x, means, metric='sqeuclidean')", "SciPy arm returns (samples, clusters)")
V("C20-dask-sum-axis0", ["C20", "C04"], "kmeans", "distances.append(np.sum((means[i] - x) ** 2, axis=-1))", "distances.append(np.sum((means[i] - x) ** 2, axis=0))", "Dask arm sums over the samples")
V("C20-means-aliased", ["C20", "C19"], "gmm", "self.means = copy.deepcopy(kmeans_machine.centroids_)", "self.means = kmeans_machine.centroids_", "GMM means alias the k-means centroids")
V("C20-sq-partial-mean", ["C20", "C04"], "kmeans", "variances_sum[i] = np.sum(np.square(data[closest_centroid_indices == i], dtype=float), axis=0)", "variances_sum[i] = np.mean(np.square(data[closest_centroid_indices == i], dtype=float), axis=0)", "per-block mean of squares summed over blocks")
V("C20-fold-first-block", ["C20", "C04"], "kmeans", "    means_sum = [s[1] for s in stats]", "    means_sum = [s[1] for s in stats[:1]]", "first-order sums of the first block only")
V("C20-other-data", ["C20"], "gmm", "self.variances, self.weights = kmeans_machine.get_variances_and_weights_for_each_cluster(data)", "self.variances, self.weights = kmeans_machine.get_variances_and_weights_for_each_cluster(data[:len(data) // 2])", "cluster statistics from half of the data")
V("C20-vectorised-distance", ["C20"], "kmeans", "        distances = []\n        for i in range(means.shape[0]):\n            distances.append(np.sum((means[i] - x) ** 2, axis=-1))\n        return da.vstack(distances)", "        return da.sum((means[:, None, :] - x[None, :, :]) ** 2, axis=-1)", "Dask arm vectorised by broadcasting", kind="benign")

# ----------------------------------------------------------------------------- C10
V("C10-fnorm-plus", ["C10"], "ivector", "    fnorm = stats.sum_px - stats.n[:, None] * ubm_means", "    fnorm = stats.sum_px + stats.n[:, None] * ubm_means", "N m added in the projection's linear term")
V("C10-estep-fnorm-plus", ["C10"], "ivector", "        Fnorm = Fij - Nij[:, None] * machine.ubm.means", "        Fnorm = Fij + Nij[:, None] * machine.ubm.means", "N m added in the E-step's Fnorm")
V("C10-fnorm-unweighted", ["C10"], "ivector", "    fnorm = stats.sum_px - stats.n[:, None] * ubm_means", "    fnorm = stats.sum_px - ubm_means", "UBM mean not weighted by the counts", kind="break")
V("C10-snorm-cross-plus", ["C10"], "ivector", "Snorm = Sij - 2 * Fij * machine.ubm.means + Nij[:, None] * machine.ubm.means * machine.ubm.means", "Snorm = Sij + 2 * Fij * machine.ubm.means + Nij[:, None] * machine.ubm.means * machine.ubm.means", "cross term of Snorm added")
V("C10-sigma-squared", ["C10", "C15"], "ivector", "Tct_sigmacInv = T.transpose(0, 2, 1) / sigma[:, None, :]", "Tct_sigmacInv = T.transpose(0, 2, 1) / sigma[:, None, :] ** 2", "T' divided by sigma^2")
V("C10-sigma-multiplied", ["C10", "C15"], "ivector", "Tct_sigmacInv = T.transpose(0, 2, 1) / sigma[:, None, :]", "Tct_sigmacInv = T.transpose(0, 2, 1) * sigma[:, None, :]", "T' multiplied by sigma")
V("C10-project-ubm-variances", ["C10"], "ivector", "return np.linalg.solve(compute_id_tt_sigma_inv_t(stats, self.T, self.sigma), compute_tt_sigma_inv_fnorm(self.ubm.means, stats, self.T, self.sigma))", "return np.linalg.solve(compute_id_tt_sigma_inv_t(stats, self.T, self.ubm.variances), compute_tt_sigma_inv_fnorm(self.ubm.means, stats, self.T, self.sigma))", "projection uses the UBM variances instead of the trained sigma in the precision")
V("C10-prior-dropped", ["C10"], "ivector", "output = np.eye(dim_t, dim_t) + np.einsum('c,ctu->tu', stats.n, tct_sigmac_inv_tc)", "output = np.einsum('c,ctu->tu', stats.n, tct_sigmac_inv_tc)", "identity (prior precision) dropped: ML estimate instead of the posterior mean")
V("C10-precision-unweighted", ["C10"], "ivector", "output = np.eye(dim_t, dim_t) + np.einsum('c,ctu->tu', stats.n, tct_sigmac_inv_tc)", "output = np.eye(dim_t, dim_t) + tct_sigmac_inv_tc.sum(axis=0)", "precision not weighted by the counts")
V("C10-second-moment-no-cov", ["C10"], "ivector", "sigma_w_ij2 = I_TtSigmaInvNT_inv + np.outer(sigma_w_ij, sigma_w_ij)", "sigma_w_ij2 = np.outer(sigma_w_ij, sigma_w_ij)", "posterior covariance dropped from E[ww']")
V("C10-project-not-solved", ["C10"], "ivector", "return np.linalg.solve(compute_id_tt_sigma_inv_t(stats, self.T, self.sigma), compute_tt_sigma_inv_fnorm(self.ubm.means, stats, self.T, self.sigma))", "return compute_tt_sigma_inv_fnorm(self.ubm.means, stats, self.T, self.sigma)", "projection returns the linear term without solving")
V("C10-project-inv-form", ["C10"], "ivector", "return np.linalg.solve(compute_id_tt_sigma_inv_t(stats, self.T, self.sigma), compute_tt_sigma_inv_fnorm(self.ubm.means, stats, self.T, self.sigma))", "return np.linalg.inv(compute_id_tt_sigma_inv_t(stats, self.T, self.sigma)) @ compute_tt_sigma_inv_fnorm(self.ubm.means, stats, self.T, self.sigma)", "inverse times linear term", kind="benign")
V("C10-accumulate-fnorm-transposed", ["C10"], "ivector", "np.matmul(Fnorm[:, :, None], sigma_w_ij[None, :])", "np.matmul(Fnorm[:, :, None], np.ones_like(sigma_w_ij)[None, :])", "Fnorm E[w]' accumulator loses E[w]")

# ----------------------------------------------------------------------------- C19
V("C19-init-uncopied", ["C19"], "kmeans", "        init = self.init_method\n        if isinstance(init, np.ndarray):\n            init = init.copy()\n", "        init = self.init_method\n", "revert of fix ef2bc80: centroids alias the caller's initial-centroid array")
V("C19-sigma-aliases-ubm", ["C19"], "ivector", "self.sigma = copy.deepcopy(self.ubm.variances)", "self.sigma = self.ubm.variances", "i-vector covariances alias the UBM's variance array (and are then clamped in place)")
V("C19-residual-inplace", ["C07", "C09"], "factor_analysis", "fn_y_i = f_acc_i.flatten() - tmp_CD * (m + D * latent_z_i)", "fn_y_i = f_acc_i.ravel()\n        fn_y_i -= tmp_CD * (m + D * latent_z_i)", "residual computed in place on a view of the accumulated statistics", may_be_undecided=False)
V("C19-residual-copy-ravel", ["C19"], "factor_analysis", "fn_y_i = f_acc_i.flatten() - tmp_CD * (m + D * latent_z_i)", "fn_y_i = f_acc_i.copy().ravel()\n        fn_y_i -= tmp_CD * (m + D * latent_z_i)", "in place on a private copy", kind="benign")
V("C19-ubm-trained-unguarded", ["C19"], "factor_analysis", "        if self.ubm._means is None:\n            logger.info('UBM means are None, training the UBM.')\n            self.ubm.fit(X)", "        if self.ubm._means is None or self.ubm_kwargs is not None:\n            logger.info('UBM means are None, training the UBM.')\n            self.ubm.fit(X)", "a trained UBM passed by the caller is retrained")
V("C19-ubm-always-trained", ["C19"], "factor_analysis", "        if self.ubm._means is None:\n            logger.info('UBM means are None, training the UBM.')\n            self.ubm.fit(X)", "        logger.info('training the UBM.')\n        self.ubm.fit(X)", "the caller's UBM is always retrained")
V("C19-data-centred-inplace", ["C19"], "whitening", "        mu = numerical_module.mean(X, axis=0)", "        mu = numerical_module.mean(X, axis=0)\n        X -= mu", "training data centred in place")
V("C19-stats-normalised-inplace", ["C19"], "linear_scoring", "    sum_px = np.array([stat.sum_px for stat in test_stats])", "    for stat in test_stats:\n        stat.sum_px /= max(stat.t, 1)\n    sum_px = np.array([stat.sum_px for stat in test_stats])", "probe statistics normalised in place")
V("C19-labels-sorted-inplace", ["C19"], "wccn", "        possible_labels = set(y)", "        y.sort()\n        possible_labels = set(y)", "label sequence sorted in place")
V("C19-centroids-from-data-view", ["C19"], "kmeans", "self.centroids_ = k_init(X=data, n_clusters=self.n_clusters, init=init,", "self.centroids_ = data[:self.n_clusters] if False else k_init(X=data, n_clusters=self.n_clusters, init=init,", "contrived", kind="skip")
V("C19-wccn-subtract-alias", ["C19"], "whitening", "        self.input_subtract = mu", "        self.input_subtract = X[0]", "stored centre is a view of the first training row")
V("C19-map-means-alias-stats", ["C19"], "gmm", "        machine.means = statistics.sum_px / thresholded_n[:, None]", "        machine.means = statistics.sum_px\n        machine.means /= thresholded_n[:, None]", "contrived: transiently stores U*S into the means", kind="skip")
V("C19-jfa-latent-shared", ["C19"], "factor_analysis", "            latent_z = self.update_z(X=X, y=y, latent_x=latent_x, latent_y=latent_y, latent_z=latent_z, n_acc=n_acc, f_acc=f_acc)\n        return (latent_y[0], latent_z[0])", "            latent_z = self.update_z(X=X, y=y, latent_x=latent_x, latent_y=latent_y, latent_z=latent_z, n_acc=n_acc, f_acc=f_acc)\n        return (latent_y[0], latent_z[0].copy())", "returned offset copied", kind="benign")

# ----------------------------------------------------------------------------- C04
V("C04-rechunk-removed", ["C04"], "utils", "        if data.ndim > 1:\n            data = data.rechunk({1: -1})\n", "", "revert of fix 4d50b1c: feature-axis chunks are flattened into the block list")
V("C04-rechunk-rows", ["C04"], "utils", "data = data.rechunk({1: -1})", "data = data.rechunk({0: -1})", "rechunks the sample axis instead of the feature axis")
V("C04-rechunk-inline", ["C04"], "utils", "        if data.ndim > 1:\n            data = data.rechunk({1: -1})\n        data = data.to_delayed().ravel().tolist()", "        data = (data.rechunk({1: -1}) if data.ndim > 1 else data).to_delayed().ravel().tolist()", "rechunk inlined", kind="benign")
V("C04-copyback-variances-dropped", ["C04"], "gmm", "                for attr in ['weights', 'means', 'variances']:", "                for attr in ['weights', 'means']:", "trained variances never copied back from the worker's machine")
V("C04-copyback-explicit", ["C04"], "gmm", "                for attr in ['weights', 'means', 'variances']:\n                    setattr(self, attr, getattr(new_machine, attr))", "                self.weights = new_machine.weights\n                self.means = new_machine.means\n                self.variances = new_machine.variances", "copy-back spelled as three assignments", kind="benign", may_be_undecided=True)
V("C04-copyback-wrong-source", ["C04"], "gmm", "                    setattr(self, attr, getattr(new_machine, attr))", "                    setattr(self, attr, getattr(self, attr))", "copy-back reads the local machine instead of the computed one")
V("C04-estep-updates-machine", ["C04", "C19"], "gmm", "    statistics.sum_px = np.vstack(sum_px)\n    statistics.sum_pxx = np.vstack(sum_pxx)\n    return statistics", "    statistics.sum_px = np.vstack(sum_px)\n    statistics.sum_pxx = np.vstack(sum_pxx)\n    machine.means = statistics.sum_px / np.maximum(statistics.n, 1e-10)[:, None]\n    return statistics", "a block task updates the shared machine")
V("C04-isv-U-not-stored", ["C04", "C12"], "factor_analysis", "                delayed_em_step = dask.delayed(self.m_step)(e_step_output)\n                self._U = dask.compute(delayed_em_step)[0]", "                delayed_em_step = dask.delayed(self.m_step)(e_step_output)\n                dask.compute(delayed_em_step)", "computed U never stored back in the Dask arm of ISV.fit")
V("C04-numpy-arm-other-kernel", ["C04"], "kmeans", "                stats = [e_step(X, means=self.centroids_)]\n                self.centroids_, self.average_min_distance = m_step(stats, n_samples)", "                stats = accumulate_indices_means_vars(X, self.centroids_)\n                self.centroids_, self.average_min_distance = m_step([e_step(X, means=self.centroids_)], n_samples)", "an extra kernel in the in-memory arm only")
V("C04-dask-arm-stale-arg", ["C04", "C06"], "kmeans", "                stats = [dask.delayed(e_step)(xx, means=self.centroids_) for xx in X]", "                stats = [dask.delayed(e_step)(xx, means=initial_centroids) for xx in X]", "Dask arm assigns against other centroids than the in-memory arm", may_be_undecided=True)
V("C04-dask-tasks-filtered", ["C04"], "gmm", "                stats = [dask.delayed(e_step)(data=xx, machine=self) for xx in X]", "                stats = [dask.delayed(e_step)(data=xx, machine=self) for xx in X[:-1]]", "last block never processed")
V("C04-dask-partial-reduced", ["C04"], "kmeans", "self.centroids_, self.average_min_distance = dask.compute(dask.delayed(m_step)(stats, n_samples))[0]", "self.centroids_, self.average_min_distance = dask.compute(dask.delayed(m_step)(stats[1:], n_samples))[0]", "first block's statistics dropped before the M-step")
V("C04-init-arms-crossed", ["C04", "C12"], "factor_analysis", "            f_acc = [dask.delayed(self._sum_f_statistics)(xx, yy, n_classes) for xx, yy in zip(ubm_projected_X, y)]", "            f_acc = [dask.delayed(self._sum_n_statistics)(xx, yy, n_classes) for xx, yy in zip(ubm_projected_X, y)]", "Dask arm accumulates zeroth-order statistics where first-order are needed")
V("C04-update-y-role-crossed", ["C04", "C12", "C09"], "factor_analysis", "latent_x_i=latent_x[label], latent_z_i=latent_z[label]) for label, X_i in enumerate(X)]", "latent_x_i=latent_x[label], latent_z_i=latent_z[0]) for label, X_i in enumerate(X)]", "Dask arm uses class 0's offset for every class", may_be_undecided=True)
V("C04-nsamples-after-split", ["C04", "C06"], "kmeans", "        n_samples = len(X)\n        logger.debug('Transform X array to delayed list')\n        X = array_to_delayed_list(X, input_is_dask)", "        logger.debug('Transform X array to delayed list')\n        X = array_to_delayed_list(X, input_is_dask)\n        n_samples = len(X)", "sample count = number of blocks in the Dask arm")

# ----------------------------------------------------------------------------- C12
TREE = "stats = [dask.delayed(operator.add)(stats[i], stats[length // 2 + i]) for i in range(length // 2)]"
V("C12-tree-off-by-one", ["C12"], "ivector", TREE, "stats = [dask.delayed(operator.add)(stats[i], stats[length // 2 + i + 1]) for i in range(length // 2)]", "pairwise tree pairs i with h+i+1")
V("C12-tree-carry-dropped", ["C12"], "ivector", "                    if length % 2 != 0:\n                        stats.append(last)\n", "", "odd carry dropped: with an odd number of partitions one is lost")
V("C12-tree-carry-even", ["C12"], "ivector", "                    if length % 2 != 0:\n                        stats.append(last)", "                    if length % 2 == 0:\n                        stats.append(last)", "carry appended for even lengths (double counting)")
V("C12-tree-carry-late", ["C12"], "ivector", "                    last = stats[-1]\n                    " + TREE, "                    " + TREE + "\n                    last = stats[-1]", "carry taken after the list was rebound")
V("C12-tree-iadd", ["C12"], "ivector", TREE, "stats = [dask.delayed(operator.iadd)(stats[i], stats[length // 2 + i]) for i in range(length // 2)]", "pairs combined in place")
V("C12-tree-h-local", ["C12"], "ivector", "                    last = stats[-1]\n                    " + TREE, "                    last = stats[-1]\n                    h = length // 2\n                    stats = [dask.delayed(operator.add)(stats[i], stats[h + i]) for i in range(h)]", "half length bound to a local", kind="benign")
V("C12-mstep-slice", ["C12", "C04"], "factor_analysis", "delayed_em_step = dask.delayed(self.m_step_u)(e_step_output)", "delayed_em_step = dask.delayed(self.m_step_u)(e_step_output[:-1])", "last class's accumulators dropped before the U M-step")
V("C12-D-not-stored", ["C12", "C04", "C09"], "factor_analysis", "                delayed_em_step = dask.delayed(self.m_step_d)(e_step_output)\n                self._D = dask.compute(delayed_em_step)[0]", "                delayed_em_step = dask.delayed(self.m_step_d)(e_step_output)\n                dask.compute(delayed_em_step)", "computed D never stored")
V("C12-V-stored-as-U", ["C12", "C04", "C09"], "factor_analysis", "                delayed_em_step = dask.delayed(self.m_step_v)(e_step_output)\n                self._V = dask.compute(delayed_em_step)[0]", "                delayed_em_step = dask.delayed(self.m_step_v)(e_step_output)\n                self._U = dask.compute(delayed_em_step)[0]", "computed V stored into U")
V("C12-ivector-copyback-sigma", ["C12"], "ivector", "                for attr in ['T', 'sigma']:", "                for attr in ['T']:", "sigma never copied back from the computed machine")
V("C12-ivector-estep-writes", ["C12"], "ivector", "    return stats\n\ndef m_step", "    machine.T = machine.T * 1.0\n    return stats\n\ndef m_step", "the per-partition E-step task writes the machine")
V("C12-stats-add-field", ["C12", "C02"], "ivector", "        result.nij = self.nij + other.nij\n", "", "IVectorStats.__add__ forgets the counts")
V("C12-route-counter-late", ["C12"], "factor_analysis", "                class_id = y[i]\n                X[class_id].append(delayed_stat)\n                i += 1", "                i += 1\n                class_id = y[i - 1 if i < len(y) else 0]\n                X[class_id].append(delayed_stat)", "counter juggling", kind="skip")
V("C12-route-skip", ["C12"], "factor_analysis", "                class_id = y[i]\n                X[class_id].append(delayed_stat)\n                i += 1", "                class_id = y[i]\n                if class_id >= 0:\n                    X[class_id].append(delayed_stat)\n                i += 1", "routing filtered by a condition")
V("C12-route-counter-per-partition", ["C12"], "factor_analysis", "                class_id = y[i]\n                X[class_id].append(delayed_stat)\n                i += 1", "                class_id = y[i]\n                X[class_id].append(delayed_stat)\n            i += 1", "label index advances once per partition: partitions that mix classes are mis-routed")
V("C12-route-wrong-list", ["C12"], "factor_analysis", "                X[class_id].append(delayed_stat)", "                X[class_id - 1].append(delayed_stat)", "statistics routed to the neighbouring class")
V("C12-labels-other-order", ["C12"], "factor_analysis", "y = [y[y == class_id] for class_id in range(n_classes)]", "y = [y[y == class_id] for class_id in reversed(range(n_classes))]", "per-class labels regrouped in another order than the per-class statistics")

# ----------------------------------------------------------------------------- C09
V("C09-A1-no-covariance", ["C09"], "factor_analysis", "            id_plus_prod_v_i = self._compute_id_plus_vprod_i(n_acc_i, VProd)\n            id_plus_prod_v_i += latent_y_i[:, np.newaxis] @ latent_y_i[:, np.newaxis].T", "            id_plus_prod_v_i = latent_y_i[:, np.newaxis] @ latent_y_i[:, np.newaxis].T", "posterior covariance dropped from the V accumulator A1 (hard EM)")
V("C09-A1-minus-outer", ["C09"], "factor_analysis", "            id_plus_prod_v_i += latent_y_i[:, np.newaxis] @ latent_y_i[:, np.newaxis].T", "            id_plus_prod_v_i -= latent_y_i[:, np.newaxis] @ latent_y_i[:, np.newaxis].T", "outer product subtracted in A1")
V("C09-A2-no-residual", ["C09"], "factor_analysis", "            acc_V_A2 += fn_y_i[np.newaxis].T @ latent_y_i[:, np.newaxis].T", "            acc_V_A2 += f_acc_i.flatten()[np.newaxis].T @ latent_y_i[:, np.newaxis].T", "A2 uses the raw first-order statistics instead of the residual")
V("C09-V-reshape-wrong", ["C09"], "factor_analysis", "self._V = V_c.reshape((self.ubm.n_gaussians * self.feature_dimension, self.r_V))", "self._V = V_c.reshape((self.ubm.n_gaussians, self.feature_dimension * self.r_V))", "V stored as (components, features*rank)")
V("C09-U-split-wrong", ["C09"], "factor_analysis", "U_c = acc_U_A2.reshape(self.ubm.n_gaussians, self.feature_dimension, self.r_U) @ inv_A1", "U_c = acc_U_A2.reshape(self.feature_dimension, self.ubm.n_gaussians, self.r_U) @ inv_A1", "A2 split as (features, components, rank): rows of different components are mixed")
V("C09-D-product", ["C09"], "factor_analysis", "self._D = acc_D_A2 / acc_D_A1", "self._D = acc_D_A2 * acc_D_A1", "D = A2 * A1", may_be_undecided=False)
V("C09-ustep-zero-y", ["C09"], "factor_analysis", "                e_step_output = self.e_step_u(X=X, y=y, n_samples_per_class=n_samples_per_class, latent_y=latent_y)", "                e_step_output = self.e_step_u(X=X, y=y, n_samples_per_class=n_samples_per_class, latent_y=None)", "U phase (in-memory arm) ignores the speaker factors")
V("C09-finalize-u-early", ["C09"], "factor_analysis",
  "        latent_y = self.finalize_v(X=X, y=y, n_samples_per_class=n_samples_per_class, n_acc=n_acc, f_acc=f_acc)\n        for i in range(self.em_iterations):\n            logger.info('U Training: Iteration %d', i + 1)",
  "        latent_y = self.finalize_v(X=X, y=y, n_samples_per_class=n_samples_per_class, n_acc=n_acc, f_acc=f_acc)\n        latent_x = self.finalize_u(X=X, y=y, n_samples_per_class=n_samples_per_class, latent_y=latent_y)\n        for i in range(self.em_iterations):\n            logger.info('U Training: Iteration %d', i + 1)",
  "an extra finalize_u before the U loop (value overwritten later)", kind="benign", may_be_undecided=True)
V2("C09-finalize-u-before-loop", ["C09"], [
    dict(module="factor_analysis", old="        latent_y = self.finalize_v(X=X, y=y, n_samples_per_class=n_samples_per_class, n_acc=n_acc, f_acc=f_acc)\n        for i in range(self.em_iterations):\n            logger.info('U Training: Iteration %d', i + 1)", new="        latent_y = self.finalize_v(X=X, y=y, n_samples_per_class=n_samples_per_class, n_acc=n_acc, f_acc=f_acc)\n        latent_x = self.finalize_u(X=X, y=y, n_samples_per_class=n_samples_per_class, latent_y=latent_y)\n        for i in range(self.em_iterations):\n            logger.info('U Training: Iteration %d', i + 1)"),
    dict(module="factor_analysis", old="        latent_x = self.finalize_u(X=X, y=y, n_samples_per_class=n_samples_per_class, latent_y=latent_y)\n        for i in range(self.em_iterations):\n            logger.info('D Training", new="        for i in range(self.em_iterations):\n            logger.info('D Training"),
  ], "channel factors for the D phase computed with the untrained U")
V("C09-dstep-stale-x", ["C09"], "factor_analysis", "                e_step_output = self.e_step_d(X=X, y=y, n_samples_per_class=n_samples_per_class, latent_x=latent_x, latent_y=latent_y, n_acc=n_acc, f_acc=f_acc)", "                e_step_output = self.e_step_d(X=X, y=y, n_samples_per_class=n_samples_per_class, latent_x=None, latent_y=latent_y, n_acc=n_acc, f_acc=f_acc)", "D phase ignores the channel factors", may_be_undecided=False)
V("C09-two-msteps", ["C09"], "factor_analysis", "                self.m_step_v([e_step_output])\n        latent_y", "                self.m_step_v([e_step_output])\n                self.m_step_v([e_step_output])\n        latent_y", "two M-steps on the same E-step statistics")
V("C09-phase-iterations", ["C09"], "factor_analysis", "        for i in range(self.em_iterations):\n            logger.info('D Training", "        for i in range(self.em_iterations - 1):\n            logger.info('D Training", "D phase runs one pass fewer")
V("C09-UProd-unscaled", ["C09", "C15"], "factor_analysis", "        UProd = UcT / sigma_c @ Uc", "        UProd = UcT @ Uc", "U' Sigma^-1 U computed without the covariances")
V("C08-axes-wrong", ["C08", "C11"], "linear_scoring", "b = np.transpose(b, axes=(1, 2, 0))", "b = np.transpose(b, axes=(2, 1, 0))", "test-statistics factor transposed to (features, components, items): contraction pairs components with features")
V("C08-tensordot-1", ["C08", "C11"], "linear_scoring", "return np.tensordot(a, b, 2)", "return np.tensordot(a, b, 1)", "contraction over one axis only")
V("C08-variance-squared", ["C08", "C15", "C11"], "linear_scoring", "a = (models_means - ubm.means) / ubm.variances", "a = (models_means - ubm.means) / ubm.variances ** 2", "model offset divided by the squared variance")

# ----------------------------------------------------------------------------- survivors of the generic mutation sweep, now rules
V("S-lwl-data-plus-mean", ["C01"], "gmm", "temp = np.sum((data - machine.means[i]) ** 2 / machine.variances[i], axis=-1)", "temp = np.sum((data + machine.means[i]) ** 2 / machine.variances[i], axis=-1)", "mean added to the sample in the quadratic form (density not centred on the mean)")
V("S-power-swapped", ["C15", "C03"], "gmm", ") / thresholded_n[:, None] + np.power(machine.means, 2)", ") / thresholded_n[:, None] + np.power(2, machine.means)", "base and exponent exchanged")
V("S-eq-neq", ["C02", "C18"], "gmm", "self.log_likelihood == other.log_likelihood and self.t == other.t", "self.log_likelihood == other.log_likelihood and self.t != other.t", "__eq__ compares the sample counts with !=")
V("S-alpha-deleted", ["C05"], "gmm", "    if reynolds_adaptation:\n        alpha = statistics.n / (statistics.n + relevance_factor)\n    elif", "    if reynolds_adaptation:\n        pass\n    elif", "Reynolds coefficient never computed: fixed ratio used")
V("S-mask-neq", ["C06", "C20"], "kmeans", "first_order_statistics[i] = np.sum(data[closest_k_indices == i], axis=0)", "first_order_statistics[i] = np.sum(data[closest_k_indices != i], axis=0)", "cluster sums over the samples NOT assigned to the cluster")
V("S-fnx-divided", ["C11", "C07"], "factor_analysis", "fn_x = f - self.ubm.means * n", "fn_x = f - self.ubm.means / n", "UBM mean divided by the counts in the pooled residual")
V("S-mstep-d-not-stored", ["C09"], "factor_analysis", "        self._D = acc_D_A2 / acc_D_A1\n        return self._D", "        return acc_D_A2 / acc_D_A1", "in-memory D phase never stores D", may_be_undecided=False)
V("S-finalize-u-zero", ["C09"], "factor_analysis", "        n_classes = len(n_samples_per_class)\n        latent_x = self.compute_latent_x(X=X, y=y, n_classes=n_classes, UProd=UProd, latent_y=latent_y)\n        return latent_x", "        n_classes = len(n_samples_per_class)\n        return latent_x", "finalize_u returns the zero-initialised channel factors")
V("S-ynew-dropped", ["C04"], "factor_analysis", "                X_new.append(X[class_indices])\n                y_new.append(y[class_indices])", "                X_new.append(X[class_indices])", "per-class labels never collected: zip(X, y) is empty and nothing is trained")
V("S-scatter-subtracted", ["C14"], "wccn", "            Sw += X_l_mu_l.T @ X_l_mu_l", "            Sw -= X_l_mu_l.T @ X_l_mu_l", "per-class scatter subtracted")
V("S-sigma-times-n", ["C10"], "ivector", "machine.sigma = (stats.snormij - fnorm_sigma_wij_tt) / stats.nij[:, None]", "machine.sigma = (stats.snormij - fnorm_sigma_wij_tt) * stats.nij[:, None]", "covariance update multiplied by the counts")
V("S-acc-divided", ["C10"], "ivector", "stats.nij_sigma_wij2 = stats.nij_sigma_wij2 + Nij[:, None, None] * sigma_w_ij2[None, :, :]", "stats.nij_sigma_wij2 = stats.nij_sigma_wij2 + Nij[:, None, None] / sigma_w_ij2[None, :, :]", "N / E[ww'] accumulated", kind="skip")

# ----------------------------------------------------------------------------- survivors of the second generic sweep (seed 2)
V("S2-wblend-div", ["C05"], "gmm", "(1 - alpha) * machine.ubm.weights", "(1 - alpha) / machine.ubm.weights", "prior weights divide instead of multiply in the MAP weight blend")
V("S2-mapvar-fallback-sign", ["C05"], "gmm", "prior_norm_variances = machine.ubm.variances + machine.ubm.means - np.power(machine.means, 2)", "prior_norm_variances = machine.ubm.variances + machine.ubm.means + np.power(machine.means, 2)", "squared adapted mean added in the no-evidence fallback of the MAP variances")
V("S2-prec-div-n", ["C07", "C09", "C11"], "factor_analysis", "UcT / sigma_c @ Uc * n_i_c", "UcT / sigma_c @ Uc / n_i_c", "pooled precision divides by the counts")
V("S2-acc-div", ["C10"], "ivector", "Nij[:, None, None] * sigma_w_ij2[None, :, :]", "Nij[:, None, None] / sigma_w_ij2[None, :, :]", "N / E[ww'] accumulated")
V("S2-accD-subtracted", ["C09"], "factor_analysis", "acc_D_A2 += fn_z_i * latent_z[y_i]", "acc_D_A2 -= fn_z_i * latent_z[y_i]", "per-class D accumulator subtracted")
V("S2-class-select-ne", ["C07", "C09", "C12"], "factor_analysis", "np.array(y) == i", "np.array(y) != i", "per-class selection returns every other class's statistics")
V("S2-T-not-stored", ["C10"], "ivector", "    machine.T = X.transpose((0, 2, 1))\n", "    pass\n", "i-vector M-step never stores the new T")
V("S2-sigma-not-stored", ["C10"], "ivector", "        machine.sigma = (stats.snormij - fnorm_sigma_wij_tt) / stats.nij[:, None]\n", "        pass\n", "i-vector M-step never stores the new sigma")
V("S2-unwrap-inverted", ["C08", "C11"], "linear_scoring", "ubm.trainer == 'map'", "ubm.trainer != 'map'", "MAP -> prior replacement executed for ML machines only")
V("S2-unwrap-else-form", ["C08"], "linear_scoring", "    if ubm.trainer == 'map':\n        ubm = ubm.ubm\n", "    if ubm.trainer != 'map':\n        pass\n    else:\n        ubm = ubm.ubm\n", "same replacement written with the negated test", kind="benign")
V("S2-snorm-coef", ["C10"], "ivector", "Sij - 2 * Fij", "Sij - 3 * Fij", "cross term of the centred second-order statistics with coefficient 3")
V("S2-blend-coef", ["C05"], "gmm", "np.multiply(1 - alpha[:, None], machine.ubm.means)", "np.multiply(2 - alpha[:, None], machine.ubm.means)", "prior mean weighted by (2 - alpha)")
V("S2-mlvar-coef", ["C03"], "gmm", "(statistics.sum_pxx - 2 * machine.means", "(statistics.sum_pxx - 3 * machine.means", "cross term of the ML variance with coefficient 3")

# ----------------------------------------------------------------------------- DTYPE.raw (second seeding round; D13)
V("DT-gmm-square-native", ["C02"], "gmm", "sum_pxx.append(np.sum(px * data, axis=0))", "sum_pxx.append(np.sum(responsibility[i, :, None] * (data * data), axis=0))", "samples squared in their own dtype before the responsibility weighting (wraps for int16 / uint8 input)")
V("DT-gmm-square-hoisted", ["C02"], "gmm", "    sum_px, sum_pxx = ([], [])\n", "    sum_px, sum_pxx = ([], [])\n    data_squared = np.square(data)\n    assert data_squared is not None\n", "np.square(data) in the input dtype", kind="skip")
V("DT-gmm-multiply-spelled", ["C02"], "gmm", "sum_pxx.append(np.sum(px * data, axis=0))", "sum_pxx.append(np.sum(np.multiply(px, data), axis=0))", "same product spelled with np.multiply (px is float)", kind="benign")
V("DT-kmeans-square-native", ["C20"], "kmeans", "np.square(data[closest_centroid_indices == i], dtype=float)", "data[closest_centroid_indices == i] ** 2", "D13 re-introduced: per-cluster squares in the input dtype")
V("DT-kmeans-astype", ["C20"], "kmeans", "np.square(data[closest_centroid_indices == i], dtype=float)", "data[closest_centroid_indices == i].astype(float) ** 2", "conversion spelled with astype(float)", kind="benign")
V("DT-fa-intbuffer", ["C07", "C09"], "factor_analysis", "        latent_x_i = []\n        for x_i in X_i:\n", "        latent_x_i = []\n        buf = np.zeros_like(X_i[0].n)\n        buf[0] = self._compute_fn_x_ih(X_i[0], latent_z_i=latent_z_i, latent_y_i=latent_y_i)[0]\n        for x_i in X_i:\n", "float residual stored into a buffer with the dtype of the counts")
V("R2-score-deadzone", ["C08", "C11"], "linear_scoring", "a = (models_means - ubm.means) / ubm.variances", "a = np.where(np.isclose(models_means, ubm.means), 0.0, (models_means - ubm.means) / ubm.variances)", "dead zone on the model offset: the score is not linear in small offsets")
V("R2-score-divide-spelled", ["C08"], "linear_scoring", "a = (models_means - ubm.means) / ubm.variances", "a = np.divide(models_means - ubm.means, ubm.variances)", "division spelled with np.divide", kind="benign")

# ----------------------------------------------------------------------------- algorithm rewrites of the k-means moment reducer (second seeding round)
_REDUCE_OLD = '    closest_centroid_indices = [s[0] for s in stats]\n    means_sum = [s[1] for s in stats]\n    variances_sum = [s[2] for s in stats]\n    closest_centroid_indices = np.concatenate(closest_centroid_indices, axis=0)\n    means_sum = np.sum(means_sum, axis=0)\n    variances_sum = np.sum(variances_sum, axis=0)\n    n_clusters = len(means_sum)\n    weights_count = np.bincount(closest_centroid_indices, minlength=n_clusters)\n    weights = weights_count / weights_count.sum()\n    means = means_sum / weights_count[:, None]\n    variances = variances_sum / weights_count[:, None] - means ** 2\n    return (variances, weights)'
_REDUCE_CHAN = '    n_clusters, n_features = np.shape(stats[0][1])\n    counts = np.zeros((n_clusters, 1))\n    means = np.zeros((n_clusters, n_features))\n    scatter = np.zeros((n_clusters, n_features))\n    for closest_centroid_indices, means_sum, variances_sum in stats:\n        block_count = np.bincount(closest_centroid_indices, minlength=n_clusters)[:, None]\n        total = counts + block_count\n        safe_total = np.maximum(total, 1)\n        delta = means_sum - block_count * means\n        scatter += variances_sum - 2 * means * means_sum + block_count * means ** 2 - delta ** 2 / safe_total\n        means += delta / safe_total\n        counts = total\n    weights_count = counts[:, 0]\n    weights = weights_count / weights_count.sum()\n    variances = scatter / weights_count[:, None]\n    return (variances, weights)'
_REDUCE_CHAN_UNGUARDED = '    n_clusters, n_features = np.shape(stats[0][1])\n    counts = np.zeros((n_clusters, 1))\n    means = np.zeros((n_clusters, n_features))\n    scatter = np.zeros((n_clusters, n_features))\n    for closest_centroid_indices, means_sum, variances_sum in stats:\n        block_count = np.bincount(closest_centroid_indices, minlength=n_clusters)[:, None]\n        total = counts + block_count\n        delta = means_sum - block_count * means\n        scatter += variances_sum - 2 * means * means_sum + block_count * means ** 2 - delta ** 2 / total\n        means += delta / total\n        counts = total\n    weights_count = counts[:, 0]\n    weights = weights_count / weights_count.sum()\n    variances = scatter / weights_count[:, None]\n    return (variances, weights)'
V("R2-chan-merge-guarded", ["C04", "C13", "C15", "C20", "C06", "C16"], "kmeans", _REDUCE_OLD, _REDUCE_CHAN, "block-by-block (Chan) merge of counts, means and scatter with the running count floored at 1: same result for every chunking", kind="benign")
V("R2-chan-merge-unguarded", ["C13"], "kmeans", _REDUCE_OLD, _REDUCE_CHAN_UNGUARDED, "same merge dividing by the raw running count: a cluster absent from the leading block gets 0/0 = NaN that persists")

# ----------------------------------------------------------------------------- folds over per-class / per-block partial results (second seeding round)
_RI_OLD = "        ret.append(functools.reduce(operator.iadd, a))"
V("R2-reduce-iadd-loop", ["C09", "C12", "C04"], "factor_analysis", _RI_OLD, "        acc = a[0]\n        for x in a[1:]:\n            acc += x\n        ret.append(acc)", "reduce_iadd written as an explicit loop", kind="benign")
V("R2-reduce-iadd-drop-last", ["C09", "C12"], "factor_analysis", _RI_OLD, "        ret.append(functools.reduce(operator.iadd, a[:-1]))", "last class's accumulators never folded")
V("R2-reduce-iadd-pairs", ["C09", "C12", "C04"], "factor_analysis", _RI_OLD, "        a = list(a)\n        while len(a) > 1:\n            a = [operator.iadd(a[i], a[i + 1]) for i in range(0, len(a) - 1, 2)]\n        ret.append(a[0])", "balanced tree that loses the unpaired last element of odd levels")
V("R2-reduce-iadd-pairs-ok", ["C09", "C12", "C04"], "factor_analysis", _RI_OLD, "        a = list(a)\n        while len(a) > 1:\n            nxt = [operator.iadd(x, y) for x, y in zip(a[0::2], a[1::2])]\n            if len(a) % 2:\n                nxt.append(a[-1])\n            a = nxt\n        ret.append(a[0])", "balanced tree that carries the unpaired last element", kind="benign")
V("R2-gmm-mstep-pairs", ["C02", "C03", "C04"], "gmm", "    statistics = functools.reduce(operator.iadd, statistics)", "    statistics = list(statistics)\n    while len(statistics) > 1:\n        statistics = [operator.iadd(a, b) for a, b in zip(statistics[0::2], statistics[1::2])]\n    statistics = statistics[0]", "GMM M-step folds the per-block statistics by neighbour pairs and drops the odd tail")
V("R2-abs-threshold-isclose", ["C15", "C06"], "kmeans", "        distance = self.average_min_distance\n", "        distance = self.average_min_distance\n        if np.isclose(distance, 0.0):\n            break\n", "early stop on an absolute tolerance of the squared distance (unit dependent)")
V("R2-abs-threshold-literal", ["C15", "C06"], "kmeans", "        distance = self.average_min_distance\n", "        distance = self.average_min_distance\n        if distance < 1e-08:\n            break\n", "early stop below an absolute squared-distance literal (unit dependent)")
V("R2-global-centroid-cache", ["C16"], "kmeans", "def get_centroids_distance(", "_INITIAL = {}\n\n\ndef _remember(key, value):\n    _INITIAL[key] = value\n    return value\n\n\ndef get_centroids_distance(", "module-level dictionary filled by a function: results can depend on what was trained before")
V("R2-module-constant-table", ["C16"], "kmeans", "def get_centroids_distance(", "_INIT_METHODS = {'random': 0, 'k-means++': 1}\n\n\ndef _method_index(name):\n    return _INIT_METHODS[name]\n\n\ndef get_centroids_distance(", "module-level constant table that is only read", kind="benign")
V("R2-legacy-name-order", ["C18"], "gmm", "            for i in range(n_gaussians):\n                gaussian_group = hdf5[f'm_gaussians{i}']\n", "            for name, gaussian_group in hdf5.items():\n                if not name.startswith('m_gaussians'):\n                    continue\n", "legacy per-component groups visited in name order (m_gaussians10 before m_gaussians2)")
V("R2-legacy-index-format", ["C18"], "gmm", "                gaussian_group = hdf5[f'm_gaussians{i}']\n", "                gaussian_group = hdf5['m_gaussians' + str(i)]\n", "group key built by concatenation", kind="benign")
V("R2-init-weights-stale-counts", ["C20"], "gmm", "            self.variances, self.weights = kmeans_machine.get_variances_and_weights_for_each_cluster(data)", "            self.variances, w_ = kmeans_machine.get_variances_and_weights_for_each_cluster(data)\n            counts = np.bincount(kmeans_machine.predict(data[: len(data) // 2]), minlength=self.n_gaussians)\n            self.weights = counts / counts.sum()", "initial weights from the assignments of half of the data")
V("R2-init-unpacked-first", ["C20"], "gmm", "            self.variances, self.weights = kmeans_machine.get_variances_and_weights_for_each_cluster(data)", "            v_, w_ = kmeans_machine.get_variances_and_weights_for_each_cluster(data)\n            self.variances = v_\n            self.weights = w_", "same statistics unpacked into locals first", kind="benign")
V("R2-iadd-alias-fastpath", ["C19", "C02"], "gmm", "        self.log_likelihood += other.log_likelihood\n        self.t += other.t\n", "        if self.t == 0:\n            self.init_fields(other.log_likelihood, other.t, other.n, other.sum_px, other.sum_pxx)\n            return self\n        self.log_likelihood += other.log_likelihood\n        self.t += other.t\n", "empty accumulator adopts the right operand's arrays: the next += corrupts that operand")
V("R2-iadd-copy-fastpath", ["C19", "C02"], "gmm", "        self.log_likelihood += other.log_likelihood\n        self.t += other.t\n", "        if self.t == 0:\n            self.init_fields(other.log_likelihood, other.t, other.n.copy(), other.sum_px.copy(), other.sum_pxx.copy())\n            return self\n        self.log_likelihood += other.log_likelihood\n        self.t += other.t\n", "empty accumulator takes copies of the right operand's arrays", kind="benign")
V("R2-kmeans-select-once", ["C06", "C20", "C04", "C13", "C15"], "kmeans", "    for i in range(n_clusters):\n        means_sum[i] = np.sum(data[closest_centroid_indices == i], axis=0)\n    for i in range(n_clusters):\n        variances_sum[i] = np.sum(np.square(data[closest_centroid_indices == i], dtype=float), axis=0)\n", "    for i in range(n_clusters):\n        cluster_data = data[closest_centroid_indices == i]\n        means_sum[i] = np.sum(cluster_data, axis=0)\n        variances_sum[i] = np.sum(np.square(cluster_data, dtype=float), axis=0)\n", "the two per-cluster loops merged, samples of the cluster selected once", kind="benign")

# ----------------------------------------------------------------------------- survivors of the generic sweep, second pass
V("S3-reynolds-flag-inverted", ["C05", "C03"], "gmm", "reynolds_adaptation=machine.map_relevance_factor is not None", "reynolds_adaptation=machine.map_relevance_factor is None", "relevance-factor adaptation switched on exactly when no relevance factor is configured")
V("S3-init-weights-not-uniform", ["C13"], "gmm", "fill_value=1 / self.n_gaussians", "fill_value=2 / self.n_gaussians", "default weights sum to two")
V("S3-optional-y-inverted", ["C07", "C09"], "factor_analysis", "latent_y_i = latent_y[y_i] if latent_y is not None else None", "latent_y_i = latent_y[y_i] if latent_y is None else None", "speaker factors selected only when absent", count="all")
V("S3-optional-term-inverted", ["C07", "C09", "C11"], "factor_analysis", "fn_x_ih -= n_ic * V_dot_v if latent_y_i is not None else 0", "fn_x_ih -= n_ic * V_dot_v if latent_y_i is None else 0", "V y subtracted only when y is absent")
V("S3-optional-neutral-one", ["C07", "C09", "C11"], "factor_analysis", "fn_x_ih -= n_ic * V_dot_v if latent_y_i is not None else 0", "fn_x_ih -= n_ic * V_dot_v if latent_y_i is not None else 1", "an absent speaker factor shifts the residual by one")
V("S3-whitening-centre-not-stored", ["C14"], "whitening", "        self.input_subtract = mu\n", "        pass\n", "Whitening.fit never stores the training mean")
V("S3-single-model-not-expanded", ["C08", "C11"], "linear_scoring", "        models_means = models_means[None, :, :]\n", "        pass\n", "a single (C, D) model is not expanded to one row")
V("S3-single-model-expand-dims", ["C08"], "linear_scoring", "        models_means = models_means[None, :, :]\n", "        models_means = np.expand_dims(models_means, 0)\n", "expansion spelled with np.expand_dims", kind="benign")

# ----------------------------------------------------------------------------- survivors of the third generic sweep (seed 3)
V("S4-kmeans-mstep-subtract", ["C06", "C04"], "kmeans", "zeroeth_order_statistics += zeroeth_", "zeroeth_order_statistics -= zeroeth_", "per-block counts subtracted in the k-means M-step")
V("S4-kmeans-mstep-offset", ["C06", "C04"], "kmeans", "average_min_distance = (0, 0, 0)", "average_min_distance = (0, 0, 1)", "criterion accumulator starts from one")
V("S4-fa-residual-quotient", ["C07", "C09"], "factor_analysis", "self._D * latent_z_i", "self._D / latent_z_i", "D / z in the residual of the channel factors", count="all")
V("S4-fa-accD-quotient", ["C09"], "factor_analysis", "(id_plus_d_prod + latent_z[y_i] * latent_z[y_i]) * tmp_CD", "(id_plus_d_prod + latent_z[y_i] * latent_z[y_i]) / tmp_CD", "second moment of z divided by the counts in A1 of the D phase")
V("S4-stats-default-swapped", ["C02"], "gmm", "dtype=float) if sum_pxx is None else sum_pxx", "dtype=float) if sum_pxx is not None else sum_pxx", "GMMStats.init_fields replaces supplied second-order statistics by zeros and keeps None otherwise")
V("S4-wccn-scale-two", ["C14"], "wccn", "scaled_Sw = 1 / n_classes * Sw", "scaled_Sw = 2 / n_classes * Sw", "within-class scatter scaled by 2 / K")
V("S4-wccn-divide-two", ["C14"], "wccn", "self.input_divide = 1.0", "self.input_divide = 2.0", "fitted WCCN divides the input by two")
V("S4-mapweights-coef", ["C05"], "gmm", "alpha * ml_weights + (1 - alpha) * machine.ubm.weights", "alpha * ml_weights + (2 - alpha) * machine.ubm.weights", "prior weights weighted by (2 - alpha)")
V("S4-wccn-scale-division", ["C14"], "wccn", "scaled_Sw = 1 / n_classes * Sw", "scaled_Sw = Sw / n_classes", "scaling spelled as a division", kind="benign")
V("R1-noevidence-threshold-const", ["C05"], "gmm", "machine.means = np.where(statistics.n[:, None] < mean_var_update_threshold, machine.ubm.means, new_means)", "machine.means = np.where(statistics.n[:, None] < EPSILON, machine.ubm.means, new_means)", "no-evidence test against a module constant instead of the configured threshold (seeded C15-s1)")
V("R1-noevidence-named-mask", ["C05"], "gmm", "machine.means = np.where(statistics.n[:, None] < mean_var_update_threshold, machine.ubm.means, new_means)", "unseen = statistics.n[:, None] < mean_var_update_threshold\n        machine.means = np.where(unseen, machine.ubm.means, new_means)", "the mask bound to a name first", kind="benign")

# ----------------------------------------------------------------------------- third seeding round: layout, position, coincidence traps
V("R3-supervector-layout", ["C11"], "factor_analysis", "return self.ubm.means.flatten()", "return self.ubm.means.ravel(order='K')", "mean supervector follows the memory layout of the UBM means")
V("R3-supervector-ravel-c", ["C11"], "factor_analysis", "return self.ubm.means.flatten()", "return self.ubm.means.reshape(-1).copy()", "supervector spelled with reshape(-1)", kind="benign")
V("R3-enumerate-filtered", ["C07", "C09"], "factor_analysis", "        for session_id, x_i_s in enumerate(X_i):\n            n_i = x_i_s.n\n            tmp_CD = np.repeat(n_i, self.feature_dimension)\n            x_i_h = latent_x_i[:, session_id]\n            fn_z_i -= tmp_CD * (U @ x_i_h)\n        return fn_z_i", "        for session_id, x_i_s in enumerate((x for x in X_i if np.any(x.n))):\n            n_i = x_i_s.n\n            tmp_CD = np.repeat(n_i, self.feature_dimension)\n            x_i_h = latent_x_i[:, session_id]\n            fn_z_i -= tmp_CD * (U @ x_i_h)\n        return fn_z_i", "sessions without frames filtered out before enumerate: later sessions paired with the wrong column of E[x]")
V("R3-enumerate-skip-inside", ["C07", "C09"], "factor_analysis", "        for session_id, x_i_s in enumerate(X_i):\n            n_i = x_i_s.n\n            tmp_CD = np.repeat(n_i, self.feature_dimension)\n            x_i_h = latent_x_i[:, session_id]\n            fn_z_i -= tmp_CD * (U @ x_i_h)\n        return fn_z_i", "        for session_id, x_i_s in enumerate(X_i):\n            n_i = x_i_s.n\n            if not np.any(n_i):\n                continue\n            tmp_CD = np.repeat(n_i, self.feature_dimension)\n            x_i_h = latent_x_i[:, session_id]\n            fn_z_i -= tmp_CD * (U @ x_i_h)\n        return fn_z_i", "empty sessions skipped inside the loop (positions unchanged; they contribute zero anyway)", kind="benign")
V("R3-reduceat", ["C04", "C06"], "kmeans", "    for i in range(n_clusters):\n        first_order_statistics[i] = np.sum(data[closest_k_indices == i], axis=0)", "    order = np.argsort(closest_k_indices, kind='stable')\n    starts = np.cumsum(zeroeth_order_statistics) - zeroeth_order_statistics\n    first_order_statistics[:] = np.add.reduceat(np.vstack([data[order], np.zeros((1, data.shape[1]))]), starts.astype(int), axis=0)", "per-cluster sums by np.add.reduceat: an empty cluster receives a row of the next one")
V("R3-offset-coincidence", ["C08", "C11"], "linear_scoring", "    test_channel_offsets = np.array(test_channel_offsets)\n", "    test_channel_offsets = np.array(test_channel_offsets)\n    if test_channel_offsets.ndim >= 2 and test_channel_offsets.shape[0] == len(test_stats):\n        test_channel_offsets = test_channel_offsets.reshape(len(test_stats), -1, ubm.means.shape[-1])\n", "a shared (C, D) offset is re-read as per-probe offsets when the number of probes happens to equal the number of components")
V("R3-load-like-with-like", ["C18"], "gmm", "if new_self.shape != self.shape:", "if new_self.n_gaussians != self.n_gaussians or new_self.n_features != self.n_gaussians:", "GMMStats.load compares the file's n_features with the target's n_gaussians")
V("R3-load-fieldwise", ["C18"], "gmm", "if new_self.shape != self.shape:", "if new_self.n_gaussians != self.n_gaussians or new_self.n_features != self.n_features:", "shape comparison written field by field", kind="benign")
V("R3-view-inplace", ["C01", "C02"], "gmm", "    responsibility = np.exp(log_weighted_likelihoods - log_likelihood[None, :])", "    log_likelihood = log_weighted_likelihoods[0] if len(log_weighted_likelihoods) == 1 else log_likelihood\n    log_weighted_likelihoods -= log_likelihood[None, :]\n    responsibility = np.exp(log_weighted_likelihoods)", "normalisation in place while the per-sample log-likelihood may be a view of the array being changed (single component)")
V("R3-mahalanobis-expanded", ["C01"], "gmm", "        temp = np.sum((data - machine.means[i]) ** 2 / machine.variances[i], axis=-1)", "        temp = np.square(data) @ (1.0 / machine.variances[i]) - 2.0 * (data @ (machine.means[i] / machine.variances[i])) + np.sum(machine.means[i] ** 2 / machine.variances[i])", "Mahalanobis distance by the expanded form x^2/v - 2 x m/v + m^2/v (cancellation far from the origin)")
V("R3-position-split", ["C16", "C09"], "factor_analysis", "            for y_i in unique_labels(y):\n                latent_x[y_i] = self._compute_latent_x_per_class(X_i=self._get_statistics_by_class_id(X, y, y_i),", "            labels_, counts_ = np.unique(np.asarray(y), return_counts=True)\n            bounds_ = np.concatenate([[0], np.cumsum(counts_)])\n            for y_i in unique_labels(y):\n                latent_x[y_i] = self._compute_latent_x_per_class(X_i=X[bounds_[y_i]:bounds_[y_i + 1]],", "sessions of a class taken as a run of positions from cumulative class counts (right only for labels sorted by class)")

# ---- round 4: rules added from the survivors of the fourth generic mutation sweep -----------------------------------------
V("F4-nacc-minus", ["C07", "C09"], "factor_analysis", "n_acc[y_i, :] += x_i.n", "n_acc[y_i, :] -= x_i.n", "per-class zeroth-order sums subtract a session")
V("F4-facc-times", ["C07", "C09"], "factor_analysis", "f_acc[y_i, :, :] += x_i.sum_px", "f_acc[y_i, :, :] *= x_i.sum_px", "per-class first-order sums multiply instead of add")
V("F4-mult-along-axis-div", ["C09"], "factor_analysis", "A * B_brc", "A / B_brc", "mult_along_axis divides")
V("F4-client-D-div", ["C11"], "factor_analysis", "self.D * latent_z", "self.D / latent_z", "client offset D / z instead of D * z", count=2)
V("F4-lwl-gnorm-minus-z", ["C01"], "gmm", "machine.g_norms[:, None] + z", "machine.g_norms[:, None] - z", "Mahalanobis term enters the log-density with a plus sign")
V("F4-lwl-mean-plus", ["C01"], "gmm", "(data - machine.means[i])", "(data + machine.means[i])", "distance to minus the mean")
V("F4-lwl-half-by-division", ["C01"], "gmm", "ll = -0.5 * (machine.g_norms[:, None] + z)", "ll = -(machine.g_norms[:, None] + z) / 2", "the one-half written as a division", kind="benign")
V("F4-lwl-half-negdiv", ["C01"], "gmm", "ll = -0.5 * (machine.g_norms[:, None] + z)", "ll = (machine.g_norms[:, None] + z) / -2.0", "the minus one-half written as a division by -2", kind="benign")
V("F4-lwl-distributed", ["C01"], "gmm", "ll = -0.5 * (machine.g_norms[:, None] + z)", "ll = -0.5 * machine.g_norms[:, None] - 0.5 * z", "the one-half distributed over both terms", kind="benign")
V("F4-lwl-third", ["C01"], "gmm", "ll = -0.5 * (machine.g_norms[:, None] + z)", "ll = -(machine.g_norms[:, None] + z) / 3", "one third instead of one half")
V("F4-prior-side-trainer", ["C05"], "gmm", "        if self.trainer == 'map':\n            self.means = copy", "        if self.trainer != 'map':\n            self.means = copy", "prior handed over to the ML machine, k-means run for the MAP machine")
V("F4-prior-side-ml-else", ["C05"], "gmm", "        if self.trainer == 'map':\n            self.means = copy", "        if not self.trainer == 'ml':\n            self.means = copy", "same switch written as not-ML", kind="benign")
V("F4-prior-side-ubm", ["C05"], "gmm", "if self.ubm is not None:\n            self.means", "if self.ubm is None:\n            self.means", "constructor hands the prior over when there is none")
V("F4-latent-x-not-swapped", ["C07"], "factor_analysis", "        latent_x_i = np.swapaxes(latent_x_i, 0, 1)\n", "", "per-class session factors left as (sessions, r_U) instead of (r_U, sessions)")
V("F4-latent-x-transposed", ["C07"], "factor_analysis", "        latent_x_i = np.swapaxes(latent_x_i, 0, 1)\n", "        latent_x_i = latent_x_i.T\n", "swapaxes written as .T", kind="benign")


# ---- round 5: stored refactorings of the third benign round as bases, each with breaks of the idiom it introduces ------------
_B = "benign/B3%s/patch.diff"
VP("R5-tree-zip-slices", ["C12"], _B % "f-4", "i-vector tree written with two slices and zip, unpaired element re-appended")
VP("R5-tree-zip-slices-no-carry", ["C12"], _B % "f-4", "the unpaired element is not carried over", "ivector", "] + unpaired", "]")
VP("R5-tree-zip-slices-gap", ["C12"], _B % "f-4", "second half starts one element late", "ivector", "second_half = stats[half:2 * half]", "second_half = stats[half + 1:2 * half]")
VP("R5-tree-zip-slices-tail-late", ["C12"], _B % "f-4", "the tail starts after the unpaired element", "ivector", "unpaired = stats[2 * half:]", "unpaired = stats[2 * half + 1:]")
VP("R5-gmm-pairwise", ["C02", "C03", "C04"], _B % "f-1", "GMM M-step folds the block statistics by a balanced pairwise tree")
VP("R5-gmm-pairwise-short-range", ["C02", "C03", "C04"], _B % "f-1", "the pairing loop stops two elements early", "gmm", "for i in range(2, len(level) - 1, 2)", "for i in range(2, len(level) - 3, 2)")
VP("R5-gmm-pairwise-no-carry", ["C02", "C03", "C04"], _B % "f-1", "odd element not carried", "gmm", "        if len(level) % 2:\n            paired.append(level[-1])\n", "")
VP("R5-gmm-pairwise-double", ["C02"], _B % "f-1", "first element added to itself", "gmm", "paired = [operator.iadd(level[0], level[1])]", "paired = [operator.iadd(level[0], level[0])]")
VP("R5-kmeans-recursive-sum", ["C06"], _B % "f-2", "k-means M-step sums the block statistics by recursive halving")
VP("R5-kmeans-recursive-gap", ["C06"], _B % "f-2", "the right half starts one element late", "kmeans", "parts, middle, stop", "parts, middle + 1, stop")
VP("R5-kmeans-recursive-base", ["C06"], _B % "f-2", "base case returns the element after the window", "kmeans", "return parts[start]", "return parts[stop]")
VP("R5-reduce-iadd-doubling", ["C09", "C12"], _B % "f-3", "reduce_iadd as a stride-doubling tree in place")
VP("R5-reduce-iadd-doubling-short", ["C09", "C12"], _B % "f-3", "pass stops one node early", "factor_analysis", "range(0, len(nodes) - stride, 2 * stride)", "range(0, len(nodes) - stride - 1, 2 * stride)")
VP("R5-reduce-iadd-tripling", ["C09", "C12"], _B % "f-3", "stride tripled", "factor_analysis", "stride *= 2", "stride *= 3")
VP("R5-reduce-iadd-neighbour", ["C09", "C12"], _B % "f-3", "partner at distance one in every pass", "factor_analysis", "nodes[i + stride])", "nodes[i + 1])")
VP("R5-wccn-sort-split", ["C14"], _B % "b-1", "WCCN groups the samples by a stable sort of the labels and a split at the label changes")
VP("R5-wccn-split-positions", ["C14"], _B % "b-1", "the identity order is split: runs of positions, not classes", "wccn", "np.split(order, run_starts)", "np.split(np.arange(len(y_)), run_starts)")
VP("R5-wccn-split-no-shift", ["C14"], _B % "b-1", "cut points not moved by one", "wccn", "sorted_y[:-1]) + 1", "sorted_y[:-1])")
VP("R5-wccn-split-unsorted-changes", ["C14"], _B % "b-1", "label changes of the unsorted labels", "wccn", "sorted_y = y_[order]", "sorted_y = y_")
VP("R5-wccn-split-key-sorted", ["C14"], _B % "b-1", "group label read from the sorted labels at an original position", "wccn", "y_[indexes[0]]: ", "sorted_y[indexes[0]]: ")
VP("R5-kmeans-sort-split", ["C06", "C20"], _B % "b-2", "cluster members by stable sort + bincount + split")
VP("R5-kmeans-split-positions", ["C06", "C20"], _B % "b-2", "identity order split", "kmeans", "members = np.split(order, np.cumsum(counts)[:-1])", "members = np.split(np.arange(len(data)), np.cumsum(counts)[:-1])")
VP("R5-kmeans-split-unique-counts", ["C06"], _B % "b-2", "counts of the occurring clusters only: an empty cluster shifts the later ones", "kmeans", "counts = np.bincount(closest_centroid_indices, minlength=n_clusters)", "counts = np.unique(closest_centroid_indices, return_counts=True)[1]")
VP("R5-kmeans-split-no-cumsum", ["C06"], _B % "b-2", "counts used as cut points", "kmeans", "np.split(order, np.cumsum(counts)[:-1])", "np.split(order, counts[:-1])")
VP("R5-kmeans-masks-ne", ["C06"], _B % "b-2", "Dask arm masks with !=", "kmeans", "members = [closest_centroid_indices == i for i in range(n_clusters)]", "members = [closest_centroid_indices != i for i in range(n_clusters)]")
VP("R5-fa-sort-split", ["C07", "C09", "C16"], _B % "b-3", "sessions of a class by stable sort + unique counts + split, zipped with the unique labels")
VP("R5-fa-split-positions", ["C07", "C09", "C16"], _B % "b-3", "identity order split", "factor_analysis", "runs = np.split(order, np.cumsum(counts)[:-1])", "runs = np.split(np.arange(len(y_array)), np.cumsum(counts)[:-1])")
VP("R5-kmeans-scatter-add", ["C06", "C20"], _B % "a-1", "first-order statistics by np.add.at")
VP("R5-kmeans-scatter-subtract", ["C06"], _B % "a-1", "np.subtract.at", "kmeans", "np.add.at(cluster_sums, np.asarray(closest_k_indices), rows)", "np.subtract.at(cluster_sums, np.asarray(closest_k_indices), rows)")
VP("R5-kmeans-scatter-permuted", ["C06"], _B % "a-1", "rows permuted, labels not", "kmeans", "np.add.at(cluster_sums, np.asarray(closest_k_indices), rows)", "np.add.at(cluster_sums, np.asarray(closest_k_indices), rows[np.argsort(closest_k_indices)])")
VP("R5-kmeans-scatter-foreign-labels", ["C06"], _B % "a-1", "rows scattered round-robin", "kmeans", "np.add.at(cluster_sums, np.asarray(closest_k_indices), rows)", "np.add.at(cluster_sums, np.arange(len(rows)) % n_clusters, rows)")
VP("R5-kmeans-segments", ["C06", "C20"], _B % "a-2", "second moments by stable sort + np.add.reduceat over the label runs")
VP("R5-kmeans-segments-from-counts", ["C06", "C20"], _B % "a-2", "segment starts from cumulative counts: empty segments", "kmeans", "starts = np.flatnonzero(np.diff(sorted_labels, prepend=-1))", "starts = np.cumsum(np.bincount(labels, minlength=n_clusters))[:-1]")
VP("R5-kmeans-segments-key", ["C06"], _B % "a-2", "segment sums stored by position", "kmeans", "variances_sum[sorted_labels[starts]] = ", "variances_sum[np.arange(len(starts))] = ")
VP("R5-kmeans-segments-unsorted-rows", ["C06"], _B % "a-2", "rows not brought into sorted order", "kmeans", "np.square(rows[order], dtype=float), starts", "np.square(rows, dtype=float), starts")
VP("R5-kmeans-segments-no-prepend", ["C06"], _B % "a-2", "first segment lost", "kmeans", "np.diff(sorted_labels, prepend=-1)", "np.diff(sorted_labels)")
VP("R5-fa-onehot", ["C07", "C09"], _B % "a-3", "zeroth-order class sums by a one-hot matrix product")
VP("R5-fa-onehot-negated", ["C07"], _B % "a-3", "sums stored with a minus sign", "factor_analysis", "n_acc[:] = membership @ n_per_sample", "n_acc[:] = -(membership @ n_per_sample)")
VP("R5-fa-onehot-ne", ["C07", "C09"], _B % "a-3", "membership by inequality", "factor_analysis", "np.arange(n_classes)[:, None] == class_rows", "np.arange(n_classes)[:, None] != class_rows")
VP("R5-fa-bincount", ["C07", "C09"], _B % "a-4", "first-order class sums by one weighted bincount")
VP("R5-lwl-inplace", ["C01", "C02"], _B % "d-1", "log-density computed in place in fresh temporaries (out=)")
VP("R5-lwl-inplace-sign", ["C01"], _B % "d-1", "in-place arm subtracts the log weights", "gmm", "return np.add(log_weights, z, out=z)", "return np.subtract(log_weights, z, out=z)")
VP("R5-lwl-inplace-half", ["C01"], _B % "d-1", "in-place arm forgets the one half", "gmm", "np.multiply(-0.5, z, out=z)", "np.multiply(-1.0, z, out=z)")
VP("R5-lwl-inplace-times-var", ["C01"], _B % "d-1", "in-place arm multiplies by the variance", "gmm", "temp /= variances_i", "temp *= variances_i")
VP("R5-ls-inplace", ["C08", "C11"], _B % "d-2", "linear scoring factors computed in place (out=)")
VP("R5-ls-inplace-times-var", ["C08"], _B % "d-2", "in-place arm multiplies by the variances", "linear_scoring", "np.divide(a, ubm.variances, out=a)", "np.multiply(a, ubm.variances, out=a)")
VP("R5-ls-inplace-sign", ["C08"], _B % "d-2", "in-place arm: b - sum_px", "linear_scoring", "np.subtract(sum_px[:, :, :], b, out=b)", "np.subtract(b, sum_px[:, :, :], out=b)")
VP("R5-iv-inplace", ["C10"], _B % "d-3", "i-vector E-step temporaries reused in place")
VP("R5-iv-inplace-sign", ["C10"], _B % "d-3", "in-place arm adds the cross term", "ivector", "np.subtract(Sij, Snorm, out=Snorm)", "np.add(Sij, Snorm, out=Snorm)")
VP("R5-km-inplace", ["C13", "C20"], _B % "d-4", "cluster moments turned into mean / variance in place")
VP("R5-km-inplace-no-square", ["C20"], _B % "d-4", "in-place arm subtracts the mean instead of its square", "kmeans", "        means_sum **= 2\n", "")
VP("R5-memo-scalar", ["C16", "C17", "C01"], _B % "e-3", "lru_cache on a pure function of one scalar")
VP("R5-wccn-index-dict", ["C14", "C04"], _B % "e-2", "per-class index arrays kept in a call-local dictionary")
VP("R5-wccn-index-dict-ne", ["C14"], _B % "e-2", "dictionary filled with the non-members", "wccn", "indexes_l[label] = numerical_module.where(y_ == label)[0]", "indexes_l[label] = numerical_module.where(y_ != label)[0]")
VP("R5-ls-reshape", ["C08", "C11"], _B % "c-1", "explicit shape normalisation by reshape")
VP("R5-ls-reshape-no-expand", ["C08"], _B % "c-1", "2-D models no longer get the model axis", "linear_scoring", "models_means = models_means.reshape((1,) + tuple(models_means.shape))", "pass")
VP("R5-ll-sample-rows", ["C01"], _B % "c-4", "single vector promoted by an explicit reshape helper")
VP("R5-ll-sample-rows-column", ["C01"], _B % "c-4", "a vector becomes a column of one-feature samples", "gmm", "(1, data.shape[0])", "(data.shape[0], 1)")


# ---- round 6: seeded changes of the fourth round as bases: the change itself (break) and its repaired twin (benign) ------------
_S = "seeded/%s/patch.diff"
VP("R6-snapshot-incomplete", ["C03", "C04"], _S % "C04-r4s2", "worker snapshot of the GMM drops map_alpha", kind="break")
VP("R6-snapshot-complete", ["C03", "C04"], _S % "C04-r4s2", "worker snapshot that carries every attribute the kernels read", "gmm", "map_relevance_factor=self.map_relevance_factor)", "map_relevance_factor=self.map_relevance_factor, map_alpha=self.map_alpha)", kind="benign")
VP("R6-ivector-copy-incomplete", ["C10", "C12"], _S % "C10-r4s2", "i-vector worker copy drops variance_floor", kind="break")
VP("R6-ivector-copy-complete", ["C10", "C12"], _S % "C10-r4s2", "i-vector worker copy with the floor", "ivector", "update_sigma=self.update_sigma)", "update_sigma=self.update_sigma, variance_floor=self.variance_floor)", kind="benign")
VP("R6-clusters-gt1", ["C20", "C06"], _S % "C20-r4s2", "clusters with exactly one member in a block are skipped", kind="break")
VP("R6-clusters-gt0", ["C20", "C06"], _S % "C20-r4s2", "only empty clusters are skipped", "kmeans", "counts > 1", "counts > 0", kind="benign")
VP("R6-forward-literal-default", ["C11"], _S % "C11-r4s2", "enroll_using_array forwards iterations=1", kind="break")
VP("R6-forward-none-default", ["C11"], _S % "C11-r4s2", "enroll_using_array forwards iterations=None", "factor_analysis", "def enroll_using_array(self, X, iterations=1):", "def enroll_using_array(self, X, iterations=None):", kind="benign", count=2)
VP("R6-load-setter-order", ["C17"], _S % "C17-r4s1", "load() assigns variances before the floors", kind="break")
VP("R6-load-setter-order-ok", ["C17", "C18"], _S % "C17-r4s1", "load() assigns the floors first", "gmm", "        self.variances = new_self.variances\n        self.variance_thresholds = new_self.variance_thresholds", "        self.variance_thresholds = new_self.variance_thresholds\n        self.variances = new_self.variances", kind="benign")
VP("R6-isinstance-int", ["C18"], _S % "C18-r4s2", "iteration limit honoured only when it is a Python int", kind="break")
VP("R6-isinstance-integral", ["C18", "C03"], _S % "C18-r4s2", "iteration limit test accepts NumPy integers", "gmm", "isinstance(self.max_fitting_steps, int)", "isinstance(self.max_fitting_steps, (int, np.integer))", kind="benign")
VP("R6-acc-dtype-of-means", ["C06"], _S % "C06-r4s2", "accumulator takes the dtype of the centroids", kind="break")
VP("R6-acc-like-means-float", ["C06", "C20"], _S % "C06-r4s2", "accumulator shaped like the centroids, float", "kmeans", "np.zeros_like(means)", "np.zeros_like(means, dtype=float)", kind="benign")
VP("R6-stats-inplace", ["C05", "C02"], _S % "C05-r4s2", "MAP M-step scales the caller's first-order statistics in place", kind="break")
VP("R6-fast-path-ignores-z", ["C07"], _S % "C07-r4s1", "single-session fast path ignores the current offset", kind="break")
VP("R6-lse-combine", ["C01"], _S % "C01-r4s2", "streaming log-sum-exp whose combine step does not rescale", kind="break")
VP("R6-searchsorted-set-order", ["C14"], _S % "C14-r4s1", "binary search in the iteration order of a set", kind="break")
VP("R6-one-pass-covariance", ["C14"], _S % "C14-r4s2", "covariance by X'X - n mu mu'", kind="break")

# ---- rules from the fifth generic mutation sweep ---------------------------------------------------------------------------
V("F5-estep-atleast2d-dropped", ["C02"], "gmm", "    data = np.atleast_2d(data)\n    n_gaussians = len(machine.weights)", "    n_gaussians = len(machine.weights)", "statistics of a single vector count its features as samples (t = n_features)")
V2("F5-update-z-times-sigma", ["C07"], [dict(module="factor_analysis", old="""        dt_inv_sigma = self._D / self.variance_supervector
        dt_inv_sigma_d = dt_inv_sigma * self._D
        for y_i in set(y):
            id_plus_d_prod = self._compute_id_plus_d_prod_i(dt_inv_sigma_d, n_acc[y_i])
            X_i = self._get_statistics_by_class_id(X, y, y_i)
            latent_x_i""", new="""        dt_inv_sigma = self._D * self.variance_supervector
        dt_inv_sigma_d = dt_inv_sigma * self._D
        for y_i in set(y):
            id_plus_d_prod = self._compute_id_plus_d_prod_i(dt_inv_sigma_d, n_acc[y_i])
            X_i = self._get_statistics_by_class_id(X, y, y_i)
            latent_x_i""", count=2)], "update_z and compute_accumulators_D: D * sigma instead of D / sigma - every product still has consistent units because the identity was treated as unit-free")

# ---- round 7: refactorings of the fourth benign round as bases -------------------------------------------------------------
_B4 = "benign/B4%s/patch.diff"
for _k in ("a-1", "a-2", "a-3", "a-4", "b-1", "b-2", "b-3", "b-4", "c-1", "c-2", "c-3", "c-4", "d-1", "d-2", "d-3", "d-4", "e-1", "e-2", "e-3", "e-4", "f-1", "f-2", "f-3", "f-4"):
    VP("R7-B4" + _k, ["C01"], _B4 % _k, "stored refactoring of the fourth benign round")
VP("R7-worker-copy-overrides-alpha", ["C03", "C04"], _B4 % "a-1", "worker copy resets map_alpha", "gmm", "worker.k_means_trainer = None", "worker.k_means_trainer = None\n        worker.map_alpha = 0.5")
VP("R7-namespace-without-floor", ["C10", "C12"], _B4 % "a-2", "parameter namespace lacks the variance floor", "ivector", "update_sigma=machine.update_sigma, variance_floor=machine.variance_floor)", "update_sigma=machine.update_sigma)")
VP("R7-view-without-D", ["C09", "C07"], _B4 % "a-3", "task view lacks D", "factor_analysis", "for name in ('ubm', 'r_U', '_V', '_D'):", "for name in ('ubm', 'r_U', '_V'):")
VP("R7-estep-params-without-logweights", ["C02"], _B4 % "a-4", "frozen E-step parameters lack the log weights", "gmm", "g_norms=self.g_norms, log_weights=self.log_weights)", "g_norms=self.g_norms)")
VP("R7-single-block-shortcut-any-length", ["C04", "C20"], _B4 % "b-3", "single-block shortcut taken for any number of blocks", "kmeans", "if len(stats) == 1 and all(", "if len(stats) >= 1 and all(")
VP("R7-stream-lse-raw-exp", ["C01"], _B4 % "c-1", "streaming log-sum-exp exponentiates raw values", "gmm", "* np.exp(gap)", "* np.exp(low)")
VP("R7-stream-lse-min-reference", ["C01"], _B4 % "c-1", "streaming log-sum-exp keeps the minimum as reference", "gmm", "np.maximum(peak, term), np.minimum(peak, term)", "np.minimum(peak, term), np.maximum(peak, term)")
VP("R7-onehot-masks-ne", ["C06", "C20"], _B4 % "d-2", "one-hot membership by inequality", "kmeans", "membership = closest_centroid_indices == cluster_ids[:, None]", "membership = closest_centroid_indices != cluster_ids[:, None]")
VP("R7-onehot-fixed-row", ["C06"], _B4 % "d-2", "the same mask row for every cluster", "kmeans", "members = data[membership[i]]", "members = data[membership[0]]")
VP("R7-steps-one-short", ["C03"], _B4 % "e-2", "range stops one step early", "gmm", "range(1, int(max_steps) + 1)", "range(1, int(max_steps))")
VP("R7-steps-count-when-capped", ["C03"], _B4 % "e-2", "unbounded counter when a cap is configured", "gmm", "if max_steps is None:", "if max_steps is not None:")

# ---- round 8: seeded changes of the fifth round (typo-level slips that keep the shape of the code) that led to new rules -------
VP("R8-lwl-stack", ["C01"], _S % "C01-r5s1", "np.stack instead of np.vstack: a single vector broadcasts into a (C, C) table", kind="break")
VP("R8-stats-ctor-swapped", ["C02"], _S % "C02-r5s2", "GMMStats(n_features, n_gaussians)", kind="break")
VP("R8-update-z-constant-precision", ["C07", "C09"], _S % "C07-r5s2", "posterior precision of z from 1 / relevance_factor", kind="break")
VP("R8-tile-for-repeat", ["C09"], _S % "C09-r5s1", "per-component counts tiled to supervector length", kind="break")
VP("R8-all-guard", ["C10"], _S % "C10-r5s2", "solve guarded by all(mask)", kind="break")
VP("R8-pool-guard-gt2", ["C11"], _S % "C11-r5s1", "JFA probes of two statistics not pooled", kind="break")
VP("R8-no-evidence-on-alpha", ["C13", "C05"], _S % "C13-r5s2", "no-evidence test on the adaptation coefficient", kind="break")
VP("R8-wccn-scale-n-minus-k", ["C14"], _S % "C14-r5s2", "within-class scatter scaled by N - K", kind="break")
VP("R8-gnorms-shape-of-argument", ["C17"], _S % "C17-r5s2", "normaliser uses the shape of the raw argument", kind="break")
VP("R8-cap-falsy", ["C20", "C03"], _S % "C20-r5s2", "iteration cap 0 treated as no cap", kind="break")
VP("R8-bag-cursor-per-partition", ["C16", "C12"], _S % "C16-r5s2", "label cursor advanced once per partition", kind="break")
VP("R8-floors-alias-prior", ["C19", "C05"], _S % "C19-r5s2", "variance floors of the prior not copied", kind="break")

# ---- round 9: seeded changes of the sixth round (hoisted quantities, state carried between blocks / iterations / calls, dtypes taken
# from the wrong array, orders that differ only for unusual ids) that led to new rules, and benign twins of those rules ------------
VP("R9-int-reciprocal", ["C01"], _S % "C01-r6s2", "np.reciprocal of variances that may be stored as integers", kind="break")
VP("R9-stale-work-buffer", ["C02"], _S % "C02-r6s1", "scratch buffer refilled through a prefix view and read whole", kind="break")
VP("R9-block-count-clamped", ["C04"], _S % "C04-r6s1", "per-block count clamped before pooling", kind="break")
VP("R9-block-bincount-no-minlength", ["C04"], _S % "C04-r6s2", "per-block counts without minlength", kind="break")
VP("R9-mstep-inherits-centroid-dtype", ["C06"], _S % "C06-r6s2", "M-step fills a copy of the previous centroids", kind="break")
VP("R9-offsets-accumulate-over-blocks", ["C08"], _S % "C08-r6s2", "block loop carries the centre from block to block", kind="break")
VP("R9-dprod-constant", ["C09", "C07"], _S % "C09-r6s2", "D' Sigma^-1 D replaced by 1 / relevance_factor in a helper that returns a pair", kind="break")
VP("R9-tct-not-recomputed", ["C10"], _S % "C10-r6s2", "T' Sigma^-1 T computed once when sigma is kept", kind="break")
VP("R9-lengths-of-other-bag", ["C12"], _S % "C12-r6s2", "partition lengths taken from the labels bag", kind="break")
VP("R9-wccn-zeros-like-data", ["C14"], _S % "C14-r6s1", "class means stored into zeros_like(X)", kind="break")
VP("R9-wccn-set-vs-sorted", ["C14", "C16"], _S % "C14-r6s2", "means stacked in set order, read in sorted order", kind="break")
VP("R9-init-centred-data", ["C15", "C20"], _S % "C15-r6s2", "cluster statistics of centred data against uncentred centroids", kind="break")
VP("R9-hidden-fit-state", ["C18"], _S % "C18-r6s2", "convergence state kept on the object between calls", kind="break")
VP("R9-init-means-cast", ["C20"], _S % "C20-r6s1", "initial means cast to the dtype of the data", kind="break")
VP("R9-weights-from-clamped-counts", ["C20"], _S % "C20-r6s2", "weights from clamped counts", kind="break")
V("R9-lwl-reciprocal-raw", ["C01"], "gmm", "(data - machine.means[i]) ** 2 / machine.variances[i]", "(data - machine.means[i]) ** 2 * np.reciprocal(machine.variances[i])", "reciprocal in the dtype the variances are stored in")
V("R9-lwl-reciprocal-float", ["C01"], "gmm", "(data - machine.means[i]) ** 2 / machine.variances[i]", "(data - machine.means[i]) ** 2 * np.reciprocal(machine.variances[i].astype(float))", "reciprocal of an explicitly floating-point copy", kind="benign")
V("R9-lwl-reciprocal-dtype", ["C01"], "gmm", "(data - machine.means[i]) ** 2 / machine.variances[i]", "(data - machine.means[i]) ** 2 * np.reciprocal(machine.variances[i], dtype=float)", "reciprocal with dtype=float", kind="benign")
V("R9-estep-bincount-no-minlength", ["C04", "C06"], "kmeans", "np.bincount(closest_k_indices, minlength=n_clusters)", "np.bincount(closest_k_indices)", "per-block counts as long as the largest label seen")
V("R9-estep-bincount-positional", ["C04", "C06"], "kmeans", "np.bincount(closest_k_indices, minlength=n_clusters)", "np.bincount(closest_k_indices, None, n_clusters)", "minlength passed by position", kind="benign")
V("R9-init-means-float-array", ["C20"], "gmm", "self.means = copy.deepcopy(kmeans_machine.centroids_)", "self.means = np.array(kmeans_machine.centroids_, dtype=float)", "copy spelled np.array(..., dtype=float): the centroids are float64", kind="benign")
V2("R9-dprod-helper-pair", ["C09", "C07"], [dict(module="factor_analysis", old="        dt_inv_sigma = self._D / self.variance_supervector\n        dt_inv_sigma_d = dt_inv_sigma * self._D\n", new="        dt_inv_sigma, dt_inv_sigma_d = self._compute_dprod()\n", count=2), dict(module="factor_analysis", old="    def _compute_id_plus_d_prod_i(self", new="    def _compute_dprod(self):\n        dt_inv_sigma = self._D / self.variance_supervector\n        return (dt_inv_sigma, dt_inv_sigma * self._D)\n\n    def _compute_id_plus_d_prod_i(self")], "the two D products computed by a helper that returns them as a pair", kind="benign")
V2("R9-dprod-helper-pair-swapped", ["C09", "C07"], [dict(module="factor_analysis", old="        dt_inv_sigma = self._D / self.variance_supervector\n        dt_inv_sigma_d = dt_inv_sigma * self._D\n", new="        dt_inv_sigma, dt_inv_sigma_d = self._compute_dprod()\n", count=2), dict(module="factor_analysis", old="    def _compute_id_plus_d_prod_i(self", new="    def _compute_dprod(self):\n        dt_inv_sigma = self._D / self.variance_supervector\n        return (dt_inv_sigma, np.full_like(dt_inv_sigma, 1.0 / self.relevance_factor))\n\n    def _compute_id_plus_d_prod_i(self")], "the helper returns a constant for D' Sigma^-1 D")

# ---- sixth generic sweep (seed 6): the two semantic survivors ----------------------------------------------------------------------
V("F6-iv-count-subtracted", ["C10"], "ivector", "stats.nij = stats.nij + Nij", "stats.nij = stats.nij - Nij", "the sample's counts are subtracted from the accumulator")
V("F6-iv-sigma-plus", ["C10"], "ivector", "(stats.snormij - fnorm_sigma_wij_tt)", "(stats.snormij + fnorm_sigma_wij_tt)", "the part explained by T is added to the centred second-order statistics")
V("F6-iv-sigma-neg-form", ["C10"], "ivector", "(stats.snormij - fnorm_sigma_wij_tt)", "(-fnorm_sigma_wij_tt + stats.snormij)", "same difference, other order", kind="benign")
