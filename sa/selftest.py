"""Checker validation (DESIGN section 6): in-memory variants of the *current* sources.

Every variant is an edit of one module, expressed on the ast.unparse-normalised text of
the working tree (so it survives reformatting of /repo).  `break` variants must make the
property's check report a VIOLATION; `benign` twins must leave it silent.  A variant whose
locator no longer matches the tree is skipped and reported (an unrelated edit in /repo must
not break the check); a located `break` variant that stays silent is lost sensitivity and
ends the thorough run with ANALYSIS-ERROR.
"""
from __future__ import annotations

import ast
import json
import os
from concurrent.futures import ProcessPoolExecutor

from .frontend import load_sources


def normalised(sources):
    return {m: ast.unparse(ast.parse(s)) for m, s in sources.items()}


def apply_unified_diff(files, diff_text):
    """Applies a git-style unified diff to {path suffix -> text}; returns {module name -> new text} or None when a hunk does not
    fit.  Pure text manipulation, nothing is executed."""
    import re

    out = {}
    cur, hunks = None, {}
    for line in diff_text.splitlines():
        if line.startswith("+++ "):
            cur = line[4:].strip()
            cur = cur[2:] if cur.startswith("b/") else cur
            hunks[cur] = []
        elif line.startswith("@@") and cur is not None:
            m = re.match(r"@@ -(\d+)(?:,(\d+))? \+(\d+)(?:,(\d+))? @@", line)
            hunks[cur].append([int(m.group(1)), []])
        elif cur is not None and hunks.get(cur) and (line[:1] in (" ", "+", "-") or line == ""):
            if line.startswith("--- ") or line.startswith("diff "):
                continue
            hunks[cur][-1][1].append(line if line else " ")
    for path, hs in hunks.items():
        mod = os.path.splitext(os.path.basename(path))[0]
        if mod not in files:
            return None
        lines = files[mod].split("\n")
        shift = 0
        for start, body in hs:
            old = [l[1:] for l in body if l[:1] in (" ", "-")]
            new = [l[1:] for l in body if l[:1] in (" ", "+")]
            pos = None
            for d in range(0, 60):
                for cand in (start - 1 + shift + d, start - 1 + shift - d):
                    if 0 <= cand <= len(lines) - len(old) and lines[cand:cand + len(old)] == old:
                        pos = cand
                        break
                if pos is not None:
                    break
            if pos is None:
                return None
            lines[pos:pos + len(old)] = new
            shift += len(new) - len(old)
        out[mod] = "\n".join(lines)
    return out


def apply_variant(norm_sources, v):
    """Returns new sources or None when the locator does not match."""
    out = dict(norm_sources)
    if v.get("patch"):
        # a stored, independently verified refactoring as the base: applied to the raw sources, then normalised
        from .frontend import load_sources

        raw = load_sources()
        try:
            with open(os.path.join(os.path.dirname(os.path.dirname(os.path.abspath(__file__))), v["patch"])) as fh:
                patched = apply_unified_diff(raw, fh.read())
        except OSError:
            patched = None
        if patched is None:
            return None
        for m, t in patched.items():
            try:
                out[m] = ast.unparse(ast.parse(t))
            except SyntaxError:
                return None
        if not v.get("edits") and not v.get("old"):
            return out
    edits = v.get("edits") or [{"module": v["module"], "old": v["old"], "new": v["new"], "count": v.get("count", 1)}]
    for e in edits:
        s = out[e["module"]]
        old = e["old"]
        n = s.count(old)
        if n == 0 or (e.get("count", 1) != "all" and n != e.get("count", 1)):
            return None
        out[e["module"]] = s.replace(old, e["new"])
        try:
            ast.parse(out[e["module"]])
        except SyntaxError:
            return None
    return out


def alpha_rename(text, suffix="_r"):
    """Behaviour-preserving twin: every local variable of every function (names bound by assignment, loops,
    comprehensions, `with`; never parameters, globals or attribute names) gets a new name.  A rule that
    recognises a construct by the name of a local fires on this twin - which the self-test treats as a
    false alarm."""
    tree = ast.parse(text)

    def do_func(fn):
        excl = set()
        stored = set()
        for n in ast.walk(fn):
            if isinstance(n, (ast.FunctionDef, ast.Lambda)):
                a = n.args
                for x in a.posonlyargs + a.args + a.kwonlyargs + ([a.vararg] if a.vararg else []) + ([a.kwarg] if a.kwarg else []):
                    excl.add(x.arg)
                if isinstance(n, ast.FunctionDef):
                    excl.add(n.name)
            elif isinstance(n, (ast.Global, ast.Nonlocal)):
                excl.update(n.names)
            elif isinstance(n, ast.Name) and isinstance(n.ctx, (ast.Store, ast.Del)):
                stored.add(n.id)
            elif isinstance(n, (ast.Import, ast.ImportFrom)):
                for al in n.names:
                    excl.add((al.asname or al.name).split(".")[0])
            elif isinstance(n, ast.ExceptHandler) and n.name:
                excl.add(n.name)
        ren = {x for x in stored - excl if not x.startswith("__")}
        for n in ast.walk(fn):
            if isinstance(n, ast.Name) and n.id in ren:
                n.id = n.id + suffix

    def visit(node):
        for ch in ast.iter_child_nodes(node):
            if isinstance(ch, ast.FunctionDef):
                do_func(ch)
            elif isinstance(ch, ast.ClassDef):
                visit(ch)

    visit(tree)
    return ast.unparse(tree)


def _run_one(args):
    pid, vid, sources = args
    from .check import run_property

    code, R = run_property(pid, "quick", sources=sources, write=False, quiet=True)
    viol = [o.as_dict() for o in R.obs if o.verdict == "violation"]
    return vid, code, viol[:3], R.errors[:2]


def variants_for(pid):
    from .variants import VARIANTS

    return [v for v in VARIANTS if pid in v["props"]]


def run_selftest(pid, R=None, jobs=None, verbose=True):
    base = normalised(load_sources())
    vs = [v for v in variants_for(pid) if v["kind"] != "skip"]
    tasks, skipped = [], []
    for v in vs:
        srcs = apply_variant(base, v)
        if srcs is None:
            skipped.append(v["id"])
            continue
        tasks.append((pid, v["id"], srcs))
    # the normalised, unmodified tree must be silent too (unparse round trip changes nothing the rules see)
    tasks.append((pid, "<normalised-tree>", base))
    # ... and so must the tree with every local variable renamed (no rule may hang on the name of a local)
    tasks.append((pid, "<locals-renamed>", {m: alpha_rename(t) for m, t in base.items()}))
    # ... and the trees produced by the mechanical behaviour-preserving rewrites (sa/refuzz.py), each applied to the whole package
    from . import refuzz as _rf

    for op in _rf.OPS:
        srcs = {}
        for m, t in base.items():
            try:
                srcs[m] = _rf.apply(t, op)[0] if m in _rf.MODS else t
            except Exception:
                srcs[m] = t
        tasks.append((pid, f"<rewritten:{op}>", srcs))
    results = {}
    jobs = jobs or min(16, max(1, len(tasks)))
    with ProcessPoolExecutor(max_workers=jobs) as ex:
        for vid, code, viol, errs in ex.map(_run_one, tasks):
            results[vid] = (code, viol, errs)
    fired, silent, lost, false_alarm, errors = [], [], [], [], []
    byid = {v["id"]: v for v in vs}
    for vid, (code, viol, errs) in results.items():
        if vid in ("<normalised-tree>", "<locals-renamed>") or vid.startswith("<rewritten:"):
            if code != 0:
                false_alarm.append((vid, code, viol, errs))
            continue
        v = byid[vid]
        if v["kind"] == "break":
            if code == 1:
                fired.append(vid)
            else:
                lost.append((vid, code, errs))
        else:
            if code == 0:
                silent.append(vid)
            elif code == 2 and v.get("may_be_undecided"):
                silent.append(vid)
            else:
                false_alarm.append((vid, code, viol, errs))
    if verbose:
        print(f"self-test {pid}: {len(fired)} break variants fired, {len(silent)} benign twins silent, {len(skipped)} skipped (locator drift), {len(lost)} lost, {len(false_alarm)} false alarms")
        for vid, code, errs in lost:
            print(f"  LOST SENSITIVITY: variant {vid} ({byid[vid]['descr']}) gave exit {code} {errs}")
        for vid, code, viol, errs in false_alarm:
            print(f"  FALSE ALARM: benign variant {vid} gave exit {code}: {viol} {errs}")
        for s in skipped:
            print(f"  skipped: {s}")
    rc = 0
    if lost or false_alarm:
        for vid, code, errs in lost:
            print(f"ANALYSIS-ERROR property={pid} reason=self-test: break variant {vid} not reported (exit {code})")
        for vid, code, viol, errs in false_alarm:
            print(f"ANALYSIS-ERROR property={pid} reason=self-test: benign variant {vid} reported (exit {code})")
        rc = 2
    if R is not None:
        R.extra["selftest"] = {
            "break_variants_fired": len(fired),
            "benign_twins_silent": len(silent),
            "skipped_locator_drift": skipped,
            "lost": [x[0] for x in lost],
            "false_alarms": [x[0] for x in false_alarm],
            "fired_ids": fired,
            "silent_ids": silent,
        }
        R.t0 = R.t0  # wall time includes the self-test
        R.quiet = True
        R.finish(write=True)
    return rc


def main():
    import sys

    pids = sys.argv[1:] or [f"C{i:02d}" for i in range(1, 21)]
    worst = 0
    for p in pids:
        worst = max(worst, run_selftest(p))
    return worst


if __name__ == "__main__":
    raise SystemExit(main())
