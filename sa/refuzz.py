"""Benign sweep: mechanical, behaviour-preserving rewrites of the current sources; every check must stay silent.

Not a registered check.  Operators (each preserves the semantics of any Python program in which it applies):
  lc2loop   `x = [elt for t in it if c]`            ->  `_acc = []` / `for t' in it: if c: _acc.append(elt')` / `x = _acc`   (fresh loop variables)
  ifexp     `x = a if c else b` / `return a if c else b`  ->  if c: x = a / else: x = b
  swaparms  `if c: A else: B`                        ->  `if not (c): B else: A`
  temps     `x = f(g(y), ...)`                        ->  `_t = g(y)` / `x = f(_t, ...)`            (first nested call argument, left-to-right order kept)
  rename    every local renamed (selftest.alpha_rename)
Each operator is applied (a) to the whole package at once and (b) to one function at a time; all twenty quick checks run on every
resulting tree.  A check that leaves exit 0 on such a tree recognises a spelling, not a structure.

usage: python3-vt -m sa.refuzz [whole|perfunc] [operator ...]      -> notes/refuzz_report.json
"""
from __future__ import annotations

import ast

from .astclone import clone as _clone
import copy
import json
import os
import sys
from concurrent.futures import ProcessPoolExecutor

from .frontend import load_sources
from .selftest import alpha_rename

ALL = [f"C{i:02d}" for i in range(1, 21)]
MODS = ["gmm", "kmeans", "utils", "linear_scoring", "factor_analysis", "ivector", "wccn", "whitening"]


class _Ren(ast.NodeTransformer):
    def __init__(self, m):
        self.m = m

    def visit_Name(self, n):
        if n.id in self.m:
            return ast.copy_location(ast.Name(id=self.m[n.id], ctx=n.ctx), n)
        return n


def _fresh(prefix, counter):
    counter[0] += 1
    return f"_{prefix}{counter[0]}"


def op_lc2loop(fn, counter):
    changed = 0

    def rewrite(body):
        nonlocal changed
        out = []
        for st in body:
            for fld in ("body", "orelse", "finalbody"):
                if isinstance(getattr(st, fld, None), list) and not isinstance(st, (ast.FunctionDef, ast.ClassDef)):
                    setattr(st, fld, rewrite(getattr(st, fld)))
            if isinstance(st, ast.Try):
                for h in st.handlers:
                    h.body = rewrite(h.body)
            if isinstance(st, ast.Assign) and len(st.targets) == 1 and isinstance(st.targets[0], (ast.Name, ast.Attribute)) and isinstance(st.value, ast.ListComp) and len(st.value.generators) == 1 and not st.value.generators[0].is_async:
                lc = st.value
                g = lc.generators[0]
                # a walrus inside the comprehension binds in the enclosing scope either way; nested comprehensions keep their own scope
                tnames = [n.id for n in ast.walk(g.target) if isinstance(n, ast.Name)]
                m = {t: _fresh(t + "_lv", counter) for t in tnames}
                acc = _fresh("acc", counter)
                ren = _Ren(m)
                tgt = ren.visit(_clone(g.target))
                for n in ast.walk(tgt):
                    if isinstance(n, ast.Name):
                        n.ctx = ast.Store()
                elt = ren.visit(_clone(lc.elt))
                inner = [ast.Expr(ast.Call(func=ast.Attribute(value=ast.Name(id=acc, ctx=ast.Load()), attr="append", ctx=ast.Load()), args=[elt], keywords=[]))]
                for c in reversed(g.ifs):
                    inner = [ast.If(test=ren.visit(_clone(c)), body=inner, orelse=[])]
                out.append(ast.Assign(targets=[ast.Name(id=acc, ctx=ast.Store())], value=ast.List(elts=[], ctx=ast.Load())))
                out.append(ast.For(target=tgt, iter=g.iter, body=inner, orelse=[]))
                out.append(ast.Assign(targets=st.targets, value=ast.Name(id=acc, ctx=ast.Load())))
                changed += 1
            else:
                out.append(st)
        return out

    fn.body = rewrite(fn.body)
    return changed


def op_ifexp(fn, counter):
    changed = 0

    def rewrite(body):
        nonlocal changed
        out = []
        for st in body:
            for fld in ("body", "orelse", "finalbody"):
                if isinstance(getattr(st, fld, None), list) and not isinstance(st, (ast.FunctionDef, ast.ClassDef)):
                    setattr(st, fld, rewrite(getattr(st, fld)))
            if isinstance(st, ast.Try):
                for h in st.handlers:
                    h.body = rewrite(h.body)
            if isinstance(st, ast.Assign) and len(st.targets) == 1 and isinstance(st.targets[0], (ast.Name, ast.Attribute)) and isinstance(st.value, ast.IfExp):
                v = st.value
                out.append(ast.If(test=v.test, body=[ast.Assign(targets=_clone(st.targets), value=v.body)], orelse=[ast.Assign(targets=_clone(st.targets), value=v.orelse)]))
                changed += 1
            elif isinstance(st, ast.Return) and isinstance(st.value, ast.IfExp):
                v = st.value
                out.append(ast.If(test=v.test, body=[ast.Return(value=v.body)], orelse=[ast.Return(value=v.orelse)]))
                changed += 1
            else:
                out.append(st)
        return out

    fn.body = rewrite(fn.body)
    return changed


def op_swaparms(fn, counter):
    changed = 0
    for n in ast.walk(fn):
        if isinstance(n, ast.If) and n.orelse and not any(isinstance(x, (ast.FunctionDef, ast.ClassDef)) for x in [n]):
            # keep elif chains as they are (the orelse is a single If): swapping them is valid but unidiomatic
            if len(n.orelse) == 1 and isinstance(n.orelse[0], ast.If):
                continue
            t = n.test
            n.test = t.operand if isinstance(t, ast.UnaryOp) and isinstance(t.op, ast.Not) else ast.UnaryOp(op=ast.Not(), operand=t)
            n.body, n.orelse = n.orelse, n.body
            changed += 1
    return changed


def op_temps(fn, counter):
    changed = 0

    def rewrite(body):
        nonlocal changed
        out = []
        for st in body:
            for fld in ("body", "orelse", "finalbody"):
                if isinstance(getattr(st, fld, None), list) and not isinstance(st, (ast.FunctionDef, ast.ClassDef)):
                    setattr(st, fld, rewrite(getattr(st, fld)))
            if isinstance(st, ast.Try):
                for h in st.handlers:
                    h.body = rewrite(h.body)
            if isinstance(st, ast.Assign) and isinstance(st.value, ast.Call) and st.value.args and isinstance(st.value.args[0], ast.Call) and not isinstance(st.value.func, ast.Call):
                # only the *first* positional argument, and only when the callee expression is a plain name / attribute chain of names
                # (evaluating it has no effect), so the order of evaluation is unchanged
                f_ = st.value.func
                plain = True
                x = f_
                while isinstance(x, ast.Attribute):
                    x = x.value
                plain = isinstance(x, ast.Name)
                if plain:
                    t = _fresh("t", counter)
                    out.append(ast.Assign(targets=[ast.Name(id=t, ctx=ast.Store())], value=st.value.args[0]))
                    st.value.args[0] = ast.Name(id=t, ctx=ast.Load())
                    changed += 1
            out.append(st)
        return out

    fn.body = rewrite(fn.body)
    return changed


def _blocks(fn):
    """Every statement list of the function (not of nested defs), for in-place rewriting."""
    out = []

    def rec(node):
        for fld in ("body", "orelse", "finalbody"):
            blk = getattr(node, fld, None)
            if isinstance(blk, list) and blk and isinstance(blk[0], ast.stmt):
                out.append((node, fld))
                for st in blk:
                    if not isinstance(st, (ast.FunctionDef, ast.ClassDef, ast.AsyncFunctionDef)):
                        rec(st)
        if isinstance(node, ast.Try):
            for h in node.handlers:
                rec(h)

    rec(fn)
    return out


def _pure_leaf(e):
    x = e
    while isinstance(x, (ast.Attribute, ast.Subscript)):
        if isinstance(x, ast.Subscript) and not isinstance(x.slice, (ast.Constant, ast.Name, ast.Slice, ast.Tuple)):
            return False
        x = x.value
    return isinstance(x, (ast.Name, ast.Constant))


def op_temps2(fn, counter):
    """`x = a op <compound>` with a a plain access path -> `_t = <compound>` / `x = a op _t`"""
    changed = 0
    for node, fld in _blocks(fn):
        blk, out = getattr(node, fld), []
        for st in blk:
            if isinstance(st, ast.Assign) and isinstance(st.value, ast.BinOp) and _pure_leaf(st.value.left) and isinstance(st.value.right, (ast.BinOp, ast.Call)) and not any(isinstance(x, (ast.NamedExpr, ast.Lambda, ast.ListComp, ast.GeneratorExp)) for x in ast.walk(st.value)):
                t = _fresh("s", counter)
                out.append(ast.Assign(targets=[ast.Name(id=t, ctx=ast.Store())], value=st.value.right))
                st.value.right = ast.Name(id=t, ctx=ast.Load())
                changed += 1
            out.append(st)
        setattr(node, fld, out)
    return changed


def op_rettemp(fn, counter):
    """`return <expr>` -> `_r = <expr>` / `return _r`"""
    changed = 0
    for node, fld in _blocks(fn):
        blk, out = getattr(node, fld), []
        for st in blk:
            if isinstance(st, ast.Return) and st.value is not None and not isinstance(st.value, (ast.Name, ast.Constant)):
                t = _fresh("r", counter)
                out.append(ast.Assign(targets=[ast.Name(id=t, ctx=ast.Store())], value=st.value))
                st.value = ast.Name(id=t, ctx=ast.Load())
                changed += 1
            out.append(st)
        setattr(node, fld, out)
    return changed


def op_splitand(fn, counter):
    """`if a and b: S` (no else) -> `if a:` / `    if b: S`"""
    changed = 0
    for n in ast.walk(fn):
        if isinstance(n, ast.If) and not n.orelse and isinstance(n.test, ast.BoolOp) and isinstance(n.test.op, ast.And) and len(n.test.values) == 2:
            a, b = n.test.values
            n.test = a
            n.body = [ast.If(test=b, body=n.body, orelse=[])]
            changed += 1
    return changed


def op_tuplesplit(fn, counter):
    """`a, b = e1, e2` with independent sides -> `a = e1` / `b = e2`"""
    changed = 0
    for node, fld in _blocks(fn):
        blk, out = getattr(node, fld), []
        for st in blk:
            if isinstance(st, ast.Assign) and len(st.targets) == 1 and isinstance(st.targets[0], ast.Tuple) and isinstance(st.value, ast.Tuple) and len(st.targets[0].elts) == len(st.value.elts) and all(isinstance(t, ast.Name) for t in st.targets[0].elts):
                names = {t.id for t in st.targets[0].elts}
                if not any(isinstance(x, ast.Name) and x.id in names for v in st.value.elts for x in ast.walk(v)):
                    for t, v in zip(st.targets[0].elts, st.value.elts):
                        out.append(ast.Assign(targets=[t], value=v))
                    changed += 1
                    continue
            out.append(st)
        setattr(node, fld, out)
    return changed


OPS = {"lc2loop": op_lc2loop, "ifexp": op_ifexp, "swaparms": op_swaparms, "temps": op_temps, "temps2": op_temps2, "rettemp": op_rettemp, "splitand": op_splitand, "tuplesplit": op_tuplesplit}


def functions_of(tree):
    out = []
    for n in tree.body:
        if isinstance(n, ast.FunctionDef):
            out.append(n)
        elif isinstance(n, ast.ClassDef):
            out += [m for m in n.body if isinstance(m, ast.FunctionDef)]
    return out


def apply(text, op, only=None):
    """-> (new text, number of sites rewritten)"""
    if op == "rename":
        new = alpha_rename(text)
        return new, int(new != text)
    tree = ast.parse(text)
    counter = [0]
    n = 0
    for fn in functions_of(tree):
        if only is not None and fn.name != only:
            continue
        n += OPS[op](fn, counter)
    ast.fix_missing_locations(tree)
    new = ast.unparse(tree)
    ast.parse(new)
    return new, n


def _run(args):
    label, srcs = args
    from . import dataflow
    from .check import run_property
    from .engines import dimrun

    out = {}
    for pid in ALL:
        dataflow._DU_CACHE.clear()
        dimrun._CACHE.clear()
        try:
            code, R = run_property(pid, "quick", sources=srcs, write=False, quiet=True)
            if code != 0:
                out[pid] = {"exit": code, "violations": [f"{o.rule} {o.where} `{o.what[:60]}`" for o in R.obs if o.verdict == "violation"][:3], "errors": [e[:200] for e in R.errors[:2]]}
        except Exception as e:  # pragma: no cover
            out[pid] = {"exit": 3, "errors": [repr(e)]}
    return label, out


def main():
    mode = sys.argv[1] if len(sys.argv) > 1 else "whole"
    ops = sys.argv[2:] or list(OPS) + ["rename"]
    base = {m: ast.unparse(ast.parse(s)) for m, s in load_sources().items()}
    tasks = []
    for op in ops:
        if mode == "whole":
            srcs, tot = dict(base), 0
            for m in MODS:
                srcs[m], n = apply(base[m], op)
                tot += n
            tasks.append((f"{op}: whole package ({tot} sites)", srcs))
        else:
            for m in MODS:
                for fn in functions_of(ast.parse(base[m])):
                    new, n = apply(base[m], op, only=fn.name)
                    if n and new != base[m]:
                        srcs = dict(base)
                        srcs[m] = new
                        tasks.append((f"{op}: {m}:{fn.name} ({n} sites)", srcs))
    res = []
    with ProcessPoolExecutor(max_workers=16) as ex:
        for r in ex.map(_run, tasks, chunksize=1):
            res.append(r)
    bad = [(l, o) for l, o in res if o]
    os.makedirs("notes", exist_ok=True)
    with open("notes/refuzz_report.json", "w") as fh:
        json.dump({"mode": mode, "operators": ops, "trees": len(res), "not_silent": [{"tree": l, "checks": o} for l, o in bad]}, fh, indent=1)
    print(f"benign sweep ({mode}): {len(res)} rewritten trees, {len(bad)} on which some check left exit 0")
    for l, o in bad[:40]:
        print("  NOT SILENT", l)
        for pid, d in o.items():
            print("     ", pid, "exit", d["exit"], (d.get("violations") or d.get("errors"))[:2])
    return 1 if bad else 0


if __name__ == "__main__":
    sys.exit(main())
