"""Debug helper: print the ast.unparse-normalised text of a function (for writing variants).
`python3-vt -m sa.show <module:qualname>` prints the text as variant locators see it (before canonicalisation);
`python3-vt -m sa.show --canon <module:qualname>` prints the canonical form the rules analyse."""
import ast, os, sys

args = sys.argv[1:]
if args and args[0] == "--canon":
    args = args[1:]
else:
    os.environ["SA_SHOW_RAW"] = "1"
from .frontend import Program  # noqa: E402

P = Program()
for key in args:
    f = P.func(key)
    print(ast.unparse(f.node))
    print()
