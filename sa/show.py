"""Debug helper: print the ast.unparse-normalised text of a function (for writing variants)."""
import ast, sys
from .frontend import Program
P = Program()
for key in sys.argv[1:]:
    f = P.func(key)
    print(ast.unparse(f.node))
    print()
