"""Declared types for the DIM engine: the oracle.  Every line is the transformation law of an
observable under x -> a*x (C15), its extensiveness (C02/C04/C06) or its log-scale (C01), as the
properties state them; shapes are those documented in the docstrings of the package.

mini-language (sa.engines.dim.parse_type):  U<p> | U<q>d   S   K<p>   LOG   1   *   [axes]   obj:<Class>   list:<axis>:<type>
                                             tuple:<t>|<t>   count:<axis>   ?   none
axes: N samples, C components/clusters, D features, F = C*D flattened, K test items, M models, T i-vector dim,
      R subspace rank, B blocks, L labels
"""

ATTRS = {
    # ---- GMMMachine ------------------------------------------------------------------------------
    "GMMMachine.means": "U eqv [C,D]", "GMMMachine._means": "U eqv [C,D]",
    "GMMMachine.variances": "U2 inv [C,D]", "GMMMachine._variances": "U2 inv [C,D]",
    "GMMMachine.variance_thresholds": "*", "GMMMachine._variance_thresholds": "*",
    "GMMMachine.weights": "1 inv [C]", "GMMMachine._weights": "1 inv [C]",
    "GMMMachine.log_weights": "LOG inv [C]", "GMMMachine._log_weights": "LOG inv [C]",
    "GMMMachine.g_norms": "LOG U2d c2pi inv [C]", "GMMMachine._g_norms": "LOG U2d c2pi inv [C]",
    "GMMMachine.n_gaussians": "count:C", "GMMMachine.ubm": "obj:GMMMachine",
    "GMMMachine.mean_var_update_threshold": "*", "GMMMachine.map_alpha": "*", "GMMMachine.map_relevance_factor": "*",
    "GMMMachine.update_means": "?", "GMMMachine.update_variances": "?", "GMMMachine.update_weights": "?", "GMMMachine.trainer": "?",
    "GMMMachine.convergence_threshold": "*", "GMMMachine.max_fitting_steps": "*", "GMMMachine.random_state": "?", "GMMMachine.k_means_trainer": "obj:KMeansMachine",
    # ---- GMMStats ----------------------------------------------------------------------------------
    "GMMStats.t": "S []", "GMMStats.n": "S [C]", "GMMStats.sum_px": "U S [C,D]", "GMMStats.sum_pxx": "U2 S [C,D]",
    "GMMStats.log_likelihood": "LOG U-d S []", "GMMStats.n_gaussians": "count:C", "GMMStats.n_features": "count:D",
    # ---- KMeansMachine -----------------------------------------------------------------------------
    "KMeansMachine.centroids_": "U eqv [C,D]", "KMeansMachine.average_min_distance": "U2 []", "KMeansMachine.n_clusters": "count:C",
    "KMeansMachine.max_iter": "*", "KMeansMachine.convergence_threshold": "*", "KMeansMachine.init_method": "?", "KMeansMachine.random_state": "?",
    "KMeansMachine.init_max_iter": "?", "KMeansMachine.oversampling_factor": "?",
    # ---- IVector -------------------------------------------------------------------------------------
    "IVectorMachine.T": "U [C,D,T]", "IVectorMachine.sigma": "U2 [C,D]", "IVectorMachine.ubm": "obj:GMMMachine",
    "IVectorMachine.variance_floor": "*", "IVectorMachine.dim_c": "count:C", "IVectorMachine.dim_d": "count:D", "IVectorMachine.dim_t": "count:T",
    "IVectorMachine.update_sigma": "?", "IVectorMachine.max_iterations": "*",
    "IVectorStats.nij_sigma_wij2": "S [C,T,T]", "IVectorStats.fnorm_sigma_wij": "U S [C,D,T]", "IVectorStats.snormij": "U2 S [C,D]", "IVectorStats.nij": "S [C]",
    "IVectorStats.dim_c": "count:C", "IVectorStats.dim_d": "count:D", "IVectorStats.dim_t": "count:T",
    # ---- factor analysis -------------------------------------------------------------------------------
    "FactorAnalysisBase._U": "U [F,R]", "FactorAnalysisBase._V": "U [F,R]", "FactorAnalysisBase._D": "U [F]",
    "FactorAnalysisBase.ubm": "obj:GMMMachine", "FactorAnalysisBase.r_U": "count:R", "FactorAnalysisBase.r_V": "count:R",
    "FactorAnalysisBase.relevance_factor": "*", "FactorAnalysisBase.em_iterations": "*", "FactorAnalysisBase.enroll_iterations": "*", "FactorAnalysisBase.random_state": "?",
    # ---- linear transforms -------------------------------------------------------------------------------
    "WCCN.weights": "U-1 K0.5 S-0.5 inv", "WCCN.input_subtract": "*", "WCCN.input_divide": "*", "WCCN.pinv": "?",
    "Whitening.weights": "U-1 inv", "Whitening.input_subtract": "U", "Whitening.input_divide": "*", "Whitening.pinv": "?",
}

RETURNS = {
    "gmm:log_weighted_likelihood": "LOG U-d -halfc2pi inv [C,N]",
    "gmm:log_likelihood": "LOG U-d -halfc2pi inv [N]",
    "gmm:reduce_loglikelihood": "LOG U-d -halfc2pi [N]",
    "kmeans:get_centroids_distance": "U2 inv [C,N]",
    "kmeans:e_step": "tuple:S [C]|U S [C,D]|U2 S inv []",
    "kmeans:m_step": "tuple:U [C,D]|U2 []",
    "kmeans:reduce_indices_means_vars": "tuple:U2 [C,D]|1 [C]",
    "kmeans:KMeansMachine.get_variances_and_weights_for_each_cluster": "tuple:U2 [C,D]|1 [C]",
}

PARAMS = {
    # sizes a constructor is given: which axis each one counts (checked at every construction site: COUNT.args)
    "gmm:GMMStats.__init__.n_gaussians": "count:C", "gmm:GMMStats.__init__.n_features": "count:D",
    "ivector:IVectorStats.__init__.dim_c": "count:C", "ivector:IVectorStats.__init__.dim_d": "count:D", "ivector:IVectorStats.__init__.dim_t": "count:T",
}

DECLS = {"attrs": ATTRS, "returns": RETURNS, "params": PARAMS}
