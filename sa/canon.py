"""Canonical form of a module before analysis: equivalent spellings of the same computation are reduced to one.

Every rewrite preserves the semantics of the program (for the data-flow and structural facts the rules use), so analysing the
canonical tree is as sound as analysing the original; it only removes the dependence of rules on a spelling.  Line numbers of the
original nodes are kept, so reports still point into the source.

  N1  `if not c: A else: B`                      ->  `if c: B else: A`          (also `a if not c else b` -> `b if c else a`)
  N2  `if c: T = a` / `else: T = b`               ->  `T = a if c else b`         (same single target in both arms, nothing else in the arms)
  N3  `acc = []` + `for t in it: [if c:] acc.append(e)`  ->  `acc = [e for t in it if c]`   (adjacent statements; the body is that one append;
      the loop variables are not read after the loop)
  N4  `t = <expr>` + next statement uses `t` exactly once, and `t` is used nowhere else in the function   ->  the expression is substituted
      (only for names that are assigned exactly once in the function and are not parameters)
  N4a `t = E` + `x = t` (pure alias of a temporary assigned once and read once)   ->  `x = E`
  N5  `return a if c else b` stays; `if c: return a` / `else: return b`   ->  `return a if c else b`
"""
from __future__ import annotations

import ast

from .astclone import clone as _clone
import copy


# Normal form for intermediate values: the result of a call *into the package* (a method of one of the module's classes, a module-level
# function, a name imported from a sibling module, also wrapped in dask.delayed) is always bound to a name (N7 extracts such calls
# from argument positions); every other temporary that is assigned once and read once, in the next statement, is substituted (N4).
# Reports quote the canonical expression with the line number of the original statement.
ENABLE_N4 = True


def _names_loaded(node):
    return [n for n in ast.walk(node) if isinstance(n, ast.Name) and isinstance(n.ctx, ast.Load)]


def _is_empty_list(v):
    return (isinstance(v, ast.List) and not v.elts) or (isinstance(v, ast.Call) and isinstance(v.func, ast.Name) and v.func.id == "list" and not v.args and not v.keywords)


_MUTATORS = {"append", "extend", "insert", "update", "add", "setdefault", "sort", "fill", "pop", "remove", "clear", "resize", "put", "discard", "reverse", "itemset", "partition"}


def _leaf(e):
    x = e
    while isinstance(x, (ast.Attribute, ast.Subscript, ast.Starred)):
        x = x.value
    return isinstance(x, (ast.Name, ast.Constant))


def _strip_not(test):
    neg = False
    while isinstance(test, ast.UnaryOp) and isinstance(test.op, ast.Not):
        test, neg = test.operand, not neg
    return test, neg


class _Canon:
    def __init__(self, fn, internal=()):
        self.fn = fn
        self.internal = set(internal)
        self.k = 0

    def is_internal_call(self, e):
        if not isinstance(e, ast.Call):
            return False
        f = e.func
        if isinstance(f, ast.Call):  # dask.delayed(f)(...)
            return bool(f.args) and (isinstance(f.args[0], ast.Name) and f.args[0].id in self.internal or isinstance(f.args[0], ast.Attribute) and f.args[0].attr in self.internal)
        if isinstance(f, ast.Name):
            return f.id in self.internal
        if isinstance(f, ast.Attribute):
            return f.attr in self.internal and isinstance(f.value, ast.Name)
        return False

    def n7(self, body):
        """Calls into the package that stand in an argument position of another call are bound to a name first."""
        out = []
        for st in body:
            call = None
            if isinstance(st, (ast.Assign, ast.AugAssign, ast.Expr, ast.Return)) and isinstance(getattr(st, "value", None), ast.Call):
                call = st.value
            if call is not None and not isinstance(call.func, ast.Call):
                slots = [("a", i, a) for i, a in enumerate(call.args)] + [("k", i, k.value) for i, k in enumerate(call.keywords)]
                inner = [(kind, i, a) for kind, i, a in slots if self.is_internal_call(a)]
                others_pure = all(self.is_internal_call(a) or _leaf(a) for kind, i, a in slots)
                if inner and others_pure and _leaf(call.func):
                    for kind, i, a in inner:
                        self.k += 1
                        t = f"_n{self.k}"
                        out.append(ast.copy_location(ast.Assign(targets=[ast.Name(id=t, ctx=ast.Store())], value=a), st))
                        ref = ast.copy_location(ast.Name(id=t, ctx=ast.Load()), a)
                        if kind == "a":
                            call.args[i] = ref
                        else:
                            call.keywords[i].value = ref
            out.append(st)
        return out

    _BIN = {"add": ast.Add, "subtract": ast.Sub, "multiply": ast.Mult, "divide": ast.Div, "true_divide": ast.Div, "power": ast.Pow, "float_power": ast.Pow, "floor_divide": ast.FloorDiv, "matmul": ast.MatMult, "mod": ast.Mod, "remainder": ast.Mod}

    def n8(self, body):
        """N8: `np.f(a, b, out=z)` (statement, assigned or returned) is `z = a <op> b` - the value that flows is the same; that
        the array bound to z is written in place is kept as a mark on the statement (`_inplace`) for the ownership rules."""
        out = []
        for st in body:
            call = st.value if isinstance(st, (ast.Expr, ast.Return)) or (isinstance(st, ast.Assign) and len(st.targets) == 1 and isinstance(st.targets[0], ast.Name)) else None
            if not (isinstance(call, ast.Call) and isinstance(call.func, ast.Attribute) and isinstance(call.func.value, ast.Name)):
                out.append(st)
                continue
            okw = [k for k in call.keywords if k.arg == "out"]
            tgt = okw[0].value if okw else None
            if isinstance(tgt, ast.Tuple) and len(tgt.elts) == 1:
                tgt = tgt.elts[0]
            if not isinstance(tgt, ast.Name) or any(isinstance(a, ast.Starred) for a in call.args):
                out.append(st)
                continue
            rest = [k for k in call.keywords if k.arg != "out"]
            fn = call.func.attr
            if fn in self._BIN and len(call.args) == 2 and not rest:
                val = ast.BinOp(left=call.args[0], op=self._BIN[fn](), right=call.args[1])
            elif fn == "negative" and len(call.args) == 1 and not rest:
                val = ast.UnaryOp(op=ast.USub(), operand=call.args[0])
            else:
                val = ast.Call(func=call.func, args=call.args, keywords=rest)
            new = ast.copy_location(ast.Assign(targets=[ast.Name(id=tgt.id, ctx=ast.Store())], value=ast.copy_location(val, call)), st)
            new._inplace = tgt.id
            out.append(new)
            ref = ast.copy_location(ast.Name(id=tgt.id, ctx=ast.Load()), call)
            if isinstance(st, ast.Return):
                out.append(ast.copy_location(ast.Return(value=ref), st))
            elif isinstance(st, ast.Assign) and st.targets[0].id != tgt.id:
                out.append(ast.copy_location(ast.Assign(targets=st.targets, value=ref), st))
        return out

    def n15(self, body):
        """N15: the transposition of a list of tuples, unpacked into names, is one comprehension per component:
        `a, b, c = zip(*L)` / `cols = list(zip(*L)); a, b, c = cols[:3]`  ==  `a = [s[0] for s in L]; b = [s[1] for s in L]; ...`
        (L a plain name; `cols` bound once and used only there)."""
        def transposed(v):
            while isinstance(v, ast.Call) and isinstance(v.func, ast.Name) and v.func.id in ("list", "tuple") and len(v.args) == 1 and not v.keywords:
                v = v.args[0]
            if isinstance(v, ast.Call) and isinstance(v.func, ast.Name) and v.func.id == "zip" and len(v.args) == 1 and isinstance(v.args[0], ast.Starred) and isinstance(v.args[0].value, ast.Name) and not v.keywords:
                return v.args[0].value.id
            return None

        out = []
        for st in body:
            done = False
            if isinstance(st, ast.Assign) and len(st.targets) == 1 and isinstance(st.targets[0], ast.Tuple) and all(isinstance(t, ast.Name) for t in st.targets[0].elts):
                k = len(st.targets[0].elts)
                v = st.value
                drop = None
                if isinstance(v, ast.Subscript) and isinstance(v.slice, ast.Slice) and v.slice.lower is None and v.slice.step is None and isinstance(v.slice.upper, ast.Constant) and v.slice.upper.value == k:
                    v = v.value
                lst = transposed(v)
                if lst is None and isinstance(v, ast.Name) and self.count_stores(v.id) == 1 and self.count_loads(v.id) == 1 and out and isinstance(out[-1], ast.Assign) and len(out[-1].targets) == 1 and isinstance(out[-1].targets[0], ast.Name) and out[-1].targets[0].id == v.id:
                    lst = transposed(out[-1].value)
                    drop = out[-1] if lst is not None else None
                if lst is not None and lst not in {t.id for t in st.targets[0].elts}:
                    if drop is not None:
                        out.pop()
                    for i, t in enumerate(st.targets[0].elts):
                        e = ast.Name(id="_s", ctx=ast.Load())
                        comp = ast.ListComp(elt=ast.Subscript(value=e, slice=ast.Constant(value=i), ctx=ast.Load()), generators=[ast.comprehension(target=ast.Name(id="_s", ctx=ast.Store()), iter=ast.Name(id=lst, ctx=ast.Load()), ifs=[], is_async=0)])
                        out.append(ast.fix_missing_locations(ast.copy_location(ast.Assign(targets=[t], value=comp), st)))
                    done = True
            if not done:
                out.append(st)
        return out

    def n13(self, body):
        """N13: `a, b = x, y` with plain names on the left and nothing on the right that the left binds is `a = x; b = y`."""
        out = []
        for st in body:
            if isinstance(st, ast.Assign) and len(st.targets) == 1 and isinstance(st.targets[0], ast.Tuple) and isinstance(st.value, ast.Tuple) and len(st.targets[0].elts) == len(st.value.elts) and all(isinstance(t, ast.Name) for t in st.targets[0].elts) and not any(isinstance(v, ast.Starred) for v in st.value.elts):
                tn = {t.id for t in st.targets[0].elts}
                rn = {n.id for v in st.value.elts for n in ast.walk(v) if isinstance(n, ast.Name)}
                pure = all(isinstance(v, (ast.Name, ast.Attribute, ast.Subscript, ast.Constant)) for v in st.value.elts)
                if not (tn & rn) and pure and len(tn) == len(st.targets[0].elts):
                    for t, v in zip(st.targets[0].elts, st.value.elts):
                        out.append(ast.copy_location(ast.Assign(targets=[t], value=v), st))
                    continue
            out.append(st)
        return out

    def n12(self):
        """N12: `f(**kw)` where kw is a local bound once to `dict(a=x, b=y)` / `{"a": x}` of plain names that are bound once, and
        only ever splatted, is `f(a=x, b=y)`; the dictionary itself then disappears."""
        import copy as _copy

        fn = self.fn
        cands = {}
        for n in ast.walk(fn):
            if isinstance(n, ast.Assign) and len(n.targets) == 1 and isinstance(n.targets[0], ast.Name):
                v = n.value
                items = None
                if isinstance(v, ast.Call) and isinstance(v.func, ast.Name) and v.func.id == "dict" and not v.args and v.keywords and all(k.arg for k in v.keywords):
                    items = [(k.arg, k.value) for k in v.keywords]
                elif isinstance(v, ast.Dict) and v.keys and all(isinstance(k, ast.Constant) and isinstance(k.value, str) and k.value.isidentifier() for k in v.keys):
                    items = [(k.value, x) for k, x in zip(v.keys, v.values)]
                if items is not None and all(isinstance(x, (ast.Name, ast.Constant)) for _k, x in items):
                    cands.setdefault(n.targets[0].id, []).append((n, items))
        for name, defs in cands.items():
            if len(defs) != 1 or self.count_stores(name) != 1:
                continue
            node, items = defs[0]
            if any(isinstance(x, ast.Name) and self.count_stores(x.id) != 1 for _k, x in items):
                continue
            loads = [n for n in ast.walk(fn) if isinstance(n, ast.Name) and n.id == name and isinstance(n.ctx, ast.Load)]
            splats = [(c, k) for c in ast.walk(fn) if isinstance(c, ast.Call) for k in c.keywords if k.arg is None and isinstance(k.value, ast.Name) and k.value.id == name]
            if not splats or len(splats) != len(loads):
                continue
            for c, k in splats:
                i = c.keywords.index(k)
                c.keywords[i:i + 1] = [ast.keyword(arg=a, value=_clone(x)) for a, x in items]
            # drop the definition
            for parent in ast.walk(fn):
                for fld in ("body", "orelse", "finalbody"):
                    seq = getattr(parent, fld, None)
                    if isinstance(seq, list) and node in seq:
                        seq.remove(node)

    def n14(self):
        """N14: a local bound once to a comparison of things that are themselves bound once (a named mask) stands for that
        comparison wherever it is read: `m = n < t; where(m, a, b); where(m[:, None], c, d)` is the same computation as with the
        comparison written out twice."""
        import copy as _copy

        fn = self.fn
        for n in list(ast.walk(fn)):
            if not (isinstance(n, ast.Assign) and len(n.targets) == 1 and isinstance(n.targets[0], ast.Name) and isinstance(n.value, ast.Compare)):
                continue
            name = n.targets[0].id
            if self.count_stores(name) != 1 or name.startswith("_n"):
                continue
            operands = [x for x in ast.walk(n.value) if isinstance(x, ast.Name)]
            params = {a.arg for a in fn.args.posonlyargs + fn.args.args + fn.args.kwonlyargs}
            if any(self.count_stores(x.id) > 1 or (self.count_stores(x.id) == 1 and x.id not in params and False) for x in operands):
                continue
            if any(isinstance(x, (ast.Call, ast.NamedExpr, ast.Await, ast.Yield)) for x in ast.walk(n.value)):
                continue
            loads = [x for x in ast.walk(fn) if isinstance(x, ast.Name) and x.id == name and isinstance(x.ctx, ast.Load)]
            if not loads or len(loads) > 4:
                continue
            # the definition must come before every use in one straight block (no use inside a loop that re-binds operands)
            class _S(ast.NodeTransformer):
                def visit_Name(self_, x):
                    if x.id == name and isinstance(x.ctx, ast.Load):
                        return ast.copy_location(_clone(n.value), x)
                    return x
            for parent in ast.walk(fn):
                for fld in ("body", "orelse", "finalbody"):
                    seq = getattr(parent, fld, None)
                    if isinstance(seq, list) and n in seq:
                        i = seq.index(n)
                        for j in range(i + 1, len(seq)):
                            seq[j] = _S().visit(seq[j])
                        if not any(isinstance(x, ast.Name) and x.id == name and isinstance(x.ctx, ast.Load) for x in ast.walk(fn)):
                            seq.remove(n)
                        break

    def n10(self, body):
        """N10: a loop over a literal sequence of attribute names whose body uses the loop variable only as the name argument of
        getattr / setattr is the same statements written out, one copy per name (`setattr(o, "a", v)` is `o.a = v`)."""
        import copy as _copy

        out = []
        for st in body:
            names = None
            if isinstance(st, ast.For) and isinstance(st.target, ast.Name) and not st.orelse and isinstance(st.iter, (ast.Tuple, ast.List)) and st.iter.elts and all(isinstance(x, ast.Constant) and isinstance(x.value, str) and x.value.isidentifier() for x in st.iter.elts) and len(st.iter.elts) <= 12:
                v = st.target.id
                ok = all(isinstance(b, (ast.Expr, ast.Assign)) for b in st.body)
                uses = [n for b in st.body for n in ast.walk(b) if isinstance(n, ast.Name) and n.id == v]
                attr_uses = [c.args[1] for b in st.body for c in ast.walk(b) if isinstance(c, ast.Call) and isinstance(c.func, ast.Name) and c.func.id in ("getattr", "setattr") and len(c.args) in (2, 3) and isinstance(c.args[1], ast.Name) and c.args[1].id == v]
                if ok and uses and len(uses) == len(attr_uses) and self.count_loads(v) == len(uses):
                    names = [x.value for x in st.iter.elts]
            if names is None:
                out.append(st)
                continue

            class _R(ast.NodeTransformer):
                def __init__(self, nm):
                    self.nm = nm

                def visit_Call(self, c):
                    self.generic_visit(c)
                    if isinstance(c.func, ast.Name) and c.func.id == "getattr" and len(c.args) == 2 and isinstance(c.args[1], ast.Name) and c.args[1].id == v:
                        return ast.copy_location(ast.Attribute(value=c.args[0], attr=self.nm, ctx=ast.Load()), c)
                    return c
            for nm in names:
                for b in st.body:
                    nb = _R(nm).visit(_clone(b))
                    if isinstance(nb, ast.Expr) and isinstance(nb.value, ast.Call) and isinstance(nb.value.func, ast.Name) and nb.value.func.id == "setattr" and len(nb.value.args) == 3 and isinstance(nb.value.args[1], ast.Name) and nb.value.args[1].id == v:
                        c = nb.value
                        nb = ast.copy_location(ast.Assign(targets=[ast.Attribute(value=c.args[0], attr=nm, ctx=ast.Store())], value=c.args[2]), b)
                    if any(isinstance(n, ast.Name) and n.id == v for n in ast.walk(nb)):
                        nb = None
                        break
                    out.append(ast.copy_location(nb, st) if not hasattr(nb, "lineno") else nb)
                if nb is None:
                    out = [x for x in out]  # a use that could not be rewritten: keep the loop as it is
                    out.append(st)
                    break
        return out

    # ---- helpers over the whole function ------------------------------------------------------------------------
    def count_loads(self, name, exclude=()):
        return sum(1 for n in ast.walk(self.fn) if isinstance(n, ast.Name) and n.id == name and isinstance(n.ctx, ast.Load) and not any(n is x for x in exclude))

    def count_stores(self, name):
        k = 0
        for n in ast.walk(self.fn):
            if isinstance(n, ast.Name) and n.id == name and isinstance(n.ctx, (ast.Store, ast.Del)):
                k += 1
            if isinstance(n, ast.arg) and n.arg == name:
                k += 1
            if isinstance(n, (ast.Global, ast.Nonlocal)) and name in n.names:
                k += 5
        return k

    # ---- statement lists -------------------------------------------------------------------------------------------
    def block(self, body):
        body = [self.stmt(s) for s in body]
        body = self.n8(body)
        body = self.n3(body)
        body = self.n7(body)
        body = self.n4a(body)
        if ENABLE_N4:
            body = self.n4(body)
        return body

    def stmt(self, st):
        if isinstance(st, (ast.FunctionDef, ast.AsyncFunctionDef, ast.ClassDef)):
            return st  # nested definitions are canonicalised on their own
        for fld in ("body", "orelse", "finalbody"):
            if isinstance(getattr(st, fld, None), list):
                setattr(st, fld, self.block(getattr(st, fld)))
        if isinstance(st, ast.Try):
            for h in st.handlers:
                h.body = self.block(h.body)
        if isinstance(st, ast.If):
            st = self.n1(st)
            st = self.n2(st)
        for n in ast.walk(st) if not isinstance(st, ast.If) else ast.walk(ast.Module(body=[st], type_ignores=[])):
            if isinstance(n, ast.IfExp):
                t, neg = _strip_not(n.test)
                if neg:
                    n.test, n.body, n.orelse = t, n.orelse, n.body
        return st

    def n1(self, st):
        t, neg = _strip_not(st.test)
        if neg and st.orelse:
            st.test, st.body, st.orelse = t, st.orelse, st.body
        elif t is not st.test and not neg:
            st.test = t  # double negation
        return st

    def n2(self, st):
        if len(st.body) == 1 and len(st.orelse) == 1:
            a, b = st.body[0], st.orelse[0]
            if isinstance(a, ast.Assign) and isinstance(b, ast.Assign) and len(a.targets) == 1 and len(b.targets) == 1 and isinstance(a.targets[0], (ast.Name, ast.Attribute)) and ast.dump(a.targets[0]) == ast.dump(b.targets[0]):
                new = ast.Assign(targets=a.targets, value=ast.IfExp(test=st.test, body=a.value, orelse=b.value))
                return ast.copy_location(new, st)
            if isinstance(a, ast.Return) and isinstance(b, ast.Return) and a.value is not None and b.value is not None:
                new = ast.Return(value=ast.IfExp(test=st.test, body=a.value, orelse=b.value))
                return ast.copy_location(new, st)
        return st

    def n3(self, body):
        out = []
        i = 0
        while i < len(body):
            st = body[i]
            nxt = body[i + 1] if i + 1 < len(body) else None
            done = False
            if isinstance(st, ast.Assign) and len(st.targets) == 1 and isinstance(st.targets[0], ast.Name) and _is_empty_list(st.value) and isinstance(nxt, ast.For) and not nxt.orelse:
                acc = st.targets[0].id
                inner, conds = nxt.body, []
                while len(inner) == 1 and isinstance(inner[0], ast.If) and not inner[0].orelse:
                    conds.append(inner[0].test)
                    inner = inner[0].body
                if len(inner) == 1 and isinstance(inner[0], ast.Expr) and isinstance(inner[0].value, ast.Call):
                    c = inner[0].value
                    if isinstance(c.func, ast.Attribute) and c.func.attr == "append" and isinstance(c.func.value, ast.Name) and c.func.value.id == acc and len(c.args) == 1 and not c.keywords:
                        elt = c.args[0]
                        tnames = {n.id for n in ast.walk(nxt.target) if isinstance(n, ast.Name)}
                        uses_acc = any(n.id == acc for e in [elt, nxt.iter] + conds for n in _names_loaded(e))
                        # the loop variables must not be read outside the loop (a comprehension does not leak them)
                        inside = {id(n) for n in ast.walk(nxt)}
                        leaked = any(isinstance(n, ast.Name) and n.id in tnames and isinstance(n.ctx, ast.Load) and id(n) not in inside for n in ast.walk(self.fn))
                        if not uses_acc and not leaked:
                            lc = ast.ListComp(elt=elt, generators=[ast.comprehension(target=nxt.target, iter=nxt.iter, ifs=conds, is_async=0)])
                            new = ast.Assign(targets=st.targets, value=ast.copy_location(lc, nxt))
                            out.append(ast.copy_location(new, nxt))
                            i += 2
                            done = True
            if not done:
                out.append(st)
                i += 1
        return out

    def n4a(self, body):
        """`t = E` immediately followed by `x = t` (a pure alias; t assigned once and read once in the function) -> `x = E`"""
        out = list(body)
        i = 0
        while i + 1 < len(out):
            st, nxt = out[i], out[i + 1]
            if (isinstance(st, ast.Assign) and len(st.targets) == 1 and isinstance(st.targets[0], ast.Name) and isinstance(nxt, ast.Assign) and len(nxt.targets) == 1
                    and isinstance(nxt.value, ast.Name) and nxt.value.id == st.targets[0].id and isinstance(nxt.targets[0], (ast.Name, ast.Attribute))):
                t = st.targets[0].id
                if self.count_stores(t) == 1 and self.count_loads(t) == 1:
                    new = ast.Assign(targets=nxt.targets, value=st.value)
                    out[i:i + 2] = [ast.copy_location(new, nxt)]
                    continue
            i += 1
        return out

    def n4(self, body):
        out = list(body)
        i = 0
        while i + 1 < len(out):
            st, nxt = out[i], out[i + 1]
            if isinstance(st, ast.Assign) and len(st.targets) == 1 and isinstance(st.targets[0], ast.Name) and not isinstance(nxt, (ast.FunctionDef, ast.ClassDef, ast.For, ast.While, ast.If, ast.Try, ast.With)):
                t = st.targets[0].id
                if self.count_stores(t) == 1 and not isinstance(st.value, (ast.Lambda, ast.Yield, ast.YieldFrom, ast.Await)) and not self.is_internal_call(st.value) and not t.startswith("_n"):
                    uses = [n for n in ast.walk(nxt) if isinstance(n, ast.Name) and n.id == t and isinstance(n.ctx, ast.Load)]
                    inside_comp = any(isinstance(p, (ast.ListComp, ast.GeneratorExp, ast.SetComp, ast.DictComp, ast.Lambda)) and any(u is x for x in ast.walk(p) for u in uses) for p in ast.walk(nxt))
                    # never substitute into a place that is written through: the base of a store target, the receiver of a method call
                    written = False
                    for p_ in ast.walk(nxt):
                        tg_ = []
                        if isinstance(p_, ast.Assign):
                            tg_ = p_.targets
                        elif isinstance(p_, (ast.AugAssign, ast.AnnAssign)):
                            tg_ = [p_.target]
                        elif isinstance(p_, ast.Delete):
                            tg_ = p_.targets
                        for tt in tg_:
                            if any(u is x for x in ast.walk(tt) for u in uses):
                                written = True
                        if isinstance(p_, ast.Call) and isinstance(p_.func, ast.Attribute) and p_.func.attr in _MUTATORS and any(u is x for x in ast.walk(p_.func.value) for u in uses):
                            written = True
                    if len(uses) == 1 and self.count_loads(t) == 1 and not inside_comp and not written:
                        _Sub(uses[0], st.value).visit(nxt)
                        del out[i]
                        if i > 0:
                            i -= 1
                        continue
            i += 1
        return out


class _Sub(ast.NodeTransformer):
    def __init__(self, target, value):
        self.target, self.value = target, value

    def visit_Name(self, n):
        if n is self.target:
            return self.value
        return n


class _CallOfChoice(ast.NodeTransformer):
    """N9: `(f if c else g)(args)` is `f(args) if c else g(args)` (the test is evaluated first in both, then the arguments)."""

    _BIN = {"add": ast.Add, "subtract": ast.Sub, "multiply": ast.Mult, "divide": ast.Div, "true_divide": ast.Div, "power": ast.Pow, "floor_divide": ast.FloorDiv, "matmul": ast.MatMult}
    _CMP = {"less": ast.Lt, "less_equal": ast.LtE, "greater": ast.Gt, "greater_equal": ast.GtE, "equal": ast.Eq, "not_equal": ast.NotEq}

    def visit_Call(self, node):
        self.generic_visit(node)
        # N11: a binary ufunc called with two positional arguments and nothing else is the operator it implements
        if isinstance(node.func, ast.Attribute) and isinstance(node.func.value, ast.Name) and node.func.value.id in ("np", "numpy") and len(node.args) == 2 and not node.keywords and not any(isinstance(a, ast.Starred) for a in node.args):
            if node.func.attr in self._BIN:
                return ast.copy_location(ast.BinOp(left=node.args[0], op=self._BIN[node.func.attr](), right=node.args[1]), node)
            if node.func.attr in self._CMP:
                return ast.copy_location(ast.Compare(left=node.args[0], ops=[self._CMP[node.func.attr]()], comparators=[node.args[1]]), node)
        # N11b: np.reciprocal(x) is 1 / x (marked: the ufunc keeps an integer dtype, the operator does not - trap T10 asks)
        if isinstance(node.func, ast.Attribute) and isinstance(node.func.value, ast.Name) and node.func.value.id in ("np", "numpy") and node.func.attr == "reciprocal" and len(node.args) == 1 and not any(isinstance(a, ast.Starred) for a in node.args) and not any(k.arg in ("out", "where") for k in node.keywords):
            r = ast.copy_location(ast.BinOp(left=ast.copy_location(ast.Constant(value=1), node), op=ast.Div(), right=node.args[0]), node)
            r._reciprocal_dtype = next((k.value for k in node.keywords if k.arg == "dtype"), None)
            r._reciprocal = True
            return r
        if isinstance(node.func, ast.IfExp) and isinstance(node.func.body, (ast.Name, ast.Attribute)) and isinstance(node.func.orelse, (ast.Name, ast.Attribute)):
            import copy as _copy

            a = ast.copy_location(ast.Call(func=node.func.body, args=node.args, keywords=node.keywords), node)
            b = ast.copy_location(ast.Call(func=node.func.orelse, args=[_clone(x) for x in node.args], keywords=[_clone(k) for k in node.keywords]), node)
            return ast.copy_location(ast.IfExp(test=node.func.test, body=a, orelse=b), node)
        return node


def normalise(tree):
    """Canonicalises every function of a parsed module in place and returns the tree."""
    internal = set()
    for n in ast.walk(tree):
        if isinstance(n, (ast.FunctionDef, ast.AsyncFunctionDef)):
            internal.add(n.name)
        if isinstance(n, ast.ImportFrom) and n.level >= 1:
            internal |= {(al.asname or al.name) for al in n.names}
    internal -= {"__init__", "fit", "transform", "copy", "sum", "mean", "reshape"}  # names shared with library objects
    for n in ast.walk(tree):
        if isinstance(n, (ast.FunctionDef, ast.AsyncFunctionDef)):
            c = _Canon(n, internal)
            # N10 first, on the whole function, so that the use counts of the later rewrites see the unrolled statements
            def _unroll(stmts):
                for st_ in stmts:
                    if isinstance(st_, (ast.FunctionDef, ast.AsyncFunctionDef, ast.ClassDef)):
                        continue
                    for fld in ("body", "orelse", "finalbody"):
                        if isinstance(getattr(st_, fld, None), list):
                            setattr(st_, fld, _unroll(getattr(st_, fld)))
                    if isinstance(st_, ast.Try):
                        for h in st_.handlers:
                            h.body = _unroll(h.body)
                return c.n15(c.n13(c.n10(stmts)))
            n.body = _unroll(n.body)
            n.body = [_CallOfChoice().visit(st) for st in n.body]
            c.n12()
            c.n14()
            for _ in range(2):  # the second pass sees the counts of the tree rewritten by the first
                n.body = c.block(n.body)
            n.body = [_CallOfChoice().visit(st) for st in n.body]
    ast.fix_missing_locations(tree)
    return tree
