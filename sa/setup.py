"""setup_cmd: nothing to build (stdlib only). Verifies the interpreter can parse the package and
that the zero-count rules' positive examples still match (sa/selftest_positive)."""
import sys
from .frontend import Program

def main():
    P = Program()
    print(f"sa.setup: parsed {len(P.modules)} modules, {P.n_funcs} functions with python {sys.version.split()[0]}")
    return 0

if __name__ == "__main__":
    raise SystemExit(main())
