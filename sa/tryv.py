"""Ad-hoc: apply one textual edit to the normalised sources and run some checks.  usage: python3-vt -m sa.tryv <module> <old> <new> [props...]"""
import sys

from .check import run_property
from .frontend import load_sources
from .selftest import normalised


def main():
    mod, old, new = sys.argv[1:4]
    props = sys.argv[4:] or [f"C{i:02d}" for i in range(1, 21)]
    base = normalised(load_sources())
    n = base[mod].count(old)
    if n != 1:
        print(f"locator matches {n} times")
        if n == 0:
            return 2
    srcs = dict(base)
    srcs[mod] = base[mod].replace(old, new)
    for p in props:
        from . import dataflow
        from .engines import dimrun
        dataflow._DU_CACHE.clear()
        dimrun._CACHE.clear()
        code, R = run_property(p, "quick", sources=srcs, write=False, quiet=True)
        v = [f"{o.rule} {o.where} `{o.what[:50]}`" for o in R.obs if o.verdict == "violation"]
        print(p, code, v[:3], R.errors[:2] if code == 2 else "")


if __name__ == "__main__":
    sys.exit(main())
