"""Reaching definitions and def-use cones on the statement CFG.

Variables are local names and access paths of the form name.attr[.attr]
("self._variances", "machine.means").  A *cone* of an expression at a statement is
everything the value may depend on through reaching definitions (and, optionally,
through the return values of resolved repository callees): parameters, attribute
loads, callee names, constants, and the AST nodes visited.  Cones over-approximate
data flow, so a *missing* dependence is a sound fact (DESIGN 3.11).
"""
from __future__ import annotations

import ast

from .cfg import CFG, ENTRY
from .frontend import attr_chain, src, walk_no_nested


MUTATORS = {"append", "extend", "insert", "update", "add", "setdefault", "sort", "fill"}


class Def:
    __slots__ = ("var", "stmt", "value", "how", "index")

    def __init__(self, var, stmt, value, how, index=None):
        self.var = var
        self.stmt = stmt
        self.value = value  # defining expression (None for params / deletes)
        self.how = how  # assign | aug | iter | unpack | param | walrus | with | del | import | def
        self.index = index  # position in an unpacked tuple

    def __repr__(self):
        return f"<Def {self.var} {self.how} @{getattr(self.stmt, 'lineno', '?')}>"


def target_vars(t, value, how, stmt, out, index=None):
    if isinstance(t, ast.Name):
        out.append(Def(t.id, stmt, value, how, index))
    elif isinstance(t, ast.Attribute):
        ch = attr_chain(t)
        if ch:
            out.append(Def(".".join(ch), stmt, value, how, index))
    elif isinstance(t, (ast.Tuple, ast.List)):
        vals = value.elts if isinstance(value, (ast.Tuple, ast.List)) and len(value.elts) == len(t.elts) else None
        for i, e in enumerate(t.elts):
            if vals is not None and how == "assign":
                target_vars(e, vals[i], "assign", stmt, out)
            else:
                target_vars(e, value, "unpack" if how == "assign" else how, stmt, out, i if index is None else index)
    elif isinstance(t, ast.Starred):
        target_vars(t.value, value, how, stmt, out, index)
    elif isinstance(t, ast.Subscript):
        # x[i] = v  : a partial (weak) definition of x
        ch = attr_chain(t.value) if isinstance(t.value, ast.Attribute) else ([t.value.id] if isinstance(t.value, ast.Name) else None)
        if ch:
            out.append(Def(".".join(ch), stmt, value, "substore", index))


def stmt_defs(st):
    out = []
    if isinstance(st, ast.Assign):
        for t in st.targets:
            target_vars(t, st.value, "assign", st, out)
    elif isinstance(st, ast.AnnAssign) and st.value is not None:
        target_vars(st.target, st.value, "assign", st, out)
    elif isinstance(st, ast.AugAssign):
        target_vars(st.target, st.value, "aug", st, out)
    elif isinstance(st, (ast.For, ast.AsyncFor)):
        target_vars(st.target, st.iter, "iter", st, out)
    elif isinstance(st, (ast.With, ast.AsyncWith)):
        for it in st.items:
            if it.optional_vars is not None:
                target_vars(it.optional_vars, it.context_expr, "with", st, out)
    elif isinstance(st, ast.Delete):
        for t in st.targets:
            target_vars(t, None, "del", st, out)
    elif isinstance(st, (ast.Import, ast.ImportFrom)):
        for al in st.names:
            out.append(Def((al.asname or al.name).split(".")[0], st, None, "import"))
    elif isinstance(st, (ast.FunctionDef, ast.ClassDef)):
        out.append(Def(st.name, st, None, "def"))
    elif isinstance(st, ast.ExceptHandler) and st.name:
        out.append(Def(st.name, st, None, "with"))
    elif isinstance(st, ast.Expr) and isinstance(st.value, ast.Call) and isinstance(st.value.func, ast.Attribute) and st.value.func.attr in MUTATORS:
        c = st.value
        recv = c.func.value
        ch = attr_chain(recv) if isinstance(recv, ast.Attribute) else ([recv.id] if isinstance(recv, ast.Name) else None)
        if ch:
            val = ast.Tuple(elts=list(c.args) + [k.value for k in c.keywords], ctx=ast.Load())
            out.append(Def(".".join(ch), st, val, "substore"))
    elif isinstance(st, ast.Expr) and isinstance(st.value, ast.Call) and isinstance(st.value.func, ast.Attribute) and st.value.args and isinstance(st.value.args[0], ast.Name) and (
        (st.value.func.attr == "at" and isinstance(st.value.func.value, ast.Attribute)) or (st.value.func.attr in ("copyto", "put", "place", "putmask", "fill_diagonal", "put_along_axis") and isinstance(st.value.func.value, ast.Name) and st.value.func.value.id in ("np", "numpy"))
    ):
        # library calls that write into their first argument: np.add.at(acc, idx, vals), np.copyto(dst, src), np.put(a, idx, v)
        c = st.value
        val = ast.Tuple(elts=list(c.args[1:]) + [k.value for k in c.keywords], ctx=ast.Load())
        out.append(Def(c.args[0].id, st, val, "substore"))
    # walrus inside the statement's own expressions (not nested bodies)
    for e in header_exprs(st):
        for n in walk_no_nested(e):
            if isinstance(n, ast.NamedExpr):
                out.append(Def(n.target.id, st, n.value, "walrus"))
    return out


def header_exprs(st):
    """Expressions evaluated by the CFG node of st (not those of nested statements)."""
    if isinstance(st, (ast.If, ast.While)):
        return [st.test]
    if isinstance(st, (ast.For, ast.AsyncFor)):
        return [st.iter]
    if isinstance(st, (ast.With, ast.AsyncWith)):
        return [it.context_expr for it in st.items]
    if isinstance(st, (ast.Try, ast.FunctionDef, ast.ClassDef, ast.ExceptHandler)):
        return []
    return [c for c in ast.iter_child_nodes(st) if isinstance(c, ast.expr)]


class DefUse:
    def __init__(self, func, program=None):
        self.f = func
        self.P = program
        self.cfg = CFG(func.node)
        self.defs = {}  # stmt -> [Def]
        self.param_defs = [Def(p, ENTRY, None, "param") for p in func.params]
        if func.vararg:
            self.param_defs.append(Def(func.vararg, ENTRY, None, "param"))
        if func.kwarg:
            self.param_defs.append(Def(func.kwarg, ENTRY, None, "param"))
        for st in self.cfg.nodes():
            self.defs[st] = stmt_defs(st)
        self._solve()

    def _kills(self, d, other):
        """Does definition d kill a reaching definition `other`?"""
        if d.how in ("substore",):
            return False  # weak update
        if other.var == d.var:
            return True
        # redefining x kills x.attr ; redefining x.a kills x.a.b
        return other.var.startswith(d.var + ".")

    def _solve(self):
        cfg = self.cfg
        IN = {n: set() for n in cfg.succ}
        OUT = {n: set() for n in cfg.succ}
        OUT[ENTRY] = set(self.param_defs)
        work = list(cfg.nodes())
        # textual order gives fast convergence
        work.sort(key=lambda s: cfg.order.get(s, 0))
        changed = True
        it = 0
        while changed and it < 50:
            changed = False
            it += 1
            for n in work:
                new_in = set()
                for p, _lab in cfg.pred.get(n, []):
                    new_in |= OUT[p]
                gen = self.defs.get(n, [])
                out = new_in
                if gen:
                    out = {o for o in new_in if not any(self._kills(d, o) for d in gen)} | set(gen)
                if new_in != IN[n] or out != OUT[n]:
                    IN[n] = new_in
                    OUT[n] = out
                    changed = True
        self.IN, self.OUT = IN, OUT

    def reaching(self, stmt, var, after=False):
        table = self.OUT if after else self.IN
        return [d for d in table.get(stmt, ()) if d.var == var]

    def stmt_of(self, node):
        p = node
        while p is not None and p not in self.cfg.succ:
            p = getattr(p, "_parent", None)
        return p

    def all_defs(self, var):
        out = [d for ds in self.defs.values() for d in ds if d.var == var]
        out += [d for d in self.param_defs if d.var == var]
        return out


class Cone:
    def __init__(self):
        self.params = set()  # parameter names reached
        self.attrs = set()  # access paths loaded: "self._variances", "machine.means"
        self.calls = set()  # dotted library names / "repo:<key>"
        self.consts = []  # constant values
        self.nodes = []  # AST nodes visited
        self.names = set()  # free names (globals, unresolved locals)
        self.defs = []  # Def objects traversed
        self.fieldparams = set()  # parameters of methods whose stores feed a loaded field

    def has_attr(self, *suffixes):
        """Some loaded access path ends with one of the given attribute names."""
        for a in self.attrs:
            if any(part in suffixes for part in a.split(".")[1:]):
                return True
        return False

    def attr_paths(self, suffix):
        return {a for a in self.attrs if a.split(".")[-1] == suffix}

    def calls_any(self, *names):
        return any(c in names or c.split(".")[-1].split(":")[-1].lstrip("?") in names for c in self.calls)


VALUES_ONLY = [False]


class values_only:
    """Context: cones follow *value* dependences only - the prototype of `*_like(proto, fill)`, `x.shape` / `x.ndim` / `x.dtype` /
    `len(x)` give a result its shape, not its value, and are not followed."""

    def __enter__(self):
        self.prev = VALUES_ONLY[0]
        VALUES_ONLY[0] = True

    def __exit__(self, *a):
        VALUES_ONLY[0] = self.prev


_LIKE_PROTOS = ("full_like", "zeros_like", "ones_like", "empty_like")


def cone(du, expr, stmt=None, interproc=True, depth=0, _seen=None, _scope=None, _out=None):
    """Def-use cone of expr evaluated at stmt in du.f."""
    out = _out if _out is not None else Cone()
    seen = _seen if _seen is not None else set()
    scope = dict(_scope or {})
    if stmt is None:
        stmt = du.stmt_of(expr)
    P = du.P

    def visit(e, scope):
        if e is None:
            return
        out.nodes.append(e)
        if isinstance(e, ast.Constant):
            out.consts.append(e.value)
            return
        if isinstance(e, ast.Name):
            if e.id in scope:
                visit_expr_once(scope[e.id], scope)
                return
            follow_var(e.id)
            return
        if isinstance(e, ast.Attribute):
            if VALUES_ONLY[0] and e.attr in ("shape", "ndim", "dtype", "size"):
                return
            ch = attr_chain(e)
            if ch:
                path = ".".join(ch)
                if ch[0] not in scope and P is not None and not du.all_defs(ch[0]):
                    d = P.dotted(e, du.f)
                    if d:
                        out.names.add(d)
                        return
                if ch[0] in scope:
                    visit_expr_once(scope[ch[0]], scope)
                    out.attrs.add("<elem>." + ".".join(ch[1:]))
                    return
                out.attrs.add(path)
                # reaching definitions of the access path itself (flow-sensitive stores)
                rd = du.reaching(stmt_here[0], path) if stmt_here[0] is not None else []
                for d in rd:
                    follow_def(d)
                # property getter of a repo class
                if P is not None and interproc and depth < 4:
                    rc = P.recv_class(e.value, du.f)
                    if rc is not None and e.attr.startswith("_"):
                        field_cone(rc, e.attr)
                    if rc is not None:
                        pr = P.lookup_prop(rc, e.attr)
                        if pr and "get" in pr:
                            callee_cone(pr["get"], {pr["get"].self_name: e.value} if pr["get"].self_name else {}, scope)
                follow_var(ch[0], base_only=True)
                return
            visit(e.value, scope)
            return
        if isinstance(e, (ast.ListComp, ast.SetComp, ast.GeneratorExp, ast.DictComp)):
            sc = dict(scope)
            for g in e.generators:
                visit(g.iter, sc)
                for n in ast.walk(g.target):
                    if isinstance(n, ast.Name):
                        sc[n.id] = g.iter
                for c in g.ifs:
                    visit(c, sc)
            if isinstance(e, ast.DictComp):
                visit(e.key, sc)
                visit(e.value, sc)
            else:
                visit(e.elt, sc)
            return
        if isinstance(e, ast.Lambda):
            sc = dict(scope)
            for a in e.args.args:
                sc[a.arg] = None
            visit(e.body, sc)
            return
        if isinstance(e, ast.Call):
            handle_call(e, scope)
            return
        if isinstance(e, ast.NamedExpr):
            visit(e.value, scope)
            return
        for c in ast.iter_child_nodes(e):
            if isinstance(c, ast.expr):
                visit(c, scope)
            elif isinstance(c, (ast.keyword,)):
                visit(c.value, scope)
            elif isinstance(c, ast.comprehension):
                pass

    def visit_expr_once(e, scope):
        if e is None:
            return
        k = ("scoped", id(e))
        if k in seen:
            return
        seen.add(k)
        visit(e, scope)

    stmt_here = [stmt]
    want_comp = [None]

    def follow_var(name, base_only=False):
        st = stmt_here[0]
        rd = du.reaching(st, name) if st is not None else []
        if not rd:
            # not a local: a global / module alias / builtin
            if not du.all_defs(name):
                out.names.add(name)
                return
            # defined somewhere but not reaching here (e.g. inside comprehension scope): take all defs
            rd = du.all_defs(name)
        for d in rd:
            follow_def(d)

    def follow_def(d):
        k = ("def", id(d))
        if k in seen:
            return
        seen.add(k)
        out.defs.append(d)
        if d.how == "param":
            out.params.add(d.var)
            return
        if d.value is None:
            return
        saved = stmt_here[0]
        stmt_here[0] = d.stmt
        try:
            if d.how == "aug":
                # previous value of the variable flows in too
                for pd in du.reaching(d.stmt, d.var):
                    follow_def(pd)
            if d.how == "unpack" and isinstance(d.index, int) and isinstance(d.value, ast.Call) and not any(isinstance(t_, ast.Starred) for t_ in ast.walk(d.stmt.targets[0] if isinstance(d.stmt, ast.Assign) else d.stmt)):
                # a, b = f(...): component b derives from the second element of the tuples f returns
                want_comp[0] = d.index
                try:
                    visit(d.value, {})
                finally:
                    want_comp[0] = None
            elif d.how == "unpack" and isinstance(d.index, int) and isinstance(d.value, ast.Tuple) and len(d.value.elts) > d.index and not any(isinstance(x_, ast.Starred) for x_ in d.value.elts):
                visit(d.value.elts[d.index], {})
            else:
                visit(d.value, {})
            if d.how == "substore":
                for pd in du.reaching(d.stmt, d.var):
                    follow_def(pd)
        finally:
            stmt_here[0] = saved

    def callee_cone(callee, binding, scope):
        """Include the return-cone of a repo callee, parameters substituted by argument cones."""
        k = ("callee", callee.key, tuple(sorted((p, id(a)) for p, a in binding.items() if a is not None)))
        if k in seen:
            return
        seen.add(k)
        out.calls.add("repo:" + callee.key)
        if not interproc or depth >= 4:
            for a in binding.values():
                visit(a, scope)
            return
        cdu = get_defuse(callee, P)
        sub = Cone()
        rets = [n for n in walk_no_nested(callee.node) if isinstance(n, ast.Return) and n.value is not None]
        comp = want_comp[0]
        want_comp[0] = None
        for r in rets:
            rv = r.value
            if comp is not None and isinstance(rv, ast.Tuple) and len(rv.elts) > comp and not any(isinstance(x_, ast.Starred) for x_ in rv.elts):
                rv = rv.elts[comp]
            cone(cdu, rv, r, interproc, depth + 1, set(), None, sub)
        out.calls |= sub.calls
        out.consts += sub.consts
        out.nodes += sub.nodes
        out.names |= sub.names
        out.fieldparams |= sub.fieldparams
        for a in sub.attrs:
            root = a.split(".")[0]
            if root in binding and binding[root] is not None:
                # attribute of an argument: re-root on the argument expression text
                arg = binding[root]
                if isinstance(arg, (ast.Name, ast.Attribute)):
                    out.attrs.add(src(arg) + a[len(root):])
            else:
                out.attrs.add(a)
        for p in sub.params:
            if p in binding:
                visit(binding[p], scope)
            elif p in callee.defaults:
                pass

    def field_cone(rc, attr):
        """Field-based heap abstraction: a load of obj.attr may see any value stored to
        self.attr by a method of obj's class."""
        k = ("field", rc.name, attr)
        if k in seen:
            return
        seen.add(k)
        for c in P.mro(rc):
            meths = list(c.methods.values()) + [f for pr in c.props.values() for f in pr.values()]
            for m in meths:
                if not m.self_name:
                    continue
                for st, t, v, kind in stores(m):
                    if v is None or not isinstance(t, ast.Attribute):
                        continue
                    if isinstance(t.value, ast.Name) and t.value.id == m.self_name and t.attr == attr:
                        mdu = get_defuse(m, P)
                        sub = Cone()
                        sst = mdu.stmt_of(st)
                        cone(mdu, v, sst, interproc, depth + 1, seen, None, sub)
                        out.calls |= sub.calls
                        out.consts += sub.consts
                        out.nodes += sub.nodes
                        out.names |= sub.names
                        out.attrs |= {("<%s>" % rc.name) + a[len(m.self_name):] if a.split(".")[0] == m.self_name else a for a in sub.attrs}
                        out.fieldparams |= {f"{m.key}.{p}" for p in sub.params}

    def handle_call(e, scope):
        if P is None:
            for c in ast.iter_child_nodes(e):
                if isinstance(c, ast.expr):
                    visit(c, scope)
                elif isinstance(c, ast.keyword):
                    visit(c.value, scope)
            return
        kind, fexpr, args, kws = P.peel_call(e, du.f)
        targets = P.resolve_callee(fexpr, du.f)
        handled = False
        for t in targets:
            if t[0] == "repo":
                callee = t[1]
                b = P.bind_args(callee, args, kws)
                if callee.self_name and isinstance(fexpr, ast.Attribute):
                    b[callee.self_name] = fexpr.value
                callee_cone(callee, b, scope)
                handled = True
            elif t[0] == "ctor":
                out.calls.add("ctor:" + t[1].name)
            elif t[0] == "lib":
                out.calls.add(t[1])
            elif isinstance(fexpr, ast.Attribute):
                out.calls.add("method:" + fexpr.attr)
            else:
                out.calls.add("?" + t[1])
        # arguments always flow (over-approximation), receiver too
        if isinstance(fexpr, ast.Attribute):
            visit(fexpr.value, scope)
        elif not isinstance(fexpr, ast.Name):
            visit(fexpr, scope)
        fname_ = fexpr.attr if isinstance(fexpr, ast.Attribute) else getattr(fexpr, "id", None)
        skip0 = VALUES_ONLY[0] and (fname_ in _LIKE_PROTOS or fname_ == "len")
        for i_, a in enumerate(args):
            if skip0 and i_ == 0:
                continue
            visit(a.value if isinstance(a, ast.Starred) else a, scope)
        for k in kws:
            if VALUES_ONLY[0] and k.arg in ("like", "shape", "dtype"):
                continue
            visit(k.value, scope)
        if kind == "task" and isinstance(e.func, ast.Call):
            out.calls.add("dask.delayed")

    visit(expr, scope)
    return out


_DU_CACHE = {}


def get_defuse(func, program):
    k = (id(program), func.key)
    if k not in _DU_CACHE:
        _DU_CACHE[k] = DefUse(func, program)
    return _DU_CACHE[k]


def stores(func_or_node):
    """All attribute/subscript/name stores in a function body (not nested defs):
    yields (stmt, target expr, value expr or None, kind) with kind in
    assign | aug | del | iter | setattr."""
    node = func_or_node.node if hasattr(func_or_node, "node") else func_or_node
    out = []

    def flat(t, v, kind, st):
        if isinstance(t, (ast.Tuple, ast.List)):
            vals = v.elts if isinstance(v, (ast.Tuple, ast.List)) and len(v.elts) == len(t.elts) else None
            for i, e in enumerate(t.elts):
                flat(e, vals[i] if vals else v, kind, st)
        elif isinstance(t, ast.Starred):
            flat(t.value, v, kind, st)
        else:
            out.append((st, t, v, kind))

    for st in walk_no_nested(node):
        if isinstance(st, ast.Assign):
            for t in st.targets:
                flat(t, st.value, "assign", st)
        elif isinstance(st, ast.AnnAssign) and st.value is not None:
            flat(st.target, st.value, "assign", st)
        elif isinstance(st, ast.AugAssign):
            flat(st.target, st.value, "aug", st)
        elif isinstance(st, ast.Delete):
            for t in st.targets:
                flat(t, None, "del", st)
        elif isinstance(st, (ast.For, ast.AsyncFor)):
            flat(st.target, st.iter, "iter", st)
        elif isinstance(st, ast.Call) and isinstance(st.func, ast.Name) and st.func.id == "setattr" and len(st.args) == 3:
            out.append((st, st, st.args[2], "setattr"))
    out.sort(key=lambda x: (getattr(x[0], "lineno", 0), getattr(x[0], "col_offset", 0)))
    return out


def setattr_expansions(func):
    """The literal-list idiom  `for a in ["x", "y"]: setattr(T, a, getattr(S, a))`
    as explicit (stmt, target_obj_expr, attr, source_obj_expr|None, value_expr)."""
    out = []
    unknown = []
    for st in walk_no_nested(func.node):
        if isinstance(st, ast.Call) and isinstance(st.func, ast.Name) and st.func.id == "setattr" and len(st.args) == 3:
            tgt, name, val = st.args
            names = None
            if isinstance(name, ast.Constant) and isinstance(name.value, str):
                names = [name.value]
            elif isinstance(name, ast.Name):
                # loop variable over a literal list/tuple of strings
                p = st
                while p is not None and not (isinstance(p, ast.For) and isinstance(p.target, ast.Name) and p.target.id == name.id):
                    p = getattr(p, "_parent", None)
                if p is not None and isinstance(p.iter, (ast.List, ast.Tuple)) and all(isinstance(e, ast.Constant) and isinstance(e.value, str) for e in p.iter.elts):
                    names = [e.value for e in p.iter.elts]
            if names is None:
                unknown.append(st)
                continue
            srcobj = None
            if isinstance(val, ast.Call) and isinstance(val.func, ast.Name) and val.func.id == "getattr" and len(val.args) >= 2 and src(val.args[1]) == src(name):
                srcobj = val.args[0]
            for n in names:
                out.append((st, tgt, n, srcobj, val))
    return out, unknown


def resolve_name(du, e, st, depth=6):
    """Follow a local name to its defining expression while it has exactly one reaching definition that is a plain assignment:
    a named intermediate step is the same computation as the nested expression.  Returns (expression, statement it stands in)."""
    while isinstance(e, ast.Name) and depth > 0:
        rd = du.reaching(st, e.id)
        if len(rd) != 1 or rd[0].how != "assign" or rd[0].value is None:
            break
        e, st, depth = rd[0].value, rd[0].stmt, depth - 1
    return e, st
