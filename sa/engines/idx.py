"""IDX: index kinds and iteration order (DESIGN 3.7).

Kinds: LABEL (a class id: an element of a label collection), POS(K) (a position in an
enumeration of collection K).  A container built by a comprehension/append over K is
POS(K)-indexed; a dict keyed by the loop variable is LABEL-keyed; a container allocated with
n_classes rows is position-indexed and may be addressed by label only in modules whose
contract is "class ids are 0..K-1" (factor_analysis.py, from C16's quantifier).
"""
from __future__ import annotations

import ast

from ..dataflow import get_defuse, stores
from ..frontend import src, walk_no_nested

LABEL_SET_CALLS = ("set", "frozenset")
LABEL_SORTED_CALLS = ("sorted", "unique", "unique_labels", "list", "tuple")


def label_collections(P, f):
    """Names bound to a collection of distinct labels: name -> ('set'|'sorted', source expr)."""
    out = {}
    for st, t, v, k in stores(f):
        if k != "assign" or not isinstance(t, ast.Name) or not isinstance(v, ast.Call):
            continue
        fn = src(v.func).split(".")[-1]
        if fn in LABEL_SET_CALLS:
            out[t.id] = ("set", v)
        elif fn in LABEL_SORTED_CALLS and v.args:
            inner = v.args[0]
            if isinstance(inner, ast.Call) and src(inner.func).split(".")[-1] in LABEL_SET_CALLS:
                out[t.id] = ("sorted", v)
            elif isinstance(inner, ast.Name) and inner.id in out:
                out[t.id] = ("sorted" if fn in ("sorted", "unique", "unique_labels") else out[inner.id][0], v)
            elif fn in ("unique", "unique_labels"):
                out[t.id] = ("sorted", v)
    return out


def _iter_collection(it, colls):
    """If `it` iterates a label collection: (collection name or text, kind, wrapped) where wrapped
    says how the loop target is structured: 'elem' | 'enumerate'."""
    if isinstance(it, ast.Name) and it.id in colls:
        return it.id, colls[it.id][0], "elem"
    if isinstance(it, ast.Call):
        fn = src(it.func).split(".")[-1]
        if fn in LABEL_SET_CALLS:
            return src(it), "set", "elem"
        if fn in ("sorted", "unique", "unique_labels") and it.args:
            r = _iter_collection(it.args[0], colls)
            if r:
                return r[0], "sorted", "elem"
            return src(it), "sorted", "elem"
        if fn == "enumerate" and it.args:
            r = _iter_collection(it.args[0], colls)
            if r:
                return r[0], r[1], "enumerate"
    return None


class LabelLoop:
    def __init__(self, node, coll, kind, label_var, pos_var, is_comp):
        self.node, self.coll, self.kind, self.label_var, self.pos_var, self.is_comp = node, coll, kind, label_var, pos_var, is_comp


def label_loops(P, f):
    colls = label_collections(P, f)
    loops = []
    for n in walk_no_nested(f.node):
        gens = []
        if isinstance(n, ast.For):
            gens = [(n, n.target, n.iter, False)]
        elif isinstance(n, (ast.ListComp, ast.SetComp, ast.GeneratorExp, ast.DictComp)):
            gens = [(n, g.target, g.iter, True) for g in n.generators]
        for node, tgt, it, is_comp in gens:
            r = _iter_collection(it, colls)
            if not r:
                continue
            coll, kind, wrap = r
            if wrap == "elem" and isinstance(tgt, ast.Name):
                loops.append(LabelLoop(node, coll, kind, tgt.id, None, is_comp))
            elif wrap == "enumerate" and isinstance(tgt, ast.Tuple) and len(tgt.elts) == 2 and all(isinstance(e, ast.Name) for e in tgt.elts):
                loops.append(LabelLoop(node, coll, kind, tgt.elts[1].id, tgt.elts[0].id, is_comp))
    return colls, loops


def positional_containers(P, f, loops):
    """Local names bound to a sequence built by iterating a label collection: name -> (coll, node, 'list'|'dict')."""
    out = {}
    for st, t, v, k in stores(f):
        if k != "assign" or not isinstance(t, ast.Name) or v is None:
            continue
        comp = v
        # peel array constructors: np.array([...]), numerical_module.array(...), np.vstack, list(...)
        hops = 0
        while isinstance(comp, ast.Call) and comp.args and src(comp.func).split(".")[-1] in ("array", "asarray", "vstack", "stack", "list", "tuple", "concatenate") and hops < 3:
            comp = comp.args[0]
            hops += 1
        for lp in loops:
            if lp.is_comp and lp.node is comp:
                if isinstance(comp, ast.DictComp):
                    key_is_label = isinstance(comp.key, ast.Name) and comp.key.id == lp.label_var
                    out[t.id] = (lp.coll, comp, "dict-by-label" if key_is_label else "dict-other", lp)
                else:
                    out[t.id] = (lp.coll, comp, "list", lp)
    # a sequence built element by element from a positional sequence is positional in the same walk: [f(m) for m in members]
    for _ in range(2):
        for st, t, v, k in stores(f):
            if k != "assign" or not isinstance(t, ast.Name) or t.id in out or v is None:
                continue
            comp = v
            hops = 0
            while isinstance(comp, ast.Call) and comp.args and src(comp.func).split(".")[-1] in ("array", "asarray", "vstack", "stack", "list", "tuple") and hops < 3:
                comp = comp.args[0]
                hops += 1
            if isinstance(comp, (ast.ListComp, ast.GeneratorExp)) and len(comp.generators) == 1 and not comp.generators[0].ifs and isinstance(comp.generators[0].iter, ast.Name) and comp.generators[0].iter.id in out and out[comp.generators[0].iter.id][2] == "list":
                base = out[comp.generators[0].iter.id]
                out[t.id] = (base[0], comp, "list", base[3])
    # lists grown by append inside a label loop
    for lp in loops:
        if lp.is_comp:
            continue
        for n in walk_no_nested(lp.node):
            if isinstance(n, ast.Call) and isinstance(n.func, ast.Attribute) and n.func.attr == "append" and isinstance(n.func.value, ast.Name):
                out.setdefault(n.func.value.id, (lp.coll, n, "list", lp))
    # dicts filled under the loop variable
    for lp in loops:
        if lp.is_comp:
            continue
        for st, t, v, k in stores(lp.node):
            if isinstance(t, ast.Subscript) and isinstance(t.value, ast.Name) and isinstance(t.slice, ast.Name) and t.slice.id == lp.label_var:
                name = t.value.id
                # a dict literal / dict() initialised container
                for st2, t2, v2, k2 in stores(f):
                    if isinstance(t2, ast.Name) and t2.id == name and (isinstance(v2, ast.Dict) or (isinstance(v2, ast.Call) and src(v2.func) in ("dict", "collections.defaultdict", "defaultdict"))):
                        out[name] = (lp.coll, st, "dict-by-label", lp)
    return out


def check_label_indexing(P, R, f, contract_0_k=False, rule="IDX.I1"):
    """I1: a container positional in the iteration order of a label collection is never indexed by a label value."""
    R.analysed(f)
    colls, loops = label_loops(P, f)
    conts = positional_containers(P, f, loops)
    n = 0
    for lp in loops:
        body_nodes = list(walk_no_nested(lp.node)) if not lp.is_comp else list(ast.walk(lp.node))
        for s in body_nodes:
            if not isinstance(s, ast.Subscript) or not isinstance(s.value, ast.Name):
                continue
            name = s.value.id
            if name not in conts:
                continue
            coll, node, ckind, src_lp = conts[name]
            idx = s.slice
            if isinstance(idx, ast.Name) and idx.id == lp.label_var:
                n += 1
                what = f"{src(s)} ({name} built over {coll})"
                if ckind == "dict-by-label":
                    R.ok(rule, f.key, what, "dict keyed by label, looked up by label", s.lineno)
                elif contract_0_k and lp.kind == "sorted":
                    R.ok(rule, f.key, what, "labels are 0..K-1 by contract and iterated in sorted order", s.lineno)
                else:
                    R.violation(
                        rule, f.key, what,
                        f"`{name}` is positional in the iteration order of `{coll}` but is indexed with the label value `{idx.id}`: "
                        "labels that are not 0..K-1 raise IndexError or silently pick another class's entry, and the result depends on label values/set order", s.lineno,
                    )
            elif isinstance(idx, ast.Name) and lp.pos_var and idx.id == lp.pos_var:
                n += 1
                # the same collection walked in the same way: both sorted, or both in the iteration order of the same (unmodified)
                # set / list.  A set walked as it iterates and walked sorted are two different orders as soon as the ids are not
                # small consecutive integers
                same = src_lp.coll == lp.coll and src_lp.kind == lp.kind
                R.check(same, rule, f.key, f"{src(s)} ({name} built over {coll})", "position in the same enumeration", f"position from enumerating `{lp.coll}` ({lp.kind} order) indexes a sequence built over `{src_lp.coll}` ({src_lp.kind} order): entry k of the sequence belongs to another class than the k-th class visited whenever the two orders differ (set iteration order is not sorted order for negative, large or hash-colliding ids)", s.lineno)
    return n, colls, loops, conts


def check_label_uses(P, R, f, rule="IDX.value"):
    """Label values only select (== masks), key label-keyed containers, or are iterated: the result then depends
    on the partition only, not on label values."""
    colls, loops = label_loops(P, f)
    conts = positional_containers(P, f, loops)
    for lp in loops:
        nodes = list(ast.walk(lp.node)) if lp.is_comp else list(walk_no_nested(lp.node))
        for nd in nodes:
            if not (isinstance(nd, ast.Name) and nd.id == lp.label_var and isinstance(nd.ctx, ast.Load)):
                continue
            par = getattr(nd, "_parent", None)
            what = f"use of label `{nd.id}` in `{src(par)[:60]}`"
            if isinstance(par, ast.Compare) and all(isinstance(o, (ast.Eq, ast.NotEq)) for o in par.ops):
                R.ok(rule, f.key, what, "equality mask", nd.lineno)
            elif isinstance(par, ast.Subscript) and par.slice is nd:
                pass  # I1 decides
            elif isinstance(par, ast.DictComp) and par.key is nd:
                R.ok(rule, f.key, what, "dict key", nd.lineno)
            elif isinstance(par, (ast.FormattedValue, ast.JoinedStr)):
                pass
            elif isinstance(par, (ast.BinOp, ast.UnaryOp, ast.AugAssign)):
                R.violation(rule, f.key, what, "label value used arithmetically: the result depends on the values of the class labels, not only on the partition", nd.lineno)
            elif isinstance(par, ast.Call) and src(par.func).split(".")[0] in ("logger", "logging", "print"):
                pass
            else:
                R.note(f"{f.key}: label `{nd.id}` used in `{src(par)[:60]}` (not classified)")


def check_set_loop_order(P, R, f, rule="IDX.I2"):
    """I2: a loop over a *set* of labels may accumulate commutatively, store under the loop variable,
    or bind temporaries that do not survive the loop."""
    R.analysed(f)
    colls, loops = label_loops(P, f)
    du = get_defuse(f, P)
    n = 0
    for lp in loops:
        if lp.kind != "set" or lp.is_comp:
            continue
        n += 1
        loop = lp.node
        inner = [s for s in walk_no_nested(loop) if s is not loop]
        body_stmts = set(id(s) for s in inner if isinstance(s, ast.stmt))
        assigned = {}
        ok = True
        for st, t, v, k in stores(loop):
            if st is loop:
                continue
            if isinstance(t, ast.Name):
                if k == "aug":
                    if not isinstance(st.op, (ast.Add, ast.Sub, ast.Mult)):
                        R.violation(rule, f.key, f"{src(st)[:60]} in loop over {lp.coll}", "non-commutative accumulation in a loop over a set: result depends on set iteration order", st.lineno)
                        ok = False
                else:
                    assigned.setdefault(t.id, st)
            elif isinstance(t, ast.Subscript):
                key = t.slice
                keyed_by_label = any(isinstance(x, ast.Name) and x.id == lp.label_var for x in ast.walk(key))
                if k == "aug" and isinstance(st.op, (ast.Add, ast.Sub)):
                    continue
                if not keyed_by_label:
                    base = src(t.value)
                    # a store into a temporary created inside the loop is fine
                    if isinstance(t.value, ast.Name) and t.value.id in assigned:
                        continue
                    R.violation(rule, f.key, f"{src(t)} = ... in loop over {lp.coll}", f"store into `{base}` at a position not keyed by the class label inside a loop over a set: order-dependent", st.lineno)
                    ok = False
        # appends to lists that outlive the loop
        for c in inner:
            if isinstance(c, ast.Call) and isinstance(c.func, ast.Attribute) and c.func.attr in ("append", "extend", "insert") and isinstance(c.func.value, ast.Name):
                name = c.func.value.id
                if name in assigned:
                    continue
                R.violation(rule, f.key, f"{src(c)[:60]} in loop over {lp.coll}", f"`{name}` is grown in set-iteration order: its positions depend on hash order, not on the class ids", c.lineno)
                ok = False
        # temporaries must not be read after the loop
        after = [s for s in du.cfg.nodes() if id(s) not in body_stmts and s is not loop and du.cfg.reach_avoiding(loop, s)]
        for name, st in assigned.items():
            for s in after:
                if du.cfg.reach_avoiding(s, loop):
                    continue  # s is in an enclosing loop: conservatively skip
                for d in du.reaching(s, name):
                    if id(d.stmt) in body_stmts and any(isinstance(x, ast.Name) and x.id == name and isinstance(x.ctx, ast.Load) for e in _hdr(s) for x in ast.walk(e)):
                        R.violation(rule, f.key, f"`{name}` read after the loop over {lp.coll}", "value of the last set-iteration survives the loop: depends on set order", s.lineno)
                        ok = False
        if ok:
            R.ok(rule, f.key, f"for {lp.label_var} in {lp.coll}", "body only accumulates commutatively / stores under the label / binds temporaries", loop.lineno)
    return n


def _hdr(s):
    from ..dataflow import header_exprs

    return header_exprs(s)


def check_label_consistency(P, R, f, rule="IDX.consistent"):
    """Within a loop over class labels, every per-class container (one that is addressed by the loop's label
    somewhere in the loop) is addressed by that label everywhere in the loop."""
    colls, loops = label_loops(P, f)
    n = 0
    for lp in loops:
        if lp.is_comp:
            continue
        subs = [s for s in walk_no_nested(lp.node) if isinstance(s, ast.Subscript) and isinstance(s.value, ast.Name)]

        def first_index(s):
            i = s.slice
            if isinstance(i, ast.Tuple) and i.elts:
                i = i.elts[0]
            return i

        per_class = {s.value.id for s in subs if isinstance(first_index(s), ast.Name) and first_index(s).id == lp.label_var}
        # containers created inside the loop are temporaries
        local = {t.id for st, t, v, k in stores(lp.node) if isinstance(t, ast.Name)}
        for s in subs:
            if s.value.id not in per_class or s.value.id in local:
                continue
            i = first_index(s)
            n += 1
            ok = isinstance(i, ast.Name) and i.id == lp.label_var
            R.check(ok, rule, f.key, f"{src(s)} in loop over {lp.coll}", "addressed by the loop's class id", f"per-class container `{s.value.id}` is addressed with `{src(i)}` instead of the class id `{lp.label_var}`: classes are mixed up / the result depends on label values", s.lineno)
    return n


def check_class_select(P, R, key, rule="IDX.class-select"):
    """`_get_statistics_by_class_id(X, y, i)`: returns exactly the elements X[j] with y[j] == i.
    Structural necessary conditions: the mask compares the labels with the class id by ==, the positions come from the
    mask (np.where / nonzero / flatnonzero / enumerate-if), and the result indexes X with those positions."""
    import ast

    from ..dataflow import cone, get_defuse
    from ..frontend import src, walk_no_nested

    f = P.func(key)
    R.analysed(f)
    du = get_defuse(f, P)
    xs, ys, cid = f.value_params[:3]
    rets = [r for r in walk_no_nested(f.node) if isinstance(r, ast.Return) and r.value is not None]
    n = 0
    for r in rets:
        c = cone(du, r.value, r, interproc=False)
        cmps = [x for x in c.nodes if isinstance(x, ast.Compare) and len(x.ops) == 1]
        rel = []
        for x in cmps:
            names = {y_.id for y_ in ast.walk(x) if isinstance(y_, ast.Name)}
            if ys in names and cid in names:
                rel.append(x)
        n += 1
        R.check(bool(rel) and all(isinstance(x.ops[0], ast.Eq) for x in rel), rule, key, f"selection `{src(rel[0]) if rel else '?'}`", f"{ys} == {cid}", f"the per-class selection does not compare the labels with the class id by == ({[src(x) for x in rel] or 'no comparison'}): a class receives other classes' statistics", r.lineno)
        # the returned elements are elements of X
        elems = [x for x in c.nodes if isinstance(x, ast.Subscript) and isinstance(x.value, ast.Name) and x.value.id == xs]
        R.check(bool(elems) or any(isinstance(x, ast.Name) and x.id == xs for x in c.nodes), rule, key, f"result built from elements of {xs}", "", f"the result is not built from elements of {xs}", r.lineno)
    return n
