"""DTYPE.raw: arithmetic carried out in the *input's* dtype (DESIGN 3.x, added after the second seeding round).

Samples and user-supplied statistics may arrive in a narrow integer dtype (uint8 pixels, int16 PCM, hard counts).
NumPy / Dask element-wise arithmetic between two such arrays stays in that dtype and wraps around silently; a buffer
allocated with `*_like(raw)` truncates every float stored into it.  Model parameters (means, variances, weights,
subspaces, responsibilities) are floating point.  The analysis is a may-analysis over expression kinds

    raw    may still have the dtype of an input array
    float  floating point (anything that went through a float operand, a true division, exp/log/..., a float dtype=)
    int    Python-level integers (shapes, lengths, literals)
    other  not an array the rule talks about

R1 (overflow)   a product / square / power / dot / einsum whose array operands are all `raw` is computed in the input's
                dtype: the moment sums are wrong for narrow integer input while every float input passes.
R2 (truncation) a store `buf[...] = v` / `buf[...] += v` where `buf` is raw-typed (allocated `*_like(raw)` / `empty(..., dtype=raw.dtype)`)
                and v is float truncates the value.
"""
from __future__ import annotations

import ast

from ..dataflow import get_defuse
from ..frontend import src, walk_no_nested

PRESERVE = {
    "atleast_2d", "atleast_1d", "asarray", "array", "ascontiguousarray", "asanyarray", "vstack", "hstack", "stack", "concatenate", "reshape",
    "transpose", "squeeze", "copy", "abs", "absolute", "square", "power", "multiply", "subtract", "add", "maximum", "minimum", "where", "take",
    "repeat", "tile", "ravel", "flatten", "rechunk", "persist", "compute", "expand_dims", "broadcast_to", "negative", "clip", "diag", "outer",
    "dot", "matmul", "einsum", "tensordot", "inner", "cumsum", "cumprod", "prod", "zeros_like", "ones_like", "empty_like", "full_like", "sort",
    "unique", "roll", "flip", "swapaxes", "moveaxis", "triu", "tril", "kron", "map_blocks", "from_array", "from_delayed",
}
PRODUCTS = {"square", "power", "multiply", "dot", "matmul", "einsum", "tensordot", "inner", "outer", "prod", "cumprod", "kron"}
WIDEN = {"sum", "nansum", "count_nonzero", "bincount", "argmin", "argmax", "argsort", "nonzero", "flatnonzero", "searchsorted", "digitize", "len", "trace"}
FLOATS = {
    "exp", "log", "log1p", "expm1", "sqrt", "mean", "average", "var", "std", "cdist", "inv", "pinv", "solve", "cholesky", "eigh", "eig", "svd", "logsumexp",
    "logaddexp", "true_divide", "divide", "float", "float64", "zeros", "ones", "empty", "full", "eye", "identity", "normal", "random", "rand", "randn",
    "linspace", "isclose", "median", "norm", "det", "slogdet", "nanmean",
}
ARG0_ONLY = {"repeat", "tile", "reshape", "take", "roll", "expand_dims", "transpose", "swapaxes", "moveaxis", "squeeze", "broadcast_to", "rechunk", "flip", "sort", "cumsum", "cumprod", "prod", "clip", "triu", "tril", "diag"}
FLOAT_DTYPES = ("float", "np.float64", "np.float32", "numpy.float64", "np.double", "np.float_", "'float'", "'float64'", "'f8'", "np.longdouble")


def _fname(call):
    f = call.func
    return f.attr if isinstance(f, ast.Attribute) else (f.id if isinstance(f, ast.Name) else None)


class Kinds:
    def __init__(self, P, f, raw_params=(), raw_attrs=(), depth=0):
        self.P, self.f = P, f
        self.depth = depth
        self.du = get_defuse(f, P)
        self.raw_params = set(raw_params)
        self.raw_attrs = set(raw_attrs)  # attribute names that are raw when read from a parameter object (x_i.n, stats.sum_px)
        self._memo = {}
        self.widen_is_raw = False  # dtype *provenance* queries: a widened sum of raw values still has a dtype that comes from that input

    def kind(self, e, st, seen=None):
        seen = seen if seen is not None else set()
        K = self.kind
        if isinstance(e, ast.Constant):
            if isinstance(e.value, bool) or isinstance(e.value, int):
                return "int"
            if isinstance(e.value, float):
                return "float"
            return "other"
        if isinstance(e, ast.Name):
            if e.id in self.raw_params and not any(d.how != "param" for d in self.du.reaching(st, e.id)):
                return "raw"
            out = set()
            for d in self.du.reaching(st, e.id):
                k = (id(d.stmt), d.var, d.index)
                if d.how == "param":
                    out.add("raw" if d.var in self.raw_params else "other")
                    continue
                if k in seen:
                    continue
                seen.add(k)
                if d.how in ("substore",):
                    continue
                if d.value is None:
                    out.add("other")
                    continue
                if d.how == "aug":
                    # x op= v : the array keeps its own dtype - the kind it had on entry to the statement
                    out.add(K(ast.Name(id=d.var, ctx=ast.Load()), d.stmt, seen))
                    continue
                if d.how in ("iter",):
                    kk = K(d.value, d.stmt, seen)
                    out.add(kk if kk in ("raw", "float") else "other")
                    continue
                if d.how == "unpack":
                    out.add("other" if not isinstance(d.value, ast.Call) else K(d.value, d.stmt, seen))
                    continue
                out.add(K(d.value, d.stmt, seen))
            if "raw" in out:
                return "raw"
            if "float" in out:
                return "float"
            if out == {"int"}:
                return "int"
            return "other"
        if isinstance(e, ast.Attribute):
            if e.attr == "T":
                return K(e.value, st, seen)
            if e.attr in ("shape", "ndim", "size", "nbytes"):
                return "int"
            if e.attr in self.raw_attrs:
                return "raw"
            if e.attr in ("dtype",):
                return "other"
            return "float"  # model parameters and accumulated statistics of the package's own objects
        if isinstance(e, ast.Subscript):
            k = K(e.value, st, seen)
            return k
        if isinstance(e, ast.UnaryOp):
            return K(e.operand, st, seen)
        if isinstance(e, ast.BinOp):
            if isinstance(e.op, ast.Div):
                return "float"
            l, r = K(e.left, st, seen), K(e.right, st, seen)
            if "float" in (l, r):
                return "float"
            if "raw" in (l, r):
                return "raw" if {l, r} <= {"raw", "int"} else "other"
            if l == r == "int":
                return "int"
            return "other"
        if isinstance(e, ast.IfExp):
            ks = {K(e.body, st, seen), K(e.orelse, st, seen)}
            return "raw" if "raw" in ks else ("float" if "float" in ks else "other")
        if isinstance(e, (ast.List, ast.Tuple)):
            ks = {K(x, st, seen) for x in e.elts}
            return "raw" if "raw" in ks and "float" not in ks else ("float" if "float" in ks else ("int" if ks == {"int"} else "other"))
        if isinstance(e, (ast.ListComp, ast.GeneratorExp)):
            return K(e.elt, st, seen)
        if isinstance(e, ast.Call):
            fn = _fname(e)
            for kw in e.keywords:
                if kw.arg == "dtype":
                    t = src(kw.value)
                    if t in FLOAT_DTYPES:
                        return "float"
                    if t.endswith(".dtype"):
                        base = kw.value.value
                        return K(base, st, seen)
                    return "other"
            if fn == "astype" and e.args:
                t = src(e.args[0])
                if t in FLOAT_DTYPES:
                    return "float"
                if t.endswith(".dtype") and isinstance(e.args[0], ast.Attribute):
                    return K(e.args[0].value, st, seen)
                return "other"
            recv = e.func.value if isinstance(e.func, ast.Attribute) else None
            recv_is_mod = isinstance(recv, ast.Name) and recv.id in ("np", "numpy", "da", "dask", "scipy", "math") or (isinstance(recv, ast.Attribute) and src(recv).split(".")[0] in ("np", "numpy", "da", "dask", "scipy"))
            if not recv_is_mod and isinstance(recv, ast.Name):
                # a local alias of an array library bound by an import in each arm of a switch (`import numpy as numerical_module`)
                ds_ = self.du.all_defs(recv.id)
                recv_is_mod = bool(ds_) and all(isinstance(d_.stmt, (ast.Import, ast.ImportFrom)) for d_ in ds_)
            operands = list(e.args)
            if recv is not None and not recv_is_mod:
                operands = [recv] + operands
            if fn in FLOATS:
                return "float"
            if fn in WIDEN:
                ks = {K(a, st, seen) for a in operands[:1]}
                if self.widen_is_raw and "raw" in ks and fn in ("sum", "nansum", "trace"):
                    return "raw"
                return "float" if "float" in ks else "int" if ks <= {"int"} else "other"  # sums of small ints are widened by numpy
            if fn in PRESERVE:
                if fn == "einsum":
                    operands = [a for a in operands if not (isinstance(a, ast.Constant) and isinstance(a.value, str))]
                if fn in ARG0_ONLY:
                    operands = operands[:1]
                ks = [K(a, st, seen) for a in operands]
                ks = [k for k in ks if k != "int"] if fn not in ("array", "asarray") else ks
                if fn == "where" and len(e.args) == 3:
                    ks = [K(a, st, seen) for a in e.args[1:]]
                if "float" in ks:
                    return "float"
                if "raw" in ks:
                    # the promotion of a raw array with one of unknown dtype is not known to be raw (as for the operators)
                    return "raw" if all(k_ == "raw" for k_ in ks) or fn in ARG0_ONLY else "other"
                return "other" if ks else "int"
            # a function of the package: the kind of what it returns, with the arguments' kinds bound to its parameters
            if self.depth < 2:
                try:
                    kind_, fexpr, args, kws = self.P.peel_call(e, self.f)
                    tg = [t[1] for t in self.P.resolve_callee(fexpr, self.f) if t[0] == "repo"]
                except Exception:
                    tg = []
                if tg:
                    callee = tg[0]
                    bound = self.P.bind_args(callee, args, kws)
                    rawp = {p_ for p_, a_ in bound.items() if K(a_, st, seen) == "raw"}
                    sub = Kinds(self.P, callee, rawp, self.raw_attrs, self.depth + 1)
                    ks = set()
                    for r_ in walk_no_nested(callee.node):
                        if isinstance(r_, ast.Return) and r_.value is not None:
                            ks.add(sub.kind(r_.value, r_))
                    if "raw" in ks:
                        return "raw"
                    if ks and ks <= {"float"}:
                        return "float"
                    if "float" in ks:
                        return "float"
            return "other"
        return "other"


def check_function(P, R, key, raw_params=(), raw_attrs=(), rule="DTYPE.raw", _depth=0, _seen=None):
    """R1 and R2 on one function, and on the helpers of the package that receive one of its raw arrays (with the raw-ness of the
    arguments bound to their parameters).  Returns the number of product / store sites classified."""
    f = P.func(key)
    R.analysed(f)
    K = Kinds(P, f, raw_params, raw_attrs)
    du = K.du
    n = 0
    _seen = _seen if _seen is not None else set()
    _seen.add((key, tuple(sorted(raw_params))))
    if _depth < 2:
        for node in walk_no_nested(f.node):
            if not isinstance(node, ast.Call):
                continue
            st = du.stmt_of(node)
            if st is None:
                continue
            try:
                kind_, fexpr, args, kws = P.peel_call(node, f)
                tg = [t[1] for t in P.resolve_callee(fexpr, f) if t[0] == "repo"]
            except Exception:
                tg = []
            for callee in tg[:1]:
                try:
                    bound = P.bind_args(callee, args, kws)
                except Exception:
                    continue
                rawp = tuple(sorted(p_ for p_, a_ in bound.items() if a_ is not None and K.kind(a_, st) == "raw"))
                if rawp and (callee.key, rawp) not in _seen:
                    n += check_function(P, R, callee.key, rawp, raw_attrs, rule, _depth + 1, _seen)
    for node in walk_no_nested(f.node):
        st = du.stmt_of(node)
        if st is None:
            continue
        site = None
        if isinstance(node, ast.BinOp) and isinstance(node.op, (ast.Mult, ast.Pow, ast.MatMult)):
            l, r = K.kind(node.left, st), K.kind(node.right, st)
            if isinstance(node.op, ast.Pow):
                site = (l == "raw" and r in ("int", "raw"))
            else:
                site = (l == "raw" and r == "raw")
            n += 1
        elif isinstance(node, ast.Call) and _fname(node) in PRODUCTS:
            k = K.kind(node, st)
            n += 1
            if _fname(node) in ("square", "power", "prod", "cumprod"):
                site = k == "raw"
            else:
                ops = [a for a in node.args if not (isinstance(a, ast.Constant) and isinstance(a.value, str))]
                if isinstance(node.func, ast.Attribute) and not (isinstance(node.func.value, ast.Name) and node.func.value.id in ("np", "numpy", "da")):
                    ops = [node.func.value] + ops
                site = len(ops) >= 2 and all(K.kind(a, st) == "raw" for a in ops)
        if site:
            R.violation(rule + ".overflow", key, src(node)[:70], "this product is computed in the dtype of the input array: for narrow integer input (uint8, int16 ...) it wraps around silently and the accumulated moments are wrong, while the same values given as float64 give the right ones", getattr(node, "lineno", None))
        elif site is not None:
            R.ok(rule + ".overflow", key, src(node)[:70], "at least one operand is floating point (or the operands are not input arrays)", getattr(node, "lineno", None), nontrivial=False)
    # R2: stores into raw-typed buffers
    for st in du.cfg.nodes():
        tgt = val = None
        if isinstance(st, ast.Assign) and len(st.targets) == 1 and isinstance(st.targets[0], ast.Subscript):
            tgt, val = st.targets[0], st.value
        elif isinstance(st, ast.AugAssign):
            tgt, val = st.target, st.value
        if tgt is None:
            continue
        base = tgt
        while isinstance(base, ast.Subscript):
            base = base.value
        if not isinstance(base, ast.Name):
            continue
        kb = K.kind(base, st)
        if kb != "raw":
            continue
        # only buffers created inside the function (writing into the caller's array is another rule's business)
        if base.id in f.params and not any(d.how != "param" for d in du.reaching(st, base.id)):
            continue
        kv = K.kind(val, st)
        n += 1
        if kv == "float" and _dtype_guarded(P, f, st, base.id):
            R.ok(rule + ".truncation", key, src(st)[:70], f"the statement runs only when `{base.id}.dtype` passed a test (the in-place form is chosen for floating-point buffers only)", st.lineno, nontrivial=False)
            continue
        if kv in ("raw", "other") and len(K.raw_params) > 1:
            # whose dtype does the buffer have, and whose does the value have?  A buffer shaped after one input that is given
            # values whose dtype comes from another input truncates them when only the first is integer-typed
            def prov(p_, e_):
                k_ = Kinds(P, f, (p_,), raw_attrs)
                k_.widen_is_raw = True
                return k_.kind(e_, st) == "raw"
            mine = [p_ for p_ in sorted(K.raw_params) if prov(p_, base)]
            foreign = [p_ for p_ in sorted(K.raw_params) if p_ not in mine and prov(p_, val)]
            if mine and foreign and not any(prov(p_, val) for p_ in mine) and not _dtype_guarded(P, f, st, base.id):
                R.violation(rule + ".truncation", key, src(st)[:70], f"`{base.id}` was allocated with the dtype of `{mine[0]}` and receives a value whose dtype comes from `{foreign[0]}`: when `{mine[0]}` is integer-typed and `{foreign[0]}` is not, the value is truncated", st.lineno)
                continue
        if kv == "float":
            R.violation(rule + ".truncation", key, src(st)[:70], f"`{base.id}` was allocated with the dtype of an input array; storing a floating-point value into it truncates the value when that input is integer-typed", st.lineno)
        else:
            R.ok(rule + ".truncation", key, src(st)[:70], f"value kind {kv}", st.lineno, nontrivial=False)
    return n


def _tests_dtype_of(e, name):
    """`e` contains a comparison / issubdtype test of `<name>.dtype`"""
    for n in ast.walk(e):
        if isinstance(n, ast.Compare):
            for x in [n.left] + list(n.comparators):
                if isinstance(x, ast.Attribute) and x.attr == "dtype" and isinstance(x.value, ast.Name) and x.value.id == name:
                    return True
                if isinstance(x, ast.Attribute) and x.attr in ("kind", "char") and isinstance(x.value, ast.Attribute) and x.value.attr == "dtype" and isinstance(x.value.value, ast.Name) and x.value.value.id == name:
                    return True
        if isinstance(n, ast.Call) and src(n.func).split(".")[-1] in ("issubdtype", "can_cast", "result_type") and any(isinstance(a, ast.Attribute) and a.attr == "dtype" and isinstance(a.value, ast.Name) and a.value.id == name for a in n.args):
            return True
    return False


def _dtype_guarded(P, f, st, name):
    """The statement is reached only through the true arm of a test on the buffer's dtype - spelled in place or in a helper of
    the package that receives the buffer and tests the dtype of that parameter before returning True."""
    from ..cfg import enclosing_guards

    for test, pol_ in enclosing_guards(st):
        if not pol_:
            continue
        if _tests_dtype_of(test, name):
            return True
        for c in [x for x in ast.walk(test) if isinstance(x, ast.Call)]:
            for t_ in P.resolve_callee(c.func, f):
                if t_[0] != "repo":
                    continue
                b = P.bind_args(t_[1], c.args, c.keywords)
                for prm, a in b.items():
                    if isinstance(a, ast.Name) and a.id == name and any(_tests_dtype_of(x, prm) for x in ast.walk(t_[1].node) if isinstance(x, (ast.If, ast.Assign, ast.Return, ast.BoolOp))):
                        return True
    return False
