"""HIST: no state that outlives a call and is shared between trainings (C16: "... regardless of what was trained before").

A result can only depend on what was trained before through storage that survives a call and is not owned by the
estimator object being trained:
  H1  a module-level name bound to a mutable container (dict / list / set literal or constructor, defaultdict, OrderedDict,
      an lru_cache / cache decorator on a function that receives arrays or estimators) that some function mutates
      (element store, mutator method, `global` rebinding);
  H2  a class-body attribute bound to a mutable container that methods mutate through self / cls (shared by all instances);
  H3  a mutable default argument that the function mutates.
Expected count on today's tree: zero; the matcher is exercised on an embedded example on every run.
"""
from __future__ import annotations

import ast

from ..frontend import src

MUTATORS = {"append", "extend", "insert", "update", "add", "setdefault", "pop", "popitem", "clear", "remove", "discard", "sort", "__setitem__", "appendleft"}
CONTAINER_CALLS = {"dict", "list", "set", "defaultdict", "OrderedDict", "deque", "Counter", "WeakValueDictionary", "WeakKeyDictionary"}
CACHE_DECORATORS = {"lru_cache", "cache", "cached", "memoize"}

_EXAMPLE = '''
_SEEN = {}
_LOG = []
CONST = {"a": 1}
class M:
    shared = {}
    def fill(self, k, v):
        self.shared[k] = v
def f(x):
    if x in _SEEN:
        return _SEEN[x]
    _SEEN[x] = x + 1
    _LOG.append(x)
    return CONST["a"]
def g(x, acc=[]):
    acc.append(x)
    return acc
def h():
    global _LOG
    _LOG = []
'''


def _is_container(v):
    if isinstance(v, (ast.Dict, ast.List, ast.Set, ast.ListComp, ast.DictComp, ast.SetComp)):
        return True
    if isinstance(v, ast.Call):
        fn = v.func.attr if isinstance(v.func, ast.Attribute) else (v.func.id if isinstance(v.func, ast.Name) else None)
        return fn in CONTAINER_CALLS
    return False


def _mutations(fnode, name, via=None):
    """Statements of fnode that mutate the container bound to `name` (or to `<via>.name` when via is given)."""
    out = []

    def is_ref(e):
        if via is None:
            return isinstance(e, ast.Name) and e.id == name
        return isinstance(e, ast.Attribute) and e.attr == name and isinstance(e.value, ast.Name) and e.value.id in via

    local_rebind = via is None and any(isinstance(n, ast.Name) and n.id == name and isinstance(n.ctx, ast.Store) for n in ast.walk(fnode)) and not any(isinstance(n, ast.Global) and name in n.names for n in ast.walk(fnode))
    is_param = via is None and name in {a.arg for a in fnode.args.args + fnode.args.kwonlyargs + fnode.args.posonlyargs}
    if local_rebind or is_param:
        return out  # a local of the same name shadows the module-level one
    for n in ast.walk(fnode):
        if isinstance(n, (ast.Assign, ast.AugAssign, ast.AnnAssign, ast.Delete)):
            tg = n.targets if isinstance(n, (ast.Assign, ast.Delete)) else [n.target]
            for t in tg:
                if isinstance(t, ast.Subscript) and is_ref(t.value):
                    out.append(n)
                if via is None and isinstance(t, ast.Name) and t.id == name and any(isinstance(g, ast.Global) and name in g.names for g in ast.walk(fnode)):
                    out.append(n)
                if isinstance(n, ast.AugAssign) and is_ref(t):
                    out.append(n)
        if isinstance(n, ast.Call) and isinstance(n.func, ast.Attribute) and n.func.attr in MUTATORS and is_ref(n.func.value):
            out.append(n)
    return out


SCALAR_FUNCS = {"log", "log2", "log10", "log1p", "exp", "expm1", "sqrt", "pow", "floor", "ceil", "abs", "fabs", "float", "int", "bool", "min", "max", "round", "gamma", "lgamma", "gammaln", "comb", "factorial", "isfinite", "isnan", "float64", "float32", "int64", "len", "str", "hash", "tuple"}


def memo_is_value_keyed(fn, tree, cls=None):
    """True when a memoising decorator on `fn` cannot make a result depend on what was computed before: the function is a pure
    function of scalar arguments (hashed by value) that returns a scalar.  Decided structurally:
      - not a method with a receiver (an estimator is hashed by identity: the entry goes stale when it is mutated),
      - no attribute is read from a parameter or a local (only from imported modules), no global / nonlocal statement,
      - free names are imports, builtins or module constants bound once to a non-container,
      - only scalar math functions are called (no array constructor: a cached array could be changed by a caller), no display
        of a mutable container, no random number source."""
    import builtins
    if cls is not None and not any((isinstance(d, ast.Name) and d.id == "staticmethod") for d in fn.decorator_list):
        return False
    a = fn.args
    params = {x.arg for x in a.posonlyargs + a.args + a.kwonlyargs} | ({a.vararg.arg} if a.vararg else set()) | ({a.kwarg.arg} if a.kwarg else set())
    imports = set()
    once = {}
    for st in tree.body:
        if isinstance(st, ast.Import):
            imports |= {(al.asname or al.name).split(".")[0] for al in st.names}
        elif isinstance(st, ast.ImportFrom):
            imports |= {al.asname or al.name for al in st.names}
        elif isinstance(st, (ast.Assign, ast.AnnAssign)) and getattr(st, "value", None) is not None:
            for t in (st.targets if isinstance(st, ast.Assign) else [st.target]):
                if isinstance(t, ast.Name):
                    once[t.id] = once.get(t.id, 0) + (1 if not _is_container(st.value) else 99)
    locals_ = set(params)
    for n in ast.walk(fn):
        if isinstance(n, ast.Name) and isinstance(n.ctx, ast.Store):
            locals_.add(n.id)
    for n in [x for st in fn.body for x in ast.walk(st)]:
        if isinstance(n, (ast.Global, ast.Nonlocal, ast.FunctionDef, ast.AsyncFunctionDef, ast.Lambda, ast.ClassDef, ast.List, ast.Dict, ast.Set, ast.ListComp, ast.DictComp, ast.SetComp, ast.GeneratorExp, ast.Yield, ast.YieldFrom, ast.Await, ast.Starred, ast.Subscript)):
            return False
        if isinstance(n, ast.Attribute):
            root = n
            while isinstance(root, ast.Attribute):
                root = root.value
            if not (isinstance(root, ast.Name) and root.id in imports and root.id not in locals_):
                return False
            if "random" in src(n):
                return False
        if isinstance(n, ast.Call):
            nm = n.func.attr if isinstance(n.func, ast.Attribute) else (n.func.id if isinstance(n.func, ast.Name) else "")
            if nm not in SCALAR_FUNCS:
                return False
        if isinstance(n, ast.Name) and isinstance(n.ctx, ast.Load) and n.id not in locals_:
            if not (n.id in imports or hasattr(builtins, n.id) or once.get(n.id) == 1):
                return False
    return True


def scan_module(tree, modname):
    """[(kind, where, name, node, text)] of H1-H3 findings in one module."""
    found = []
    funcs = [(n, None) for n in tree.body if isinstance(n, (ast.FunctionDef, ast.AsyncFunctionDef))]
    for c in [n for n in tree.body if isinstance(n, ast.ClassDef)]:
        funcs += [(m, c) for m in c.body if isinstance(m, (ast.FunctionDef, ast.AsyncFunctionDef))]
    allfuncs = [(n, None) for n in ast.walk(tree) if isinstance(n, (ast.FunctionDef, ast.AsyncFunctionDef))]
    # H1 module-level containers
    for st in tree.body:
        if isinstance(st, (ast.Assign, ast.AnnAssign)) and getattr(st, "value", None) is not None and _is_container(st.value):
            for t in (st.targets if isinstance(st, ast.Assign) else [st.target]):
                if isinstance(t, ast.Name) and t.id != "__all__":
                    for fn, _c in allfuncs:
                        for m in _mutations(fn, t.id):
                            found.append(("H1", f"{modname}:{fn.name}", t.id, m, src(m)[:70]))
    # H1' caching decorators
    owner = {id(m): c for c in ast.walk(tree) if isinstance(c, ast.ClassDef) for m in c.body}
    for fn, _c in allfuncs:
        for d in fn.decorator_list:
            dn = d.func if isinstance(d, ast.Call) else d
            nm = dn.attr if isinstance(dn, ast.Attribute) else (dn.id if isinstance(dn, ast.Name) else "")
            if nm in CACHE_DECORATORS and not memo_is_value_keyed(fn, tree, owner.get(id(fn))):
                found.append(("H1", f"{modname}:{fn.name}", "@" + nm, fn, f"@{src(d)} def {fn.name}(...)"))
    # H2 class-body containers
    for c in [n for n in ast.walk(tree) if isinstance(n, ast.ClassDef)]:
        for st in c.body:
            if isinstance(st, (ast.Assign, ast.AnnAssign)) and getattr(st, "value", None) is not None and _is_container(st.value):
                for t in (st.targets if isinstance(st, ast.Assign) else [st.target]):
                    if isinstance(t, ast.Name):
                        for m_ in [x for x in c.body if isinstance(x, ast.FunctionDef)]:
                            recv = {m_.args.args[0].arg} if m_.args.args else set()
                            recv |= {c.name, "cls"}
                            rebound = any(isinstance(n, ast.Assign) and any(isinstance(tt, ast.Attribute) and tt.attr == t.id and isinstance(tt.value, ast.Name) and tt.value.id in recv for tt in n.targets) for n in ast.walk(m_) if m_.name == "__init__")
                            if rebound:
                                continue
                            for m in _mutations(m_, t.id, via=recv):
                                found.append(("H2", f"{modname}:{c.name}.{m_.name}", f"{c.name}.{t.id}", m, src(m)[:70]))
    # H3 mutable defaults
    for fn, _c in allfuncs:
        a = fn.args
        pos = a.posonlyargs + a.args
        for arg, dflt in list(zip(pos[len(pos) - len(a.defaults):], a.defaults)) + [(x, y) for x, y in zip(a.kwonlyargs, a.kw_defaults) if y is not None]:
            if _is_container(dflt):
                muts = []
                for n in ast.walk(fn):
                    if isinstance(n, ast.Call) and isinstance(n.func, ast.Attribute) and n.func.attr in MUTATORS and isinstance(n.func.value, ast.Name) and n.func.value.id == arg.arg:
                        muts.append(n)
                    if isinstance(n, (ast.Assign, ast.AugAssign)):
                        for t in (n.targets if isinstance(n, ast.Assign) else [n.target]):
                            if isinstance(t, ast.Subscript) and isinstance(t.value, ast.Name) and t.value.id == arg.arg:
                                muts.append(n)
                for m in muts:
                    found.append(("H3", f"{modname}:{fn.name}", arg.arg, m, src(m)[:70]))
    return found


def check(P, R, modules=None, rule="HIST"):
    ex = scan_module(ast.parse(_EXAMPLE), "example")
    kinds = sorted((k, n) for k, _w, n, _m, _t in ex)
    want = sorted([("H1", "_SEEN"), ("H1", "_LOG"), ("H1", "_LOG"), ("H2", "M.shared"), ("H3", "acc")])
    if kinds != want:
        R.error(f"HIST matcher self-check failed: {kinds}")
    n = 0
    mods = [m for m in P.modules.values() if modules is None or m.name in modules]
    for m in mods:
        for kind, where, name, node, text in scan_module(m.tree, m.name):
            n += 1
            why = {
                "H1": f"module-level `{name}` is storage shared by every estimator trained in this process; this statement changes it, so a later training can return what an earlier one computed (the result depends on what was trained before)",
                "H2": f"class attribute `{name}` is one container shared by all instances; this statement changes it, so one estimator's training leaks into another's",
                "H3": f"the mutable default `{name}` persists between calls; this statement changes it, so a call depends on the calls before it",
            }[kind]
            R.violation(f"{rule}.{kind}", where, text, why, getattr(node, "lineno", None))
    R.ok(rule, "package", f"no persistent shared mutable state is written in {len(mods)} modules ({n} sites found); matcher exercised on the embedded example", "")
    return n
