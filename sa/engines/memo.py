"""MEMO: coherence of lazily memoised derived state (generalisation of the CACHE rules to every class).

A *memo* is an attribute C of a class that is filled under an "is it unset?" guard
(`if self.C is None:` / `if not hasattr(self, "C")` / `if "k" not in self.C`) with a value derived from other
attributes S of the same object (through getters and methods of the object).  Necessary conditions for "no stale
memo survives an update of what it was derived from":

  M1  every public operation that may store a source attribute s in S (transitively; OWN store summaries) also
      stores C (a refresh or a reset) on the same object;
  M2  every source is encapsulated: a private attribute, or a property whose setter is such a public writer -
      a plain public attribute can be assigned from outside without the memo noticing.
"""
from __future__ import annotations

import ast

from ..cfg import guards_of
from ..dataflow import cone, get_defuse, stores
from ..frontend import src, walk_no_nested


def _unset_guard(test, me):
    """If `test` says "memo C of self is unset": return C."""
    t = test
    if isinstance(t, ast.Compare) and len(t.ops) == 1 and isinstance(t.ops[0], ast.Is) and isinstance(t.comparators[0], ast.Constant) and t.comparators[0].value is None:
        l = t.left
        if isinstance(l, ast.Attribute) and isinstance(l.value, ast.Name) and l.value.id == me:
            return l.attr
        if isinstance(l, ast.Call) and isinstance(l.func, ast.Name) and l.func.id == "getattr" and len(l.args) >= 2 and isinstance(l.args[0], ast.Name) and l.args[0].id == me and isinstance(l.args[1], ast.Constant):
            return l.args[1].value
        if isinstance(l, ast.Call) and isinstance(l.func, ast.Attribute) and l.func.attr == "get" and isinstance(l.func.value, ast.Attribute) and isinstance(l.func.value.value, ast.Name) and l.func.value.value.id == me:
            return l.func.value.attr
    if isinstance(t, ast.UnaryOp) and isinstance(t.op, ast.Not):
        o = t.operand
        if isinstance(o, ast.Call) and isinstance(o.func, ast.Name) and o.func.id == "hasattr" and len(o.args) == 2 and isinstance(o.args[0], ast.Name) and o.args[0].id == me and isinstance(o.args[1], ast.Constant):
            return o.args[1].value
        if isinstance(o, ast.Attribute) and isinstance(o.value, ast.Name) and o.value.id == me:
            return o.attr  # `if not self._cache:`
    if isinstance(t, ast.Compare) and len(t.ops) == 1 and isinstance(t.ops[0], ast.NotIn):
        c = t.comparators[0]
        if isinstance(c, ast.Attribute) and isinstance(c.value, ast.Name) and c.value.id == me:
            return c.attr
    if isinstance(t, ast.BoolOp):
        for v in t.values:
            r = _unset_guard(v, me)
            if r:
                return r
    return None


def _reads_attr(c, recv, attr):
    """Does the cone read `recv.attr` (as an attribute or through getattr(recv, "attr", ...))?"""
    if f"{recv}.{attr}" in c.attrs or any(a.startswith(f"{recv}.{attr}.") for a in c.attrs):
        return True
    for n in c.nodes:
        if isinstance(n, ast.Call) and isinstance(n.func, ast.Name) and n.func.id in ("getattr", "hasattr") and len(n.args) >= 2 and isinstance(n.args[0], ast.Name) and n.args[0].id == recv and isinstance(n.args[1], ast.Constant) and n.args[1].value == attr:
            return True
    return False


def find_memos(P, ci):
    """{memo attr: (set of source attrs of the object, defining function, statement)}

    A memo is an attribute C of an object of class `ci` that some function (a method, or a module-level function that
    receives the object) stores under a test that reads C itself - "fill it when it is unset / out of date" - with a
    value derived from other attributes of the same object.  Sources that the same test compares with the stored key
    (`cache[0] is not obj.T`) are validated on every use and are not sources of staleness."""
    out = {}
    cnames = {c.name for c in P.mro(ci)} | {c.name for c in P.subclasses(ci)} | {ci.name}
    for m in P.all_funcs():
        if m.qualname.endswith("__init__"):
            continue
        du = None
        for st, t, v, k in stores(m):
            if v is None or k != "assign":
                continue
            tgt = recv = None
            if isinstance(t, ast.Attribute) and isinstance(t.value, ast.Name):
                tgt, recv = t.attr, t.value
            elif isinstance(t, ast.Subscript) and isinstance(t.value, ast.Attribute) and isinstance(t.value.value, ast.Name):
                tgt, recv = t.value.attr, t.value.value  # obj._cache[key] = value
            if tgt is None:
                continue
            if recv.id == m.self_name:
                if m.cls is None or m.cls.name not in cnames:
                    continue
            else:
                rc = P.recv_class(recv, m)
                if rc is None or rc.name not in cnames:
                    continue
            me = recv.id
            du = du or get_defuse(m, P)
            sst = du.stmt_of(st)
            is_memo = False
            validated = set()
            for test, pol in guards_of(sst):
                if _unset_guard(test, me) == tgt and pol:
                    is_memo = True
                    continue
                # the test may read the memo through a local (`terms = getattr(obj, "_c", None); if terms is None or ...`)
                p_ = sst
                ifst = None
                while p_ is not None:
                    p_ = getattr(p_, "_parent", None)
                    if isinstance(p_, (ast.If, ast.While)) and p_.test is test:
                        ifst = p_
                        break
                if ifst is None:
                    continue
                tc = cone(du, test, ifst, interproc=False)
                if _reads_attr(tc, me, tgt):
                    # only "fill when unset / stale" shapes: the test compares the memo (or a part of it) with None or with
                    # a current attribute of the object by identity / equality
                    shapes = [x for x in ast.walk(test) if isinstance(x, ast.Compare) and isinstance(x.ops[0], (ast.Is, ast.IsNot, ast.Eq, ast.NotEq, ast.NotIn, ast.In))] + [x for x in ast.walk(test) if isinstance(x, ast.UnaryOp) and isinstance(x.op, ast.Not)]
                    if shapes:
                        is_memo = True
                        for a in tc.attrs:
                            parts = a.split(".")
                            if parts[0] == me and len(parts) >= 2 and parts[1] != tgt:
                                validated.add(parts[1])
            if not is_memo:
                continue
            c = cone(du, v, sst, interproc=True)
            srcs = set()
            for a in c.attrs:
                parts = a.split(".")
                if parts[0] in (me, f"<{ci.name}>") or parts[0].startswith("<"):
                    if len(parts) >= 2 and parts[1] != tgt:
                        srcs.add(parts[1])
            srcs = {s for s in srcs if s not in ("shape", "ndim")} - validated
            if srcs:
                old = out.get(tgt)
                out[tgt] = ((old[0] | srcs) if old else srcs, m, st)
    return out


def canonical(P, ci, attr):
    """Public property name -> the private attribute its alias-getter returns (U -> _U); else attr."""
    pr = P.lookup_prop(ci, attr)
    if pr and "get" in pr:
        b = pr["get"].body()
        if len(b) >= 1 and isinstance(b[-1], ast.Return) and isinstance(b[-1].value, ast.Attribute) and isinstance(b[-1].value.value, ast.Name) and b[-1].value.value.id == pr["get"].self_name:
            return b[-1].value.attr
    return attr


def check_class(P, R, own, clsname, rule="MEMO"):
    ci = P.cls(clsname)
    memos = find_memos(P, ci)
    n = 0
    classes = [ci] + P.subclasses(ci)
    cnames = {c.name for c in classes} | {c.name for c in P.mro(ci)}
    for C, (srcs, deff, st) in sorted(memos.items()):
        srcs_c = {canonical(P, ci, s) for s in srcs}
        # attributes that are themselves objects (self.ubm.variances -> source 'ubm'): keep the first component only
        R.note(f"{clsname}: memo `{C}` (filled in {deff.qualname}) is derived from {sorted(srcs_c)}")
        for s in sorted(srcs_c):
            n += 1
            what = f"{clsname}.{C} memoises a value derived from .{s}"
            # ---- M2: encapsulation -----------------------------------------------------------------------
            public_plain = not s.startswith("_") and P.lookup_prop(ci, s) is None
            init = P.lookup_method(ci, "__init__")
            is_ctor_config = False
            if public_plain:
                # a public plain attribute that is only ever assigned in __init__ inside the package is configuration, but it can
                # still be assigned from outside; it is accepted only if no function of the package assigns it after construction
                writers = []
                for f in P.all_funcs():
                    for st2, t2, v2, k2 in stores(f):
                        if isinstance(t2, ast.Attribute) and t2.attr == s and not f.qualname.endswith("__init__"):
                            rc = P.recv_class(t2.value, f)
                            if rc is None or rc.name in cnames:
                                writers.append((f, st2))
                    from ..dataflow import setattr_expansions
                    exp, _u = setattr_expansions(f)
                    for st2, tgt, name, so, val in exp:
                        if name == s:
                            writers.append((f, st2))
                if writers:
                    R.violation(rule + ".M2", f"{ci.module.name}:{clsname}", what, f".{s} is a plain public attribute that is assigned after construction (e.g. in {writers[0][0].key}: `{src(writers[0][1])[:50]}`) without any setter that could reset `{C}`: after such an assignment the memo is stale and results are computed with the old {s}", getattr(writers[0][1], "lineno", None))
                    continue
                R.ok(rule + ".M2", f"{ci.module.name}:{clsname}", what, "source is set at construction only")
                continue
            # ---- M1: every public writer of s also writes C ------------------------------------------------------
            bad = []
            nw = 0
            for f in P.all_funcs():
                if f.qualname.endswith("__init__"):
                    continue
                sm = own.sums.get(f.key)
                if sm is None:
                    continue
                public = not f.qualname.split(".")[-1].startswith("_") or f.role in ("fset",)
                if f.role == "fget":
                    continue
                if not public:
                    continue
                targets = {}
                for (o, attr), (val, wit) in sm.stores.items():
                    targets.setdefault(o, set()).add(attr)
                for o, attrs in targets.items():
                    if s in attrs or any(canonical(P, ci, a) == s for a in attrs):
                        # is o an object of this class?
                        if f.cls is not None and o[1] == f.self_name and not o[2]:
                            if not (f.cls.name in cnames):
                                continue
                        elif f.cls is None or o[1] != f.self_name:
                            ann = f.annotations.get(o[1])
                            rc = P._ann_class(ann) if ann is not None else None
                            if rc is None:
                                cname = P.RECEIVER_NAMES.get((f.module.name, o[1]))
                                rc = P.class_index.get(cname) if cname else None
                            if o[2] or rc is None or rc.name not in cnames:
                                continue
                        else:
                            continue
                        nw += 1
                        if C not in attrs:
                            bad.append((f, o))
            if bad:
                f0 = bad[0][0]
                R.violation(rule + ".M1", f"{ci.module.name}:{clsname}", what, f"{', '.join(sorted({b[0].qualname for b in bad})[:4])} store(s) .{s} without refreshing or resetting `{C}`: a value memoised before the call is used afterwards with the new {s} (stale {C})")
            else:
                R.ok(rule + ".M1", f"{ci.module.name}:{clsname}", what, f"all {nw} public writers of .{s} also store {C}")
    return n, memos
