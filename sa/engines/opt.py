"""OPT: optional factors (parameters that may be None) are used only where they are present.

ISV has no speaker factors and JFA's kernels receive y / z / x as optional arguments; the kernels select
`value if p is not None else <neutral>`.  Rules, per selection (conditional expression or if/else) on `p is None` / `p is not None`:
  O1  the arm taken when p *is* None does not use p as the base of a subscript / attribute / call or as an arithmetic operand
      (a contradiction in Engler's sense: the test believes p may be None, the arm believes it is not);
  O2  when one arm is a neutral constant and the other an expression, the expression stands in the arm where p is present, and the
      neutral constant is None or 0 (an absent factor contributes nothing).
"""
from __future__ import annotations

import ast

from ..frontend import const_value, src, walk_no_nested


def _none_test(test):
    """-> (name, True if the test holds when name is None) or None"""
    if isinstance(test, ast.Compare) and len(test.ops) == 1 and isinstance(test.left, ast.Name) and isinstance(test.comparators[0], ast.Constant) and test.comparators[0].value is None:
        if isinstance(test.ops[0], ast.Is):
            return test.left.id, True
        if isinstance(test.ops[0], ast.IsNot):
            return test.left.id, False
    return None


def _derefs(node, name):
    out = []
    for n in ast.walk(node):
        if isinstance(n, (ast.Subscript, ast.Attribute)) and isinstance(n.value, ast.Name) and n.value.id == name:
            out.append(n)
        elif isinstance(n, ast.BinOp) and any(isinstance(s, ast.Name) and s.id == name for s in (n.left, n.right)):
            out.append(n)
        elif isinstance(n, ast.Call) and isinstance(n.func, ast.Name) and n.func.id == name:
            out.append(n)
    return out


def _neutral(e):
    return isinstance(e, ast.Constant) and (e.value is None or (isinstance(e.value, (int, float)) and not isinstance(e.value, bool)))


def check_function(P, R, key, rule="OPT"):
    f = P.func(key)
    R.analysed(f)
    n = 0
    for node in walk_no_nested(f.node):
        if isinstance(node, ast.IfExp):
            nt = _none_test(node.test)
            if nt is None or nt[0] not in f.params:
                continue
            name, when_none = nt
            none_arm, some_arm = (node.body, node.orelse) if when_none else (node.orelse, node.body)
            n += 1
            d = _derefs(none_arm, name)
            if d:
                R.violation(rule + ".O1", key, src(node)[:70], f"`{src(d[0])[:40]}` uses `{name}` in the arm taken when `{name}` is None: the absent factor is dereferenced (and the present one is ignored)", node.lineno)
                continue
            if isinstance(none_arm, ast.Name) and none_arm.id == name and not (isinstance(some_arm, ast.Name) and some_arm.id == name):
                R.violation(rule + ".O2", key, src(node)[:70], f"when `{name}` is None the selection yields `{name}` itself (None) and when it is given it is replaced by `{src(some_arm)[:30]}`: the default and the supplied value are swapped", node.lineno)
                continue
            if _neutral(none_arm) != _neutral(some_arm) or (_neutral(none_arm) and _neutral(some_arm)):
                if _neutral(some_arm) and not _neutral(none_arm):
                    R.violation(rule + ".O2", key, src(node)[:70], f"the contribution `{src(none_arm)[:40]}` is selected when `{name}` is None and the neutral constant when it is present: the term of a present factor is dropped", node.lineno)
                    continue
                if _neutral(none_arm) and none_arm.value not in (None, 0, 0.0):
                    R.violation(rule + ".O2", key, src(node)[:70], f"an absent `{name}` contributes the constant {none_arm.value!r} instead of nothing (0 / None)", node.lineno)
                    continue
            R.ok(rule, key, src(node)[:70], f"`{name}` is used only where it is present; absent -> {src(none_arm)[:20]}", node.lineno)
        elif isinstance(node, ast.If):
            nt = _none_test(node.test)
            if nt is None or nt[0] not in f.params:
                continue
            name, when_none = nt
            none_arm = node.body if when_none else node.orelse
            n += 1
            # the parameter may be re-bound in the arm (p = default) - then later uses are fine
            rebound = any(isinstance(x, ast.Name) and x.id == name and isinstance(x.ctx, ast.Store) for st in none_arm for x in ast.walk(st))
            d = [] if rebound else [x for st in none_arm for x in _derefs(st, name)]
            R.check(not d, rule + ".O1", key, f"if {src(node.test)}", f"`{name}` not used where it is None", f"`{src(d[0])[:40] if d else ''}` uses `{name}` on the path where `{name}` is None", node.lineno)
    return n
