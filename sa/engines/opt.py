"""OPT: optional factors (parameters that may be None) are used only where they are present.

ISV has no speaker factors and JFA's kernels receive y / z / x as optional arguments; the kernels select
`value if p is not None else <neutral>`.  Rules, per selection (conditional expression or if/else) on `p is None` / `p is not None`:
  O1  the arm taken when p *is* None does not use p as the base of a subscript / attribute / call or as an arithmetic operand
      (a contradiction in Engler's sense: the test believes p may be None, the arm believes it is not);
  O2  when one arm is a neutral constant and the other an expression, the expression stands in the arm where p is present, and the
      neutral constant is None or 0 (an absent factor contributes nothing).
"""
from __future__ import annotations

import ast

from ..frontend import const_value, src, walk_no_nested


def _none_test(test):
    """-> (name, True if the test holds when name is None) or None"""
    if isinstance(test, ast.Compare) and len(test.ops) == 1 and isinstance(test.left, ast.Name) and isinstance(test.comparators[0], ast.Constant) and test.comparators[0].value is None:
        if isinstance(test.ops[0], ast.Is):
            return test.left.id, True
        if isinstance(test.ops[0], ast.IsNot):
            return test.left.id, False
    return None


def _derefs(node, name):
    out = []
    for n in ast.walk(node):
        if isinstance(n, (ast.Subscript, ast.Attribute)) and isinstance(n.value, ast.Name) and n.value.id == name:
            out.append(n)
        elif isinstance(n, ast.BinOp) and any(isinstance(s, ast.Name) and s.id == name for s in (n.left, n.right)):
            out.append(n)
        elif isinstance(n, ast.Call) and isinstance(n.func, ast.Name) and n.func.id == name:
            out.append(n)
    return out


def _neutral(e):
    return isinstance(e, ast.Constant) and (e.value is None or (isinstance(e.value, (int, float)) and not isinstance(e.value, bool)))


def check_function(P, R, key, rule="OPT"):
    f = P.func(key)
    R.analysed(f)
    n = 0
    for node in walk_no_nested(f.node):
        if isinstance(node, ast.IfExp):
            nt = _none_test(node.test)
            if nt is None or nt[0] not in f.params:
                continue
            name, when_none = nt
            none_arm, some_arm = (node.body, node.orelse) if when_none else (node.orelse, node.body)
            n += 1
            d = _derefs(none_arm, name)
            if d:
                R.violation(rule + ".O1", key, src(node)[:70], f"`{src(d[0])[:40]}` uses `{name}` in the arm taken when `{name}` is None: the absent factor is dereferenced (and the present one is ignored)", node.lineno)
                continue
            if isinstance(none_arm, ast.Name) and none_arm.id == name and not (isinstance(some_arm, ast.Name) and some_arm.id == name):
                R.violation(rule + ".O2", key, src(node)[:70], f"when `{name}` is None the selection yields `{name}` itself (None) and when it is given it is replaced by `{src(some_arm)[:30]}`: the default and the supplied value are swapped", node.lineno)
                continue
            if _neutral(none_arm) != _neutral(some_arm) or (_neutral(none_arm) and _neutral(some_arm)):
                if _neutral(some_arm) and not _neutral(none_arm):
                    R.violation(rule + ".O2", key, src(node)[:70], f"the contribution `{src(none_arm)[:40]}` is selected when `{name}` is None and the neutral constant when it is present: the term of a present factor is dropped", node.lineno)
                    continue
                if _neutral(none_arm) and none_arm.value not in (None, 0, 0.0):
                    R.violation(rule + ".O2", key, src(node)[:70], f"an absent `{name}` contributes the constant {none_arm.value!r} instead of nothing (0 / None)", node.lineno)
                    continue
            R.ok(rule, key, src(node)[:70], f"`{name}` is used only where it is present; absent -> {src(none_arm)[:20]}", node.lineno)
        elif isinstance(node, ast.If):
            nt = _none_test(node.test)
            if nt is None or nt[0] not in f.params:
                continue
            name, when_none = nt
            none_arm = node.body if when_none else node.orelse
            n += 1
            # the parameter may be re-bound in the arm (p = default) - then later uses are fine
            rebound = any(isinstance(x, ast.Name) and x.id == name and isinstance(x.ctx, ast.Store) for st in none_arm for x in ast.walk(st))
            d = [] if rebound else [x for st in none_arm for x in _derefs(st, name)]
            R.check(not d, rule + ".O1", key, f"if {src(node.test)}", f"`{name}` not used where it is None", f"`{src(d[0])[:40] if d else ''}` uses `{name}` on the path where `{name}` is None", node.lineno)
    return n


def _config_fallback_params(P, g):
    """{parameter: configuration attribute} for parameters of g that default to None and are replaced by an attribute of the
    object when None: `p = self.x if p is None else p` / `if p is None: p = self.x`."""
    out = {}
    a = g.node.args
    pos = a.posonlyargs + a.args
    dflt = dict(zip([x.arg for x in pos[len(pos) - len(a.defaults):]], a.defaults))
    dflt.update({x.arg: d for x, d in zip(a.kwonlyargs, a.kw_defaults) if d is not None})
    cand = {p for p, d in dflt.items() if isinstance(d, ast.Constant) and d.value is None}
    if not cand or not g.self_name:
        return out
    for n in walk_no_nested(g.node):
        tgt = val = test = None
        if isinstance(n, ast.Assign) and len(n.targets) == 1 and isinstance(n.targets[0], ast.Name) and isinstance(n.value, ast.IfExp):
            tgt, test = n.targets[0].id, n.value.test
            nt = _none_test(test)
            if nt and nt[0] == tgt and tgt in cand:
                val = n.value.body if nt[1] else n.value.orelse
        elif isinstance(n, ast.If) and len(n.body) == 1 and isinstance(n.body[0], ast.Assign) and len(n.body[0].targets) == 1 and isinstance(n.body[0].targets[0], ast.Name):
            nt = _none_test(n.test)
            if nt and nt[1] and nt[0] == n.body[0].targets[0].id and nt[0] in cand:
                tgt, val = nt[0], n.body[0].value
        if tgt and isinstance(val, ast.Attribute) and isinstance(val.value, ast.Name) and val.value.id == g.self_name:
            out[tgt] = val.attr
    return out


def check_forwarded_defaults(P, R, modules, rule="OPT.forward-default"):
    """A wrapper that forwards its own parameter to a parameter the callee replaces by the object's configuration when it is None
    must itself default to None: a literal default in the wrapper is always passed on, so the configured value is honoured through
    one entry point and silently replaced through the other."""
    n = 0
    for f in P.all_funcs(modules):
        a = f.node.args
        pos = a.posonlyargs + a.args
        dflt = dict(zip([x.arg for x in pos[len(pos) - len(a.defaults):]], a.defaults))
        dflt.update({x.arg: d for x, d in zip(a.kwonlyargs, a.kw_defaults) if d is not None})
        lit = {p: d for p, d in dflt.items() if isinstance(d, ast.Constant) and d.value is not None}
        if not lit:
            continue
        for c in walk_no_nested(f.node):
            if not isinstance(c, ast.Call):
                continue
            for t_ in P.resolve_callee(c.func, f):
                if t_[0] != "repo":
                    continue
                g = t_[1]
                fb = _config_fallback_params(P, g)
                if not fb:
                    continue
                b = P.bind_args(g, c.args, c.keywords)
                for prm, arg in b.items():
                    if prm in fb and isinstance(arg, ast.Name) and arg.id in lit and not any(isinstance(x, ast.Name) and x.id == arg.id and isinstance(x.ctx, ast.Store) for x in ast.walk(f.node)):
                        n += 1
                        R.violation(rule, f.key, f"{g.qualname}({prm}={arg.id}) with {arg.id}={src(lit[arg.id])} by default", f"`{f.qualname}` always passes its own default {src(lit[arg.id])} for `{prm}`, so `{g.qualname}` never falls back to the configured `{fb[prm]}`: the same object behaves differently through the two entry points", c.lineno)
    R.ok(rule, "package", f"no wrapper in {', '.join(modules)} overrides a configuration fallback with a literal default ({n} sites)", "")
    return n
