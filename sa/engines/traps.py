"""TRAPS: constructs whose meaning depends on something the surrounding code does not control (third seeding round).

Each rule is a necessary condition of "the result is a function of the values only":
  T1 LAYOUT     ravel / flatten / reshape / array(..., order="K" | "A"): the element order follows the memory layout of the argument,
                so a Fortran-ordered or transposed-view array with the same values gives another vector.
  T2 ENUM       `for i, x in enumerate(<filtered iterable>)` with i used to index another sequence: once the filter drops an
                element, every later position is shifted against the unfiltered sequence it is paired with.
  T3 REDUCEAT   `ufunc.reduceat(values, offsets)`: for an empty segment (two equal consecutive offsets) it returns values[offset],
                not the identity - a group without members receives a foreign element.
  T4 COINCIDE   an `if` that compares a size of one input with a size of another input / of the model (==) and, when they happen to
                coincide, reshapes or re-interprets the input: for inputs where the two sizes are equal by accident (square
                models, as many probes as components) the other interpretation is silently taken.
  T5 LIKE       a comparison of shape fields of two objects that pairs different fields (a.n_features with b.n_gaussians).
  T7 POSITION   class members taken as runs of positions (np.split at cumulative counts, slices bounded by a cumsum of class counts) in
                a function that receives the labels: correct only for samples grouped by class in ascending id order.
  T6 INDEXANY   `.any()` / truthiness of an array of *indices* used as an emptiness test: an index array [0] is falsy.
The matcher of each rule is exercised on an embedded example on every run (today's tree has no instance).
"""
from __future__ import annotations

import ast

from ..dataflow import cone, get_defuse
from ..frontend import const_value, src, walk_no_nested

_EXAMPLE = '''
def t1(a):
    return a.ravel(order="K")

def t2(xs, cols):
    out = 0
    for i, x in enumerate(v for v in xs if v.any()):
        out += cols[:, i] * x
    return out

def t2_ok(xs, cols):
    out = 0
    for i, x in enumerate(xs):
        if not x.any():
            continue
        out += cols[:, i] * x
    return out

def t3(values, counts):
    import numpy as np
    starts = np.cumsum(counts) - counts
    return np.add.reduceat(values, starts)

def t4(offsets, stats):
    if offsets.ndim >= 2 and offsets.shape[0] == len(stats):
        offsets = offsets.reshape(len(stats), -1)
    return offsets

def t4_ok(offsets):
    if offsets.ndim == 2:
        offsets = offsets[None]
    return offsets

def t5(a, b):
    return a.n_gaussians == b.n_gaussians and a.n_features == b.n_gaussians

def t6(labels, i):
    import numpy as np
    members = np.flatnonzero(labels == i)
    if not members.any():
        return 0
    return members
'''


def layout_sites(fnode):
    out = []
    for n in ast.walk(fnode):
        if isinstance(n, ast.Call):
            for kw in n.keywords:
                if kw.arg == "order" and const_value(kw.value) in ("K", "A"):
                    out.append(n)
    return out


def _filtered(it):
    """Is this iterable expression a filtered view of a sequence (elements may be dropped)?"""
    if isinstance(it, (ast.GeneratorExp, ast.ListComp)) and any(g.ifs for g in it.generators):
        return True
    if isinstance(it, ast.Call) and isinstance(it.func, ast.Name) and it.func.id == "filter":
        return True
    return False


def enum_sites(fnode, du=None):
    """[(for / comprehension node, index name)] where enumerate runs over a filtered iterable and the index is used as a subscript"""
    out = []

    def check(target, it, body_nodes, node):
        if not (isinstance(it, ast.Call) and isinstance(it.func, ast.Name) and it.func.id == "enumerate" and it.args and isinstance(target, ast.Tuple) and len(target.elts) == 2 and isinstance(target.elts[0], ast.Name)):
            return
        arg = it.args[0]
        if isinstance(arg, ast.Name) and du is not None:
            rd = du.reaching(du.stmt_of(node), arg.id)
            if len(rd) == 1 and rd[0].value is not None and rd[0].how == "assign":
                arg = rd[0].value
        if not _filtered(arg):
            return
        idx = target.elts[0].id
        used = any(isinstance(x, ast.Subscript) and any(isinstance(y, ast.Name) and y.id == idx for y in ast.walk(x.slice)) for b in body_nodes for x in ast.walk(b))
        if used:
            out.append((node, idx))

    for n in ast.walk(fnode):
        if isinstance(n, ast.For):
            check(n.target, n.iter, n.body, n)
        elif isinstance(n, (ast.ListComp, ast.GeneratorExp, ast.SetComp, ast.DictComp)):
            for g in n.generators:
                check(g.target, g.iter, [n], n)
    return out


def reduceat_sites(fnode):
    return [n for n in ast.walk(fnode) if isinstance(n, ast.Call) and isinstance(n.func, ast.Attribute) and n.func.attr == "reduceat"]


def _size_exprs(e):
    """Sub-expressions that denote a size: len(x), x.shape[i], x.size, np.shape(x)[i], self.n_*"""
    out = []
    for n in ast.walk(e):
        if isinstance(n, ast.Call) and isinstance(n.func, ast.Name) and n.func.id == "len":
            out.append(n)
        elif isinstance(n, ast.Subscript) and isinstance(n.value, ast.Attribute) and n.value.attr == "shape":
            out.append(n)
        elif isinstance(n, ast.Attribute) and (n.attr == "size" or n.attr.startswith("n_")):
            out.append(n)
    return out


def _root(e):
    x = e
    while isinstance(x, (ast.Attribute, ast.Subscript, ast.Call)):
        x = x.value if not isinstance(x, ast.Call) else (x.args[0] if x.args else x.func)
    return x.id if isinstance(x, ast.Name) else None


def coincide_sites(fnode):
    """[(if node, compare)]: size(a) == size(b) with a, b different objects, guarding a re-interpretation of an input"""
    out = []
    for n in ast.walk(fnode):
        if not isinstance(n, ast.If):
            continue
        for c in ast.walk(n.test):
            if isinstance(c, ast.Compare) and len(c.ops) == 1 and isinstance(c.ops[0], ast.Eq):
                l, r = c.left, c.comparators[0]
                ls, rs = _size_exprs(l), _size_exprs(r)
                if not (ls and rs and ls[0] is l and rs[0] is r):
                    continue
                if _root(l) is None or _root(r) is None:
                    continue
                same_obj = _root(l) == _root(r) and src(l).split(".")[0] == src(r).split(".")[0] and not (src(l).startswith("self.") and src(r).startswith("self.") and src(l) != src(r))
                if _root(l) == _root(r) and not (isinstance(l, ast.Attribute) and isinstance(r, ast.Attribute) and l.attr != r.attr):
                    continue
                # what the arm does: reshape / transpose / subscript-with-None of one of the compared objects, re-bound to its name
                for st in ast.walk(ast.Module(body=n.body, type_ignores=[])):
                    if isinstance(st, ast.Assign) and len(st.targets) == 1 and isinstance(st.targets[0], (ast.Name, ast.Attribute)):
                        tgt = src(st.targets[0])
                        v = st.value
                        reinterp = any(isinstance(x, ast.Call) and isinstance(x.func, ast.Attribute) and x.func.attr in ("reshape", "transpose", "swapaxes", "T") for x in ast.walk(v)) or any(isinstance(x, ast.Subscript) and any(isinstance(y, ast.Constant) and y.value is None for y in ast.walk(x.slice)) for x in ast.walk(v))
                        if reinterp and (_root(st.targets[0]) in (_root(l), _root(r)) or tgt.split(".")[-1].lstrip("_") in src(v)):
                            out.append((n, c))
    return out


def like_sites(fnode, fields):
    out = []
    for c in ast.walk(fnode):
        if isinstance(c, ast.Compare) and len(c.ops) == 1 and isinstance(c.ops[0], (ast.Eq, ast.NotEq)):
            l, r = c.left, c.comparators[0]
            if isinstance(l, ast.Attribute) and isinstance(r, ast.Attribute) and l.attr in fields and r.attr in fields and l.attr != r.attr and src(l.value) != src(r.value):
                out.append(c)
    return out


def indexany_sites(fnode):
    """truthiness / .any() of a value produced by flatnonzero / nonzero / where / argwhere used as an emptiness test"""
    out = []
    index_names = set()
    for n in ast.walk(fnode):
        if isinstance(n, ast.Assign) and len(n.targets) == 1 and isinstance(n.targets[0], ast.Name):
            v = n.value
            while isinstance(v, ast.Subscript):
                v = v.value
            if isinstance(v, ast.Call) and src(v.func).split(".")[-1] in ("flatnonzero", "nonzero", "argwhere", "where") and len(v.args) == 1:
                index_names.add(n.targets[0].id)
    for n in ast.walk(fnode):
        if isinstance(n, (ast.If, ast.While, ast.IfExp)):
            t = n.test
            while isinstance(t, ast.UnaryOp) and isinstance(t.op, ast.Not):
                t = t.operand
            if isinstance(t, ast.Call) and isinstance(t.func, ast.Attribute) and t.func.attr in ("any", "all") and isinstance(t.func.value, ast.Name) and t.func.value.id in index_names:
                out.append(n)
    return out


def position_sites(fnode):
    """Class members taken as runs of positions: np.split / array_split at cumulative counts, or slices whose bounds come from a
    cumulative sum of per-class counts.  Right only when the samples are stored grouped by class in ascending id order."""
    out = []
    cum_names = set()
    for n in ast.walk(fnode):
        if isinstance(n, ast.Assign):
            if any(isinstance(x, ast.Call) and src(x.func).split(".")[-1] == "cumsum" for x in ast.walk(n.value)):
                for t in n.targets:
                    for x in ast.walk(t):
                        if isinstance(x, ast.Name):
                            cum_names.add(x.id)
    def from_cum(e):
        return any(isinstance(x, ast.Call) and src(x.func).split(".")[-1] == "cumsum" for x in ast.walk(e)) or any(isinstance(x, ast.Name) and x.id in cum_names for x in ast.walk(e))
    # names bound by iterating over cumulative counts: for a, b in zip(stops - counts, stops)
    for _ in range(2):
        for n in ast.walk(fnode):
            gens = [(n.target, n.iter)] if isinstance(n, ast.For) else ([(g.target, g.iter) for g in n.generators] if isinstance(n, (ast.ListComp, ast.GeneratorExp, ast.DictComp, ast.SetComp)) else [])
            for tgt, it in gens:
                if isinstance(it, ast.Call) and isinstance(it.func, ast.Name) and it.func.id in ("zip", "enumerate") and isinstance(tgt, ast.Tuple):
                    args = it.args if it.func.id == "zip" else [ast.Constant(value=0)] + list(it.args)
                    for t_, a_ in zip(tgt.elts, args):
                        if from_cum(a_):
                            cum_names.update(x.id for x in ast.walk(t_) if isinstance(x, ast.Name))
                elif from_cum(it):
                    cum_names.update(x.id for x in ast.walk(tgt) if isinstance(x, ast.Name))
        for n in ast.walk(fnode):
            if isinstance(n, ast.Assign) and from_cum(n.value) and not isinstance(n.value, ast.Call):
                for t in n.targets:
                    cum_names.update(x.id for x in ast.walk(t) if isinstance(x, ast.Name))
    for n in ast.walk(fnode):
        if isinstance(n, ast.Call) and src(n.func).split(".")[-1] in ("split", "array_split") and len(n.args) >= 2 and from_cum(n.args[1]):
            out.append(n)
        if isinstance(n, ast.Subscript) and isinstance(n.slice, ast.Slice) and ((n.slice.lower is not None and from_cum(n.slice.lower)) or (n.slice.upper is not None and from_cum(n.slice.upper))):
            out.append(n)
    return out


_FLOAT_DT = ("float", "np.float64", "numpy.float64", "np.double", "np.float_", "'float'", "'float64'", "'f8'", "np.longdouble")
_FLOAT_FNS = {"exp", "log", "log1p", "expm1", "sqrt", "mean", "average", "var", "std", "cdist", "inv", "pinv", "solve", "cholesky", "true_divide", "divide", "float", "float64", "zeros", "ones", "empty", "eye", "identity", "linspace", "logaddexp", "logsumexp"}


def _surely_float(du, e, st, seen=None):
    """`e` is floating point whatever the dtype of the caller's arrays: it went through a true division, a float literal, a
    float-valued function or an explicit float conversion.  Attribute reads and parameters prove nothing."""
    seen = seen if seen is not None else set()
    F = lambda x: _surely_float(du, x, st, seen)
    if isinstance(e, ast.Constant):
        return isinstance(e.value, float)
    if isinstance(e, ast.BinOp):
        if isinstance(e.op, ast.Div):
            return True
        return F(e.left) or F(e.right)
    if isinstance(e, ast.UnaryOp):
        return F(e.operand)
    if isinstance(e, ast.Subscript):
        return F(e.value)
    if isinstance(e, ast.IfExp):
        return F(e.body) and F(e.orelse)
    if isinstance(e, ast.Call):
        fn = e.func.attr if isinstance(e.func, ast.Attribute) else getattr(e.func, "id", None)
        for kw in e.keywords:
            if kw.arg == "dtype":
                return src(kw.value) in _FLOAT_DT
        if fn == "astype":
            return bool(e.args) and src(e.args[0]) in _FLOAT_DT
        if fn in _FLOAT_FNS:
            return True
        if fn in ("maximum", "minimum", "where", "add", "multiply", "subtract", "clip", "fmax", "fmin"):
            args = e.args[1:] if fn == "where" and len(e.args) == 3 else e.args
            return any(F(a) for a in args) if fn != "where" else all(F(a) for a in args)
        if fn in ("asarray", "array", "copy", "atleast_1d", "atleast_2d", "reshape", "ravel", "flatten", "transpose", "squeeze", "abs", "square", "negative", "sum", "cumsum") and (e.args or isinstance(e.func, ast.Attribute)):
            a0 = e.args[0] if e.args and isinstance(e.func, ast.Attribute) and isinstance(e.func.value, ast.Name) and e.func.value.id in ("np", "numpy", "da") else (e.func.value if isinstance(e.func, ast.Attribute) else (e.args[0] if e.args else None))
            return a0 is not None and F(a0)
        return False
    if isinstance(e, ast.Name):
        ds = du.reaching(st, e.id)
        if not ds:
            return False
        for d in ds:
            k = id(d)
            if k in seen:
                continue
            seen.add(k)
            if d.how not in ("assign",) or d.value is None:
                return False
            if not _surely_float(du, d.value, d.stmt, seen):
                return False
        return True
    return False


def _selfcheck(R):
    ex = ast.parse(_EXAMPLE)
    f = {n.name: n for n in ex.body if isinstance(n, ast.FunctionDef)}
    got = {
        "t1": len(layout_sites(f["t1"])), "t2": len(enum_sites(f["t2"])), "t2_ok": len(enum_sites(f["t2_ok"])), "t3": len(reduceat_sites(f["t3"])),
        "t4": len(coincide_sites(f["t4"])), "t4_ok": len(coincide_sites(f["t4_ok"])), "t5": len(like_sites(f["t5"], ("n_gaussians", "n_features"))), "t6": len(indexany_sites(f["t6"])),
    }
    want = {"t1": 1, "t2": 1, "t2_ok": 0, "t3": 1, "t4": 1, "t4_ok": 0, "t5": 1, "t6": 1}
    if got != want:
        R.error(f"TRAPS matcher self-check failed: {got}")


def check(P, R, modules, scope=None, rules=("T1", "T2", "T3", "T4", "T5", "T6", "T7"), shape_fields=("n_gaussians", "n_features", "shape"), rule="TRAP"):
    """scope: regular expression on `module:qualname`; only the functions the property is about are examined, so that a trap in
    another part of a module is reported by the property it concerns and by no other."""
    import re

    _selfcheck(R)
    n = 0
    n_funcs = 0
    for f in P.all_funcs(modules):
        if scope is not None and not re.search(scope, f.key):
            continue
        n_funcs += 1
        du = None
        if "T1" in rules:
            for c in layout_sites(f.node):
                n += 1
                R.violation(rule + ".layout", f.key, src(c)[:60], "the element order follows the memory layout of the argument (order='K'/'A'): a Fortran-ordered or transposed-view array with the same values gives a different vector", c.lineno)
        if "T2" in rules:
            du = du or get_defuse(f, P)
            for node, idx in enum_sites(f.node, du):
                n += 1
                R.violation(rule + ".enum-filtered", f.key, src(node).split("\n")[0][:70], f"`{idx}` counts the elements that pass the filter but indexes a sequence that still holds all of them: after a dropped element every later position is paired with the wrong entry", node.lineno)
        if "T3" in rules:
            for c in reduceat_sites(f.node):
                # segments that start where the sorted labels change are never empty (GROUP: change_points)
                from . import group as _grp
                du = du or get_defuse(f, P)
                if len(c.args) >= 2:
                    try:
                        okc, whyc = _grp.change_points(du, c.args[1], du.stmt_of(c), lambda cn: True)
                    except Exception:
                        okc, whyc = False, ""
                    if okc:
                        R.ok(rule + ".reduceat", f.key, src(c)[:60], whyc, c.lineno)
                        continue
                n += 1
                R.violation(rule + ".reduceat", f.key, src(c)[:60], "ufunc.reduceat returns values[offset] - not the identity - for an empty segment: a group without members in this block receives an element of the next group", c.lineno)
        if "T4" in rules:
            for node, c in coincide_sites(f.node):
                n += 1
                R.violation(rule + ".coincidence", f.key, src(c)[:60], f"`{src(c)}` lets an accidental equality of two sizes decide how an input is interpreted: for inputs where the sizes coincide (square models, as many probes as components) the other reading is silently taken", node.lineno)
        if "T5" in rules:
            for c in like_sites(f.node, shape_fields):
                n += 1
                R.violation(rule + ".like-with-like", f.key, src(c)[:60], f"`{src(c)}` compares different shape fields of the two objects", c.lineno)
        if "T7" in rules and any(p_ in ("y", "labels") for p_ in f.params):
            du = du or get_defuse(f, P)
            labs = [p_ for p_ in f.params if p_ in ("y", "labels")]
            for c in position_sites(f.node):
                # positions in an order that sorts the labels are members of one class (GROUP G1-G5), positions in the
                # order the samples were given are not
                from . import group as _grp
                from ..dataflow import cone as _cone
                try:
                    st_ = du.stmt_of(c)
                except Exception:
                    st_ = None
                if st_ is not None and isinstance(c, ast.Call):
                    g_ = _grp.sort_split(du, c, st_, labs)
                    if g_.kind is not None and g_.ok:
                        R.ok(rule + ".by-position", f.key, src(c)[:60], g_.why, c.lineno)
                        continue
                if st_ is not None and isinstance(c, ast.Subscript):
                    bc = _cone(du, c.value, st_, interproc=False)
                    sorts = [x for x in bc.nodes if isinstance(x, ast.Call) and (x.func.attr if isinstance(x.func, ast.Attribute) else getattr(x.func, "id", "")) in _grp.SORTS]
                    if sorts and any(set(labs) & _cone(du, (s_.args[0] if s_.args else s_.func.value), du.stmt_of(s_), interproc=False).params for s_ in sorts):
                        R.ok(rule + ".by-position", f.key, src(c)[:60], "a run of an order that sorts the labels", c.lineno)
                        continue
                n += 1
                R.violation(rule + ".by-position", f.key, src(c)[:60], "the samples of a class are taken as a run of positions (cumulative class counts) instead of by their label: right only when the samples are presented grouped by class in ascending id order, so the result depends on the order of the samples", c.lineno)
        if "T8" in rules or "T3" in rules:
            # binary search needs a sorted haystack: np.sort / sorted / np.unique / cumsum / arange produce one, the iteration
            # order of a set (list(set(y))) or the order labels were given in does not
            du = du or get_defuse(f, P)
            from ..dataflow import cone as _cone8
            for c in [x for x in ast.walk(f.node) if isinstance(x, ast.Call) and isinstance(x.func, ast.Attribute) and x.func.attr == "searchsorted"]:
                hay = c.args[0] if (isinstance(c.func.value, ast.Name) and c.func.value.id in ("np", "numpy", "da", "numerical_module", "xp")) and c.args else c.func.value
                try:
                    ch = _cone8(du, hay, du.stmt_of(c), interproc=True)
                except Exception:
                    continue
                nm8 = lambda x: (x.func.attr if isinstance(x.func, ast.Attribute) else getattr(x.func, "id", ""))
                srt = any(isinstance(x, ast.Call) and nm8(x) in ("sort", "sorted", "unique", "cumsum", "arange", "linspace", "unique_labels", "argsort", "accumulate") for x in ch.nodes)
                unordered = [x for x in ch.nodes if isinstance(x, ast.Call) and nm8(x) in ("set", "frozenset", "keys", "values", "items")] + [x for x in ch.nodes if isinstance(x, (ast.Set, ast.SetComp, ast.Dict, ast.DictComp))]
                raw_labels = [p_ for p_ in ch.params if p_ in ("y", "labels")]
                if srt:
                    R.ok(rule + ".searchsorted", f.key, src(c)[:60], "the array searched is produced by a sort", c.lineno)
                elif not unordered and not raw_labels:
                    R.ok(rule + ".searchsorted", f.key, src(c)[:60], "the array searched comes from the caller / a helper: its order is not decided here", c.lineno, nontrivial=False)
                else:
                    n += 1
                    R.violation(rule + ".searchsorted", f.key, src(c)[:60], f"binary search in `{src(hay)[:30]}`, which is not produced by a sort (np.sort / np.unique / sorted) but from {'the iteration order of a set / dict' if unordered else 'the labels as given'}: for labels whose order as stored is not ascending (negative or large ids) the positions returned are wrong and distinct classes are merged", c.lineno)
        if "T9" in rules or "T6" in rules:
            # `if all(mask): X[mask] = ...`: the body works on the selected part only (it indexes with the mask), so it is meant to
            # run as soon as something is selected; guarded by all() it is skipped whenever one element is not selected
            for node in [x for x in ast.walk(f.node) if isinstance(x, ast.If)]:
                t = node.test
                neg = False
                while isinstance(t, ast.UnaryOp) and isinstance(t.op, ast.Not):
                    t, neg = t.operand, not neg
                if neg:
                    continue
                mname = None
                if isinstance(t, ast.Call) and isinstance(t.func, ast.Name) and t.func.id == "all" and len(t.args) == 1:
                    a0 = t.args[0]
                    mname = a0.target.id if isinstance(a0, ast.NamedExpr) else (a0.id if isinstance(a0, ast.Name) else None)
                elif isinstance(t, ast.Call) and isinstance(t.func, ast.Attribute) and t.func.attr == "all" and isinstance(t.func.value, ast.Name) and not t.args:
                    mname = t.func.value.id
                if mname is None:
                    continue
                used = [x for b in node.body for x in ast.walk(b) if isinstance(x, ast.Subscript) and any(isinstance(y, ast.Name) and y.id == mname for y in ast.walk(x.slice))]
                if used and not node.orelse:
                    n += 1
                    R.violation(rule + ".all-guard", f.key, src(node.test)[:60], f"the statements under `if all({mname})` index with `{mname}` - they update the selected elements only - but run only when *every* element is selected: as soon as one element is not (a component without data), none is updated", node.lineno)
        # T10: np.reciprocal keeps the dtype of its argument: for an integer array it is the *integer* reciprocal (1 -> 1, v >= 2 -> 0)
        for node in [x for x in ast.walk(f.node) if isinstance(x, ast.BinOp) and getattr(x, "_reciprocal", False)]:
            du = du or get_defuse(f, P)
            dt = getattr(node, "_reciprocal_dtype", None)
            try:
                st_ = du.stmt_of(node)
            except Exception:
                st_ = None
            if (dt is not None and src(dt) in _FLOAT_DT) or (st_ is not None and _surely_float(du, node.right, st_)):
                R.ok(rule + ".int-reciprocal", f.key, "np.reciprocal(" + src(node.right)[:40] + ")", "the argument is floating point by construction", node.lineno)
                continue
            n += 1
            R.violation(rule + ".int-reciprocal", f.key, "np.reciprocal(" + src(node.right)[:40] + ")", "np.reciprocal computes in the dtype of its argument: for whole-number values stored as an integer array the result is the integer reciprocal (0 for every value >= 2), while `1 / x` and the same values stored as floats give the true reciprocal; nothing here makes the argument floating point", node.lineno)
        if "T6" in rules:
            for node in indexany_sites(f.node):
                n += 1
                R.violation(rule + ".index-any", f.key, src(node.test)[:60], "`.any()` of an array of indices is False for the index array [0]: a group whose only member is the first row is treated as empty", node.lineno)
    if n_funcs == 0:
        R.error(f"TRAP: the scope {scope!r} matches no function of {modules}")
    R.ok(rule, "package", f"no layout-, position- or coincidence-dependent construct in the {n_funcs} functions in scope ({n} sites); matchers exercised on the embedded example", "")
    return n
