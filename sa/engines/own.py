"""OWN: origin, ownership and effects (DESIGN 3.3).

Abstract value: the set of origins an object may have -
    'F'                    freshly allocated in this call (arithmetic, copies, constructors, reductions ...)
    ('P', param, path)     the object reachable from a parameter through attribute / element selectors
    'G'                    a module-level object
    'U'                    unknown (unmodelled callee)
plus, for containers, the origins of their elements.  Function summaries (computed to a fixpoint over
the call graph): the parameter objects a call may mutate in place, and the origin of its return value.
Library model: two lists - calls returning a *view* of an argument, everything else in NumPy/SciPy/Dask/
copy/operator/builtins returns a fresh object; see VIEW_FUNCS / VIEW_METHODS / ALIAS_KW.
"""
from __future__ import annotations

import ast

from ..frontend import ClassInfo, Func, attr_chain, const_value, src, walk_no_nested
from ..dataflow import get_defuse

F = "F"
U = "U"
G = "G"

VIEW_FUNCS = {"transpose", "swapaxes", "squeeze", "atleast_2d", "atleast_1d", "asarray", "asanyarray", "broadcast_to", "expand_dims", "diagonal", "ravel", "reshape", "moveaxis", "rollaxis", "real", "ascontiguousarray"}
VIEW_METHODS = {"reshape", "ravel", "transpose", "squeeze", "view", "swapaxes", "persist", "compute", "rechunk", "diagonal", "to_delayed", "tolist"}
FRESH_METHODS = {"flatten", "copy", "astype", "sum", "mean", "min", "max", "any", "all", "argmin", "argmax", "repeat", "dot", "std", "var", "prod", "cumsum", "round", "clip", "conj", "nonzero", "item", "split", "decode", "format", "keys", "values", "items", "get", "map_partitions"}
MUTATING_METHODS = {"append", "extend", "insert", "sort", "reverse", "pop", "remove", "clear", "update", "fill", "resize", "put", "itemset", "setdefault", "add", "discard", "partition", "setflags"}
# library callables that return (an alias of) one of their keyword/positional arguments
ALIAS_ARGS = {"dask_ml.cluster.k_means.k_init": ("init",)}
SCALAR_ANN = ("int", "float", "bool", "str")
# allow-listed idempotent cache fill (DESIGN 3.4 PURE): the lazy normaliser of GMMMachine
IDEMPOTENT_CACHE = {("gmm:GMMMachine.g_norms.fget", "_g_norms")}


class O:
    __slots__ = ("obj", "elem", "tup", "cls", "fields")

    def __init__(self, obj=frozenset({F}), elem=None, tup=None, cls=None, fields=None):
        self.obj = frozenset(obj)
        self.elem = None if elem is None else frozenset(elem)
        self.tup = tup
        self.cls = cls
        self.fields = fields  # attr -> O, for freshly constructed objects

    def all_origins(self):
        out = set(self.obj)
        if self.elem:
            out |= self.elem
        if self.tup:
            for t in self.tup:
                out |= t.all_origins()
        return out

    def __repr__(self):
        return "O(" + fmt_orgs(self.obj) + (", elem=" + fmt_orgs(self.elem) if self.elem is not None else "") + ")"


def fmt_org(o):
    if isinstance(o, tuple):
        return o[1] + "".join(("[*]" if s == "[]" else "." + s) for s in o[2])
    return {"F": "fresh", "U": "unknown", "G": "global"}.get(o, str(o))


def fmt_orgs(s):
    return "{" + ", ".join(sorted(fmt_org(o) for o in s)) + "}"


FRESH = O()
UNKNOWN = O({U})


def join(a, b):
    if a is None:
        return b
    if b is None:
        return a
    elem = None
    if a.elem is not None or b.elem is not None:
        elem = (a.elem or frozenset()) | (b.elem or frozenset())
    tup = None
    if a.tup is not None and b.tup is not None and len(a.tup) == len(b.tup):
        tup = tuple(join(x, y) for x, y in zip(a.tup, b.tup))
    fields = None
    if a.fields or b.fields:
        fields = dict(a.fields or {})
        for k, v in (b.fields or {}).items():
            fields[k] = join(fields.get(k), v)
    return O(a.obj | b.obj, elem, tup, a.cls if a.cls == b.cls else None, fields)


def extend(orgs, sel):
    """Origins of a component (attribute / element) of an object with the given origins."""
    out = set()
    for o in orgs:
        if isinstance(o, tuple):
            path = o[2]
            if len(path) >= 6:
                out.add(o)
            else:
                out.add(("P", o[1], path + (sel,)))
        else:
            out.add(o)
    return frozenset(out)


class Summary:
    def __init__(self):
        self.mutates = {}  # ('P', param, path) -> witness text
        self.ret = None  # O in terms of the callee's parameters
        self.fields = {}  # for __init__: attr -> O (what the constructor stores)
        self.param_stores = {}  # model-parameter stores: (target text, attr) -> (O, node)
        self.stores = {}  # (('P', param, path), attr) -> (O value relative to this function's parameters, witness)
        self.ubm_training = []  # (node text, guarded?) for self.ubm.fit(...) call sites

    def key(self):
        return (frozenset(self.mutates), repr(self.ret), tuple(sorted((k, repr(v)) for k, v in self.fields.items())), tuple(sorted((repr(k), repr(v[0])) for k, v in self.stores.items())))


class Own:
    def __init__(self, P, modules=None):
        self.P = P
        self.funcs = [f for f in P.all_funcs(modules)]
        self.sums = {f.key: Summary() for f in self.funcs}
        self.unmodelled = set()
        self.sink_count = 0
        self._solve()

    def _solve(self):
        for it in range(12):
            changed = False
            for f in self.funcs:
                s = self._analyse(f)
                if s.key() != self.sums[f.key].key():
                    changed = True
                self.sums[f.key] = s
            if not changed:
                break
        self.iterations = it + 1

    # ------------------------------------------------------------------------------------------
    def _analyse(self, f):
        a = _FA(self, f)
        return a.run()


class _FA:
    """Analysis of one function under the current summaries."""

    def __init__(self, own, f):
        self.own = own
        self.P = own.P
        self.f = f
        self.s = Summary()
        self.scalars = set()
        for p in f.params:
            ann = src(f.annotations[p]).strip("'\"") if p in f.annotations else ""
            d = f.defaults.get(p)
            if ann in SCALAR_ANN or (isinstance(d, ast.Constant) and isinstance(d.value, (int, float, bool, str)) and d.value is not None and "ndarray" not in ann and "Union" not in ann):
                self.scalars.add(p)

    def run(self):
        env = {}
        for p in self.f.params:
            env[p] = O({("P", p, ())}, elem={("P", p, ("[]",))})
            if p == self.f.self_name and self.f.cls is not None:
                env[p].cls = self.f.cls.name
        if self.f.vararg:
            env[self.f.vararg] = O({F}, elem={("P", self.f.vararg, ("[]",))})
        if self.f.kwarg:
            env[self.f.kwarg] = O({F}, elem={("P", self.f.kwarg, ("[]",))})
        self.block(self.f.body(), env)
        return self.s

    # -- effects ------------------------------------------------------------------------------------
    def mutate(self, val, node, how):
        if val is None:
            return
        self.own.sink_count += 1
        for o in val.obj:
            if isinstance(o, tuple):
                if o[1] in self.scalars and not o[2]:
                    continue
                self.s.mutates.setdefault(o, f"{how} `{src(node)[:60]}` in {self.f.key}")

    def ret(self, val):
        self.s.ret = join(self.s.ret, val)

    # -- statements -----------------------------------------------------------------------------------
    def block(self, stmts, env):
        for st in stmts:
            if env.get("<dead>"):
                return
            self.stmt(st, env)

    def stmt(self, st, env):
        if isinstance(st, ast.Assign) and getattr(st, "_inplace", None):
            # canonical form of `np.f(..., out=A)` (N8): A is written in place and keeps its identity
            self.ev(st.value, env)
            cur = env.get(st._inplace)
            if cur is not None:
                self.mutate(cur, st, "out= argument")
        elif isinstance(st, ast.Assign):
            v = self.ev(st.value, env)
            for t in st.targets:
                self.assign(t, v, env, st)
        elif isinstance(st, ast.AnnAssign):
            if st.value is not None:
                self.assign(st.target, self.ev(st.value, env), env, st)
        elif isinstance(st, ast.AugAssign):
            t = st.target
            self.ev(st.value, env)
            if isinstance(t, ast.Name):
                cur = env.get(t.id)
                if cur is not None:
                    self.mutate(cur, st, "in-place operator")
                    # result keeps its identity
            elif isinstance(t, ast.Attribute):
                cur = self.ev(_load(t), env)
                self.mutate(cur, st, "in-place operator on attribute")
                base = self.ev(t.value, env)
                self.mutate(base, st, "attribute store")
            elif isinstance(t, ast.Subscript):
                base = self.ev(t.value, env)
                self.mutate(base, st, "in-place element update")
        elif isinstance(st, ast.Expr):
            self.ev(st.value, env)
        elif isinstance(st, ast.If):
            self.ev(st.test, env)
            e1, e2 = dict(env), dict(env)
            self.refine(st.test, e1, True)
            self.refine(st.test, e2, False)
            self.block(st.body, e1)
            self.block(st.orelse, e2)
            d1, d2 = e1.pop("<dead>", False), e2.pop("<dead>", False)
            if d1 and d2:
                env["<dead>"] = True
            elif d1:
                env.clear(); env.update(e2)
            elif d2:
                env.clear(); env.update(e1)
            else:
                env.clear()
                for k in set(e1) | set(e2):
                    env[k] = join(e1.get(k), e2.get(k))
        elif isinstance(st, (ast.For, ast.AsyncFor)):
            it = self.ev(st.iter, env)
            self.bind(st.target, self.elem_of(it, st.iter, env), env)
            pre = dict(env)
            for _ in range(2):
                self.block(st.body, env)
                env.pop("<dead>", None)
                for k in set(env) | set(pre):
                    env[k] = join(env.get(k), pre.get(k))
            self.block(st.orelse, env)
        elif isinstance(st, ast.While):
            self.ev(st.test, env)
            pre = dict(env)
            for _ in range(2):
                self.block(st.body, env)
                env.pop("<dead>", None)
                for k in set(env) | set(pre):
                    env[k] = join(env.get(k), pre.get(k))
            self.block(st.orelse, env)
        elif isinstance(st, ast.Return):
            self.ret(self.ev(st.value, env) if st.value is not None else FRESH)
            env["<dead>"] = True
        elif isinstance(st, ast.Raise):
            env["<dead>"] = True
        elif isinstance(st, ast.Try):
            self.block(st.body, env)
            for h in st.handlers:
                e2 = dict(env)
                e2.pop("<dead>", None)
                self.block(h.body, e2)
                for k in set(env) | set(e2):
                    if k != "<dead>":
                        env[k] = join(env.get(k), e2.get(k))
            self.block(st.orelse, env)
            self.block(st.finalbody, env)
        elif isinstance(st, (ast.With, ast.AsyncWith)):
            self.block(st.body, env)
        elif isinstance(st, ast.Delete):
            for t in st.targets:
                if isinstance(t, ast.Name):
                    env.pop(t.id, None)
                elif isinstance(t, (ast.Subscript, ast.Attribute)):
                    self.mutate(self.ev(t.value, env), st, "del")

    def refine(self, test, env, truth):
        """`if self.ubm is None:` - in the True arm the attribute holds nothing of the caller."""
        if isinstance(test, ast.Compare) and len(test.ops) == 1 and isinstance(test.ops[0], (ast.Is, ast.IsNot)) and isinstance(test.comparators[0], ast.Constant) and test.comparators[0].value is None:
            is_none = isinstance(test.ops[0], ast.Is) == truth
            if is_none and isinstance(test.left, (ast.Attribute, ast.Name)):
                env[src(test.left)] = FRESH
        # `isinstance(x, np.ndarray)` is False: x is not an array (a string / scalar setting), nothing to alias
        if isinstance(test, ast.Call) and isinstance(test.func, ast.Name) and test.func.id == "isinstance" and len(test.args) == 2 and not truth:
            if src(test.args[1]) in ("np.ndarray", "numpy.ndarray", "(np.ndarray, da.Array)", "da.Array") and isinstance(test.args[0], (ast.Name, ast.Attribute)):
                env[src(test.args[0])] = FRESH
        if isinstance(test, ast.UnaryOp) and isinstance(test.op, ast.Not):
            self.refine(test.operand, env, not truth)

    def elem_of(self, it, node, env):
        if isinstance(node, ast.Call) and isinstance(node.func, ast.Name):
            if node.func.id == "enumerate" and node.args:
                inner = self.elem_of(self.ev(node.args[0], env), node.args[0], env)
                return O({F}, tup=(FRESH, inner))
            if node.func.id == "zip":
                return O({F}, tup=tuple(self.elem_of(self.ev(a, env), a, env) for a in node.args))
            if node.func.id == "range":
                return FRESH
        if it.tup is not None and node is not None and not isinstance(node, ast.Call):
            out = None
            for t in it.tup:
                out = join(out, t)
            return out or FRESH
        if it.elem is not None:
            return O(it.elem, elem=extend(it.elem, "[]"))
        return O(extend(it.obj, "[]"), elem=extend(extend(it.obj, "[]"), "[]"))

    def bind(self, t, v, env):
        if isinstance(t, ast.Name):
            env[t.id] = v
        elif isinstance(t, (ast.Tuple, ast.List)):
            if v.tup is not None and len(v.tup) == len(t.elts):
                for e, x in zip(t.elts, v.tup):
                    self.bind(e, x, env)
            else:
                el = O(v.elem, elem=extend(v.elem, "[]")) if v.elem is not None else O(extend(v.obj, "[]") if v.obj != frozenset({F}) else {F})
                for e in t.elts:
                    self.bind(e, el, env)
        elif isinstance(t, ast.Starred):
            self.bind(t.value, v, env)

    def assign(self, t, v, env, node):
        if isinstance(t, ast.Name):
            env[t.id] = v
        elif isinstance(t, (ast.Tuple, ast.List)):
            self.bind_store(t, v, env, node)
        elif isinstance(t, ast.Attribute):
            base = self.ev(t.value, env)
            if (self.f.key, t.attr) in IDEMPOTENT_CACHE:
                env[src(t)] = v
                return
            self.mutate(base, node, "attribute store")
            env[src(t)] = v
            if isinstance(t.value, ast.Name) and t.value.id == self.f.self_name:
                self.s.fields[t.attr] = v
            self.s.param_stores[(src(t.value), t.attr, getattr(node, "lineno", 0))] = (v, node, base)
            # a property setter of a repository class runs
            rc = self.P.recv_class(t.value, self.f)
            if rc is None and base.cls:
                rc = self.P.class_index.get(base.cls)
            pr = self.P.lookup_prop(rc, t.attr) if rc is not None else None
            if pr and "set" in pr:
                st_ = pr["set"]
                s2 = self.own.sums.get(st_.key)
                if s2 is not None:
                    b = {st_.self_name: base}
                    if st_.value_params:
                        b[st_.value_params[0]] = v
                    self.apply_mut(s2, st_, b, node)
                    self.apply_stores(s2, st_, b, node)
            else:
                for o in base.obj:
                    if isinstance(o, tuple):
                        k = (o, t.attr)
                        old = self.s.stores.get(k)
                        wit = f"`{src(node)[:70]}` in {self.f.key}"
                        if old and (old[0].all_origins() - {F}) and not (v.all_origins() - {F}):
                            wit = old[1]  # keep the witness of the store that introduced a non-fresh origin
                        self.s.stores[k] = (join(old[0], v) if old else v, wit)
        elif isinstance(t, ast.Subscript):
            base = self.ev(t.value, env)
            self.mutate(base, node, "element store")
            # storing caller-owned data into a container makes the container hold it
            if isinstance(t.value, ast.Name) and t.value.id in env:
                cur = env[t.value.id]
                env[t.value.id] = O(cur.obj, (cur.elem or frozenset()) | v.obj, cur.tup, cur.cls, cur.fields)

    def bind_store(self, t, v, env, node):
        vals = None
        if v.tup is not None and len(v.tup) == len(t.elts):
            vals = v.tup
        for i, e in enumerate(t.elts):
            x = vals[i] if vals else (O(v.elem, elem=extend(v.elem, "[]")) if v.elem is not None else O(extend(v.obj, "[]") if v.obj != frozenset({F}) else {F}))
            self.assign(e, x, env, node)

    # -- expressions ------------------------------------------------------------------------------------
    def ev(self, e, env):
        if e is None:
            return FRESH
        if isinstance(e, ast.Constant):
            return FRESH
        if isinstance(e, ast.Name):
            if e.id in env:
                return env[e.id]
            if e.id in self.f.module.constants or self.P.dotted(e, self.f):
                return O({G})
            return FRESH
        if isinstance(e, ast.Attribute):
            key = src(e)
            if key in env:
                return env[key]
            ch = attr_chain(e)
            if ch and ch[0] not in env and self.P.dotted(e, self.f):
                return O({G})
            base = self.ev(e.value, env)
            if e.attr == "T":
                return O(base.obj, base.elem)
            if e.attr in ("shape", "ndim", "size", "dtype", "nbytes"):
                return FRESH
            if base.fields and e.attr in base.fields:
                return base.fields[e.attr]
            # property getter of a repository class
            rc = self.P.recv_class(e.value, self.f)
            if rc is None and base.cls:
                rc = self.P.class_index.get(base.cls)
            if rc is not None:
                pr = self.P.lookup_prop(rc, e.attr)
                if pr and "get" in pr:
                    g = pr["get"]
                    s = self.own.sums.get(g.key)
                    if s is not None:
                        self.apply_mut(s, g, {g.self_name: base}, e)
                        if s.ret is not None:
                            return self.subst(s.ret, {g.self_name: base})
            if base.obj == frozenset({F}):
                return FRESH
            return O(extend(base.obj, e.attr), elem=extend(extend(base.obj, e.attr), "[]"))
        if isinstance(e, ast.Subscript):
            base = self.ev(e.value, env)
            if self.is_copy_index(e.slice, env):
                self.ev(e.slice, env) if not isinstance(e.slice, ast.Slice) else None
                return FRESH
            if self.is_view_index(e.slice):
                return O(base.obj, base.elem, cls=base.cls)
            i = const_value(e.slice)
            if base.tup is not None and isinstance(i, int) and -len(base.tup) <= i < len(base.tup):
                return base.tup[i]
            if base.elem is not None:
                return O(base.elem, elem=extend(base.elem, "[]"))
            return O(extend(base.obj, "[]"), elem=extend(extend(base.obj, "[]"), "[]"))
        if isinstance(e, (ast.BinOp, ast.UnaryOp, ast.Compare, ast.BoolOp, ast.JoinedStr, ast.FormattedValue)):
            for c in ast.iter_child_nodes(e):
                if isinstance(c, ast.expr):
                    self.ev(c, env)
            if isinstance(e, ast.BoolOp) and isinstance(e.op, ast.Or):
                out = None
                for v in e.values:
                    out = join(out, self.ev(v, env))
                return out
            return FRESH
        if isinstance(e, ast.IfExp):
            self.ev(e.test, env)
            return join(self.ev(e.body, env), self.ev(e.orelse, env))
        if isinstance(e, (ast.Tuple, ast.List)):
            vals = [self.ev(x, env) for x in e.elts]
            el = frozenset()
            for v in vals:
                el |= v.obj
            return O({F}, elem=el, tup=tuple(vals) if isinstance(e, ast.Tuple) or len(vals) <= 4 else None)
        if isinstance(e, (ast.ListComp, ast.GeneratorExp, ast.SetComp)):
            env2 = dict(env)
            for g in e.generators:
                it = self.ev(g.iter, env2)
                self.bind(g.target, self.elem_of(it, g.iter, env2), env2)
                for c in g.ifs:
                    self.ev(c, env2)
            v = self.ev(e.elt, env2)
            return O({F}, elem=v.obj)
        if isinstance(e, ast.DictComp):
            env2 = dict(env)
            for g in e.generators:
                it = self.ev(g.iter, env2)
                self.bind(g.target, self.elem_of(it, g.iter, env2), env2)
            v = self.ev(e.value, env2)
            return O({F}, elem=v.obj)
        if isinstance(e, ast.Dict):
            el = frozenset()
            for v in e.values:
                el |= self.ev(v, env).obj
            return O({F}, elem=el)
        if isinstance(e, ast.Call):
            return self.call(e, env)
        if isinstance(e, ast.NamedExpr):
            v = self.ev(e.value, env)
            env[e.target.id] = v
            return v
        if isinstance(e, ast.Starred):
            return self.ev(e.value, env)
        if isinstance(e, ast.Lambda):
            return FRESH
        return UNKNOWN

    def is_view_index(self, sl):
        idxs = sl.elts if isinstance(sl, ast.Tuple) else [sl]
        return all(isinstance(i, ast.Slice) or (isinstance(i, ast.Constant) and (i.value is None or i.value is Ellipsis)) or (isinstance(i, ast.Attribute) and i.attr == "newaxis") for i in idxs)

    def is_copy_index(self, sl, env):
        """Boolean-mask / fancy indexing loads return a copy."""
        idxs = sl.elts if isinstance(sl, ast.Tuple) else [sl]
        for i in idxs:
            if isinstance(i, ast.Compare):
                return True
            if isinstance(i, ast.Name):
                # bound to a comparison / np.where(...)[0] / an index array
                for n in walk_no_nested(self.f.node):
                    if isinstance(n, ast.Assign) and any(isinstance(t, ast.Name) and t.id == i.id for t in n.targets):
                        v = n.value
                        if isinstance(v, ast.Compare) or "where(" in src(v) or "nonzero(" in src(v) or "argsort(" in src(v):
                            return True
                        if isinstance(v, ast.NamedExpr):
                            return False
                    if isinstance(n, ast.NamedExpr) and n.target.id == i.id and ("any(" in src(n.value) or isinstance(n.value, ast.Compare)):
                        return True
        return False

    # -- calls ------------------------------------------------------------------------------------------------
    def subst(self, o, binding):
        """Instantiate a callee-relative value with the caller's argument values."""
        def orgs(s):
            out = set()
            for x in s:
                if isinstance(x, tuple):
                    a = binding.get(x[1])
                    if a is None:
                        out.add(F)
                        continue
                    base = a.obj
                    path = x[2]
                    cur = base
                    for sel in path:
                        if sel == "[]" and a.elem is not None and cur is base:
                            cur = a.elem
                        elif a.fields and cur is base and sel in a.fields:
                            cur = a.fields[sel].obj
                        else:
                            cur = extend(cur, sel)
                    out |= set(cur)
                else:
                    out.add(x)
            return frozenset(out)
        if o is None:
            return FRESH
        return O(orgs(o.obj), None if o.elem is None else orgs(o.elem), None if o.tup is None else tuple(self.subst(t, binding) for t in o.tup), o.cls, None if not o.fields else {k: self.subst(v, binding) for k, v in o.fields.items()})

    def apply_stores(self, s, callee, binding, node):
        for (o, attr), (val, wit) in s.stores.items():
            tgt = self.subst(O({o}), binding)
            v2 = self.subst(val, binding)
            for t in tgt.obj:
                if isinstance(t, tuple):
                    k = (t, attr)
                    old = self.s.stores.get(k)
                    self.s.stores[k] = (join(old[0], v2) if old else v2, wit if wit.startswith("via") else f"via {callee.qualname}: {wit}")

    def apply_mut(self, s, callee, binding, node):
        for m, wit in s.mutates.items():
            a = binding.get(m[1])
            if a is None:
                continue
            tgt = self.subst(O({m}), binding)
            for o in tgt.obj:
                if isinstance(o, tuple):
                    if o[1] in self.scalars and not o[2]:
                        continue
                    self.s.mutates.setdefault(o, f"via {callee.qualname}: {wit}")

    def call(self, e, env):
        P, f = self.P, self.f
        kind, fexpr, args, kws = P.peel_call(e, f)
        d = P.dotted(fexpr, f) or ""
        argv = [self.ev(a.value if isinstance(a, ast.Starred) else a, env) for a in args]
        kwv = {k.arg: self.ev(k.value, env) for k in kws if k.arg is not None}
        for k in kws:
            if k.arg is None:
                self.ev(k.value, env)
        # out= keyword: in-place
        if "out" in kwv:
            self.mutate(kwv["out"], e, "out= argument")
        name = fexpr.attr if isinstance(fexpr, ast.Attribute) else (fexpr.id if isinstance(fexpr, ast.Name) else "")
        # ---- wrappers ----------------------------------------------------------------------------------
        if d in ("dask.compute",):
            return O({F}, elem=frozenset().union(*[a.obj for a in argv]) if argv else None, tup=tuple(argv))
        if d == "functools.reduce" and len(argv) >= 2:
            opn = src(args[0])
            lst = argv[1]
            el = O(lst.elem, elem=extend(lst.elem, "[]")) if lst.elem is not None else O(extend(lst.obj, "[]"))
            if "iadd" in opn or "imul" in opn or "isub" in opn:
                self.mutate(el, e, "in-place reduction (element 0 of the list)")
                return el
            if "add" in opn or "mul" in opn:
                return FRESH
            return UNKNOWN
        if isinstance(fexpr, ast.Name) and fexpr.id in ("setattr",) and len(args) == 3:
            self.mutate(argv[0], e, "setattr")
            return FRESH
        if isinstance(fexpr, ast.Name) and fexpr.id == "getattr" and len(args) >= 2:
            base = argv[0]
            return FRESH if base.obj == frozenset({F}) else O(extend(base.obj, "<attr>"))
        # ---- repository callees -----------------------------------------------------------------------------
        targets = P.resolve_callee(fexpr, f)
        if isinstance(fexpr, ast.Name) and fexpr.id in env and not any(t[0] in ("repo", "ctor") for t in targets):
            # a local bound to one of several repository functions: m_step_func = a if c else b
            targets = []
            for n in walk_no_nested(f.node):
                if isinstance(n, ast.Assign) and any(isinstance(t_, ast.Name) and t_.id == fexpr.id for t_ in n.targets):
                    cands = [n.value.body, n.value.orelse] if isinstance(n.value, ast.IfExp) else [n.value]
                    for c_ in cands:
                        if isinstance(c_, (ast.Name, ast.Attribute)):
                            targets += [t for t in P.resolve_callee(c_, f) if t[0] == "repo"]
        repo = [t for t in targets if t[0] in ("repo", "ctor")]
        if repo:
            out = None
            for t in repo:
                if t[0] == "ctor":
                    init = t[2]
                    res = O({F}, cls=t[1].name)
                    if init is not None:
                        b = self.bindargs(init, argv, kwv, args, kws, self_val=res)
                        s = self.own.sums.get(init.key)
                        if s is not None:
                            self.apply_mut(s, init, b, e)
                            res.fields = {k: self.subst(v, b) for k, v in s.fields.items() if v.all_origins() - {F}}
                            for (o, attr), (val, wit) in s.stores.items():
                                if o == ("P", init.self_name, ()):
                                    res.fields[attr] = join(res.fields.get(attr), self.subst(val, b))
                    out = join(out, res)
                else:
                    callee = t[1]
                    self_val = self.ev(fexpr.value, env) if (callee.self_name and isinstance(fexpr, ast.Attribute)) else None
                    b = self.bindargs(callee, argv, kwv, args, kws, self_val=self_val)
                    s = self.own.sums.get(callee.key)
                    if s is None:
                        out = join(out, UNKNOWN)
                        continue
                    if self.is_guarded_ubm_training(e, fexpr, callee):
                        out = join(out, self.subst(s.ret, b) if s.ret is not None else FRESH)
                        continue
                    self.apply_mut(s, callee, b, e)
                    self.apply_stores(s, callee, b, e)
                    out = join(out, self.subst(s.ret, b) if s.ret is not None else FRESH)
            return out
        # ---- methods on values ---------------------------------------------------------------------------------
        if isinstance(fexpr, ast.Attribute) and not (d and not isinstance(self.ev(fexpr.value, env), type(None)) and P.dotted(fexpr.value, f) and attr_chain(fexpr.value) and attr_chain(fexpr.value)[0] not in env):
            base = self.ev(fexpr.value, env)
            m = fexpr.attr
            if m in MUTATING_METHODS:
                self.mutate(base, e, f".{m}()")
                if m in ("append", "extend", "insert", "add") and isinstance(fexpr.value, ast.Name) and fexpr.value.id in env and argv:
                    cur = env[fexpr.value.id]
                    add = argv[-1].obj if m != "extend" else (argv[-1].elem or argv[-1].obj)
                    env[fexpr.value.id] = O(cur.obj, (cur.elem or frozenset()) | add, None, cur.cls, cur.fields)
                return FRESH
            if m in VIEW_METHODS:
                return O(base.obj, base.elem, cls=base.cls)
            if m == "astype" and any(k.arg == "copy" and isinstance(k.value, ast.Constant) and k.value.value is False for k in kws):
                # astype(..., copy=False) hands back the very same array whenever the dtype already matches
                return O(base.obj | {F}, base.elem, cls=base.cls)
            if m in FRESH_METHODS:
                return FRESH
            if m == "fit" or m in ("transform", "predict", "acc_stats", "enroll", "score", "project"):
                self.own.unmodelled.add((f.key, src(fexpr)))
                return UNKNOWN
            if base.obj == frozenset({G}):
                return FRESH
            self.own.unmodelled.add((f.key, src(fexpr)))
            return FRESH if base.obj == frozenset({F}) else UNKNOWN
        # ---- library functions ----------------------------------------------------------------------------------
        last = d.split(".")[-1] if d else name
        if d in ALIAS_ARGS:
            out = O({F})
            for an in ALIAS_ARGS[d]:
                if an in kwv:
                    out = join(out, kwv[an])
            return out
        if last in VIEW_FUNCS and argv:
            return O(argv[0].obj, argv[0].elem)
        if last == "array" and argv:
            cp = next((const_value(k.value) for k in kws if k.arg == "copy"), True)
            return FRESH if cp is not False else O(argv[0].obj)
        if d == "numpy.add.at" or last == "at":
            if argv:
                self.mutate(argv[0], e, "ufunc.at")
            return FRESH
        if isinstance(fexpr, ast.Name) and fexpr.id in ("list", "tuple", "sorted", "reversed") and argv:
            a = argv[0]
            return O({F}, elem=a.elem if a.elem is not None else extend(a.obj, "[]"))
        if isinstance(fexpr, ast.Name) and fexpr.id in ("zip", "enumerate", "iter"):
            el = frozenset()
            for a in argv:
                el |= a.elem if a.elem is not None else extend(a.obj, "[]")
            return O({F}, elem=el)
        if d or (isinstance(fexpr, ast.Name) and fexpr.id not in env):
            return FRESH  # NumPy/SciPy/Dask/copy/operator/builtins: fresh result unless listed above
        self.own.unmodelled.add((f.key, src(fexpr)))
        return UNKNOWN

    def is_guarded_ubm_training(self, e, fexpr, callee):
        """`self.ubm.fit(X)` handed over untrained: dominated by `self.ubm is None` / `self.ubm._means is None`."""
        if not (isinstance(fexpr, ast.Attribute) and fexpr.attr == "fit" and src(fexpr.value).endswith(".ubm")):
            return False
        from ..cfg import guards_of
        from ..frontend import enclosing_stmt
        st = enclosing_stmt(e)
        g = [src(t).replace(" ", "") for t, pol in guards_of(st) if pol]
        base = src(fexpr.value)
        ok = any(x in (f"{base}isNone", f"{base}._meansisNone") for x in g)
        self.s.ubm_training.append((src(e), ok, getattr(e, "lineno", None)))
        return ok

    def bindargs(self, callee, argv, kwv, args, kws, self_val=None):
        params = list(callee.posparams)
        b = {}
        vals = list(argv)
        if callee.self_name:
            if self_val is not None:
                b[callee.self_name] = self_val
            params = params[1:]
        has_star = any(isinstance(a, ast.Starred) for a in args)
        if has_star:
            star = None
            for a in argv:
                star = join(star, O(a.elem or extend(a.obj, "[]")))
            for p in params:
                b.setdefault(p, star)
        else:
            for p, v in zip(params, vals):
                b[p] = v
            if callee.vararg and len(vals) > len(params):
                el = frozenset()
                for v in vals[len(params):]:
                    el |= v.obj
                b[callee.vararg] = O({F}, elem=el)
        for k, v in kwv.items():
            b[k] = v
        if any(k.arg is None for k in kws):
            kk = None
            for k in kws:
                if k.arg is None:
                    pass
            for p in callee.params:
                b.setdefault(p, FRESH)
        return b


def _load(t):
    import copy as _c

    t2 = _c.copy(t)
    t2.ctx = ast.Load()
    return t2


def check_inplace_views(P, R, own, key, rule="ALIAS.inplace-view"):
    """No array is modified in place while a view of it, taken earlier, is still read afterwards.

    For every in-place statement on a local array A (A op= ..., A[...] = ..., out=A): a local B defined before it from A by a view
    (A[...], A.T, reshape/ravel/..., or a call into the package whose result may be its argument - OWN return summary) and read on
    some path after it would silently change its value."""
    f = P.func(key)
    R.analysed(f)
    du = get_defuse(f, P)
    n = 0

    def view_of(expr, st, depth=0):
        """Names of locals this expression may be a view of."""
        out = set()
        e = expr
        if isinstance(e, ast.Name):
            out.add(e.id)
            if depth < 3:
                for d in du.reaching(st, e.id):
                    if d.how == "assign" and d.value is not None:
                        out |= view_of(d.value, d.stmt, depth + 1)
            return out
        if isinstance(e, ast.Subscript):
            # basic slicing / integer indexing gives a view; a mask or index array a copy
            idx = e.slice.elts if isinstance(e.slice, ast.Tuple) else [e.slice]
            basic = all(isinstance(i, (ast.Slice, ast.Constant)) or (isinstance(i, ast.UnaryOp) and isinstance(i.operand, ast.Constant)) or (isinstance(i, ast.Name) and not any(dd.value is not None and isinstance(dd.value, ast.Compare) for dd in du.reaching(st, i.id))) for i in idx)
            return view_of(e.value, st, depth) if basic else set()
        if isinstance(e, ast.Attribute) and e.attr in ("T", "real"):
            return view_of(e.value, st, depth)
        if isinstance(e, ast.IfExp):
            return view_of(e.body, st, depth) | view_of(e.orelse, st, depth)
        if isinstance(e, ast.Call):
            fn = e.func.attr if isinstance(e.func, ast.Attribute) else (e.func.id if isinstance(e.func, ast.Name) else None)
            if fn in VIEW_METHODS and isinstance(e.func, ast.Attribute) and not (isinstance(e.func.value, ast.Name) and e.func.value.id in ("np", "numpy", "da")):
                return view_of(e.func.value, st, depth)
            if fn in VIEW_FUNCS and e.args:
                return view_of(e.args[0], st, depth)
            tg = [t[1] for t in P.resolve_callee(e.func, f) if t[0] == "repo"]
            for callee in tg:
                sm = own.sums.get(callee.key)
                if sm is None or sm.ret is None:
                    continue
                b = P.bind_args(callee, e.args, e.keywords)
                for o in sm.ret.all_origins():
                    if isinstance(o, tuple) and o[0] == "P" and o[1] in b:
                        out |= view_of(b[o[1]], st, depth + 1)
        return out

    inplace = []
    for st in du.cfg.nodes():
        tgt = None
        if isinstance(st, ast.AugAssign):
            tgt = st.target
        elif isinstance(st, ast.Assign) and len(st.targets) == 1 and isinstance(st.targets[0], ast.Subscript):
            tgt = st.targets[0]
        base = tgt
        while isinstance(base, ast.Subscript):
            base = base.value
        if isinstance(base, ast.Name) and tgt is not None:
            inplace.append((st, base.id))
        if isinstance(st, ast.Assign) and getattr(st, "_inplace", None):
            inplace.append((st, st._inplace))  # canonical form of `np.f(..., out=A)` (N8)
        for c in (x for x in ast.walk(st) if isinstance(st, ast.stmt) and isinstance(x, ast.Call)):
            for kw in c.keywords:
                if kw.arg == "out" and isinstance(kw.value, ast.Name):
                    inplace.append((st, kw.value.id))
    for st, a in inplace:
        n += 1
        bad = None
        for other in du.cfg.nodes():
            if other is st or not isinstance(other, ast.stmt):
                continue
            for nm in [x for x in ast.walk(other) if isinstance(x, ast.Name) and isinstance(x.ctx, ast.Load) and x.id != a]:
                rd = du.reaching(other, nm.id)
                for d in rd:
                    if d.value is None or d.how not in ("assign", "unpack") or d.stmt is st:
                        continue
                    # B was defined before the in-place statement, from A, and `other` reads it after the statement
                    if a in view_of(d.value, d.stmt) - {nm.id} and du.cfg.reach_avoiding(d.stmt, st) and du.cfg.reach_avoiding(st, other, {d.stmt}):
                        # the in-place statement itself reading B (A -= B[None]) is the hazard's first half; a later read is the second
                        bad = (nm.id, d.stmt, other)
        R.check(bad is None, rule, key, src(st)[:60], f"no earlier view of `{a}` is read afterwards", (f"`{bad[0]}` (defined by `{src(bad[1])[:50]}`) may be a view of `{a}`; `{src(st)[:40]}` changes `{a}` in place and `{src(bad[2])[:50]}` reads `{bad[0]}` afterwards: it no longer holds the value it was computed as") if bad else "", st.lineno)
    return n


def check_param_readonly(P, R, own, key, params, rule="OWN.readonly", why=""):
    """The listed parameters of a function are not modified in place (transitive mutation summary)."""
    f = P.func(key)
    R.analysed(f)
    sm = own.sums[f.key]
    n = 0
    for prm in params:
        if prm not in f.params:
            continue
        n += 1
        mine = {o: w for o, w in sm.mutates.items() if isinstance(o, tuple) and o[1] == prm}
        if mine:
            for o, w in mine.items():
                R.violation(rule, key, f"parameter {fmt_org(o)} is modified in place", f"{w}: {why or 'the object the caller passed is changed by the call, so a second call with the same object computes from different values'}")
        else:
            R.ok(rule, key, f"parameter {prm} is not modified", "not in the transitive in-place mutation summary")
    return n
