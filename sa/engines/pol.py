"""POL: polarity of model terms (DESIGN 3.2).

An expression is expanded into signed monomials (sign, set of atoms): `a - b*(c + d)` gives
(+,{a}) (-,{b,c}) (-,{b,d}).  Atoms are parameters and attribute loads on self/parameters;
locals are substituted through reaching definitions (flow-sensitively), `x -= e` flips e,
conditional expressions and several reaching definitions join.  The abstraction keeps signs
and co-occurrence only - no values, no coefficients - so the rule is invariant under
distributing, re-associating and renaming, and it is not symbolic execution.
"""
from __future__ import annotations

import ast

from ..dataflow import get_defuse
from ..frontend import attr_chain, src, walk_no_nested

TRANSPARENT = {
    "repeat", "flatten", "ravel", "reshape", "array", "asarray", "transpose", "squeeze", "atleast_2d", "atleast_1d",
    "expand_dims", "swapaxes", "copy", "deepcopy", "float", "asanyarray", "vstack", "hstack", "stack", "concatenate",
    "compute", "persist", "diagonal", "astype", "moveaxis", "rollaxis", "ascontiguousarray", "atleast_3d", "broadcast_to", "tile",
}
SUMS = {"sum", "nansum", "mean"}
PRODUCTS = {"dot", "matmul", "multiply", "tensordot", "einsum", "outer", "mult_along_axis", "inner"}
ADDS = {"add"}
SUBS = {"subtract"}
MAX_TERMS = 400


class Pol:
    def __init__(self, P, func, opaque=(), track_inv=False, track_coef=False, inline_repo=False):
        self.P = P
        self.f = func
        self.track_inv = track_inv  # atoms met in a denominator are written "1/atom"
        self.track_coef = track_coef  # numeric literals other than 0, 1, -1 become atoms "#<magnitude>"
        self.inline_repo = inline_repo  # module-level helper functions of the package are looked into (their parameter atoms renamed)
        self.expand_params = False  # optional parameters replaced by what the package's call sites pass (set by the caller)
        self.opaque = set(opaque)  # local names kept as atoms instead of being substituted
        self.opaque_label = dict(opaque) if isinstance(opaque, dict) else {}  # name -> atom text (so that rules need not know the name)
        self.du = get_defuse(func, P)
        self.unknown = []  # opaque constructs met

    # terms are (sign, frozenset(atoms)); sign in {+1,-1,0}; 0 = unknown
    def terms(self, e, stmt, scope=None, seen=None):
        scope = scope or {}
        seen = seen if seen is not None else set()
        T = self.terms
        if e is None:
            return []
        if isinstance(e, ast.Constant):
            if isinstance(e.value, (int, float)) and not isinstance(e.value, bool):
                if e.value == 0:
                    return []
                if self.track_coef and abs(e.value) != 1:
                    return [(1 if e.value > 0 else -1, frozenset({f"#{abs(e.value):g}"}))]
                return [(1 if e.value > 0 else -1, frozenset())]
            return []
        if isinstance(e, ast.UnaryOp):
            t = T(e.operand, stmt, scope, seen)
            if isinstance(e.op, ast.USub):
                return [(-s, a) for s, a in t]
            if isinstance(e.op, ast.UAdd):
                return t
            return [(0, a) for s, a in t]
        if isinstance(e, ast.BinOp):
            l, r = T(e.left, stmt, scope, seen), T(e.right, stmt, scope, seen)
            if isinstance(e.op, ast.Add):
                return l + r
            if isinstance(e.op, ast.Sub):
                return l + [(-s, a) for s, a in r]
            if isinstance(e.op, (ast.Mult, ast.MatMult)):
                return self._prod(l, r)
            if isinstance(e.op, (ast.Div, ast.FloorDiv)):
                if self.track_inv:
                    r = [(s_, frozenset(_inv(x) for x in a_)) for s_, a_ in r]
                if len(r) <= 1:
                    return self._prod(l, r) if r else l
                # denominator is a sum: opaque positive group if all its terms are positive
                sg = 1 if all(s == 1 for s, _ in r) else 0
                atoms = frozenset().union(*[a for _, a in r])
                return self._prod(l, [(sg, atoms)])
            if isinstance(e.op, ast.Pow):
                # even powers are sign-free, keep atoms with unknown sign unless exponent is literal 2
                ev = e.right.value if isinstance(e.right, ast.Constant) else None
                if ev == 2:
                    return self._prod(l, l)
                return [(0, a) for s, a in l]
            return [(0, a) for s, a in l + r]
        if isinstance(e, ast.IfExp):
            return T(e.body, stmt, scope, seen) + T(e.orelse, stmt, scope, seen)
        if isinstance(e, ast.Name):
            if e.id in scope:
                return scope[e.id]
            return self._var(e.id, stmt, seen)
        if isinstance(e, ast.Attribute):
            if e.attr == "T":
                return T(e.value, stmt, scope, seen)
            return self._attr(e, stmt, scope, seen)
        if isinstance(e, ast.Subscript):
            return T(e.value, stmt, scope, seen)
        if isinstance(e, ast.Call):
            return self._call(e, stmt, scope, seen)
        if isinstance(e, (ast.List, ast.Tuple)):
            out = []
            for x in e.elts:
                out += T(x, stmt, scope, seen)
            return out
        if isinstance(e, (ast.ListComp, ast.GeneratorExp)):
            sc = dict(scope)
            for g in e.generators:
                self._bind_iter(g.target, g.iter, stmt, sc, seen)
            return T(e.elt, stmt, sc, seen)
        if isinstance(e, ast.NamedExpr):
            return T(e.value, stmt, scope, seen)
        self.unknown.append(src(e))
        if isinstance(e, ast.Compare):
            return [(1, frozenset({"ind"}))]  # a comparison used as a number is a 0/1 indicator: non-negative
        return [(0, frozenset({"?" + type(e).__name__}))]

    def _prod(self, l, r):
        if not l:
            return []
        if not r:
            return []
        out = [(s1 * s2, a1 | a2) for s1, a1 in l for s2, a2 in r]
        if len(out) > MAX_TERMS:
            atoms = frozenset().union(*[a for _, a in out])
            return [(0, atoms)]
        return out

    def _elem_terms(self, it, stmt, scope, seen, index=None):
        """Terms of an element of the iterable `it`."""
        if isinstance(it, ast.Call):
            fn = src(it.func).split(".")[-1]
            if fn == "enumerate" and it.args:
                if index == 0:
                    return []
                return self._elem_terms(it.args[0], stmt, scope, seen)
            if fn == "zip" and index is not None and index < len(it.args):
                return self._elem_terms(it.args[index], stmt, scope, seen)
            if fn == "range":
                return []
        t = self.terms(it, stmt, scope, seen)
        return [(s, frozenset(x + "[*]" if not x.endswith("[*]") else x for x in a)) for s, a in t]

    def _bind_iter(self, target, it, stmt, sc, seen):
        if isinstance(target, ast.Name):
            sc[target.id] = self._elem_terms(it, stmt, sc, seen)
        elif isinstance(target, (ast.Tuple, ast.List)):
            for i, el in enumerate(target.elts):
                if isinstance(el, ast.Name):
                    sc[el.id] = self._elem_terms(it, stmt, sc, seen, i)

    def _var(self, name, stmt, seen):
        if name in self.opaque:
            return [(1, frozenset({self.opaque_label.get(name, name)}))]
        rd = self.du.reaching(stmt, name) if stmt is not None else []
        if not rd:
            if not self.du.all_defs(name):
                return []  # global / module constant: sign-neutral, atom-free
            rd = self.du.all_defs(name)
        out = []
        for d in rd:
            k = (id(d), name)
            if d.how == "param":
                exp = self._caller_terms(name) if getattr(self, "expand_params", False) else None
                if exp:
                    out += exp  # an optional parameter for which every call site of the package passes a computed value
                else:
                    out.append((1, frozenset({name})))
                continue
            if k in seen:
                continue
            seen2 = seen | {k}
            if d.how == "assign":
                out += self.terms(d.value, d.stmt, None, seen2)
            elif d.how == "aug":
                prev = self._var(name, d.stmt, seen2)
                inc = self.terms(d.value, d.stmt, None, seen2)
                op = d.stmt.op
                if isinstance(op, ast.Add):
                    out += prev + inc
                elif isinstance(op, ast.Sub):
                    out += prev + [(-s, a) for s, a in inc]
                else:
                    # x op= v is x = x op v: the same expansion as for the spelled-out expression (placement, powers)
                    fake = ast.copy_location(ast.BinOp(left=ast.copy_location(ast.Name(id=name, ctx=ast.Load()), d.stmt), op=op, right=d.value), d.stmt)
                    out += self.terms(fake, d.stmt, None, seen2)
            elif d.how == "iter":
                out += self._elem_terms(d.value, d.stmt, None, seen2, d.index)
            elif d.how == "unpack":
                if isinstance(d.value, ast.Call) and d.index is not None:
                    got = self._inline(d.value, d.index)
                    if got is not None:
                        out += got
                        continue
                t = self.terms(d.value, d.stmt, None, seen2)
                out += [(0, a) for s, a in t] if isinstance(d.value, ast.Call) else t
            elif d.how == "substore":
                out += self.terms(d.value, d.stmt, None, seen2)
                out += self._var(name, d.stmt, seen2)
            elif d.how == "walrus":
                out += self.terms(d.value, d.stmt, None, seen2)
        return out

    def _inline(self, call, index):
        """Terms of what a helper of the package returns for this call (component `index` of a returned tuple when given), with the
        atoms of the helper's parameters renamed to the caller's arguments.  None when not applicable."""
        if not self.inline_repo or getattr(self, "_depth", 0) >= 2:
            return None
        fn = call.func
        args = [a for a in call.args if not isinstance(a, ast.Starred)]
        tg = [t[1] for t in self.P.resolve_callee(fn, self.f) if t[0] == "repo"]
        if not tg or any(isinstance(a, ast.Starred) for a in call.args):
            return None
        callee = tg[0]
        bound = self.P.bind_args(callee, call.args, call.keywords)
        opq = self.opaque_provider(callee) if getattr(self, "opaque_provider", None) else ()
        sub = Pol(self.P, callee, opaque=opq, track_inv=self.track_inv, track_coef=self.track_coef, inline_repo=True)
        sub._depth = getattr(self, "_depth", 0) + 1
        sub.opaque_provider = getattr(self, "opaque_provider", None)
        rets = [r for r in walk_no_nested(callee.node) if isinstance(r, ast.Return) and r.value is not None]
        t_ = []
        for r in rets:
            rv = r.value
            if index is not None:
                if not (isinstance(rv, ast.Tuple) and index < len(rv.elts)):
                    return None
                rv = rv.elts[index]
            t_ += sub.terms(rv, r)
        t_ = list(dict.fromkeys(t_))
        if not t_ or sub.unknown:
            return None
        def _is_local(a_):
            """a plain local of the caller (not a parameter, not self): its atoms are those of its definition, not its name"""
            if not isinstance(a_, ast.Name) or a_.id in self.opaque:
                return False
            try:
                rd_ = self.du.reaching(self.du.stmt_of(call), a_.id)
            except Exception:
                return False
            return bool(rd_) and all(d_.how in ("assign", "aug") for d_ in rd_)
        ren = {p_: src(a_) for p_, a_ in bound.items() if isinstance(a_, (ast.Name, ast.Attribute)) and not _is_local(a_)}

        def rn(atom):
            inv = atom.startswith("1/")
            base = atom[2:] if inv else atom
            for p_, new in ren.items():
                if base == p_ or base.startswith(p_ + ".") or base.startswith(p_ + "["):
                    base = new + base[len(p_):]
                    break
            return ("1/" if inv else "") + base

        out = [(s_, frozenset(rn(x) for x in a_)) for s_, a_ in t_]
        # parameters bound to compound expressions: the parameter's atom is replaced by the terms of the argument (a product of
        # polynomials); an attribute / element of such a parameter cannot be followed
        try:
            cst = self.du.stmt_of(call)
        except Exception:
            cst = None
        for p_, a_ in bound.items():
            if p_ in ren:
                continue
            if isinstance(a_, ast.Constant):
                at = self.terms(a_, cst) if cst is not None else []
            else:
                if cst is None:
                    return None
                at = self.terms(a_, cst)
            new = []
            for s_, atoms in out:
                if any(x.startswith(p_ + ".") or x.startswith(p_ + "[") or x.startswith("1/" + p_ + ".") for x in atoms):
                    return None
                if p_ in atoms:
                    rest = frozenset(x for x in atoms if x != p_)
                    new += self._prod([(s_, rest)], at) if at else []
                elif ("1/" + p_) in atoms:
                    rest = frozenset(x for x in atoms if x != "1/" + p_)
                    new += self._prod([(s_, rest)], [(q_, frozenset(_inv(y) for y in b_)) for q_, b_ in at]) if at else []
                else:
                    new.append((s_, atoms))
            out = new
        return list(dict.fromkeys(out))

    def _caller_terms(self, pname):
        """Terms of what the package's call sites pass for an optional (default None) parameter; None when it is not optional, no
        site passes it, or this Pol is itself such an expansion (no recursion)."""
        if getattr(self, "_depth", 0) >= 1 or pname == self.f.self_name:
            return None
        a = self.f.node.args
        pos = a.posonlyargs + a.args
        dflt = {x.arg: d_ for x, d_ in zip(pos[len(pos) - len(a.defaults):], a.defaults)}
        dflt.update({x.arg: d_ for x, d_ in zip(a.kwonlyargs, a.kw_defaults) if d_ is not None})
        if not (pname in dflt and isinstance(dflt[pname], ast.Constant) and dflt[pname].value is None):
            return None
        out = []
        for g in self.P.all_funcs([self.f.module.name]):
            for c in walk_no_nested(g.node):
                if not isinstance(c, ast.Call):
                    continue
                kind, fexpr, args, kws = self.P.peel_call(c, g)
                if not any(t_[0] == "repo" and t_[1].key == self.f.key for t_ in self.P.resolve_callee(fexpr, g)):
                    continue
                b = self.P.bind_args(self.f, args, kws)
                if pname in b and not (isinstance(b[pname], ast.Constant) and b[pname].value is None):
                    sub = Pol(self.P, g, track_inv=self.track_inv, track_coef=self.track_coef)
                    sub._depth = 1
                    out += sub.terms(b[pname], sub.du.stmt_of(c))
        return list(dict.fromkeys(out)) or None

    def _attr(self, e, stmt, scope, seen):
        ch = attr_chain(e)
        if ch is None:
            # attribute of an expression, e.g. x[0].n
            base = self.terms(e.value, stmt, scope, seen)
            return [(s, frozenset(x + "." + e.attr for x in a) if a else frozenset()) for s, a in base]
        root = ch[0]
        if root in scope:
            base = scope[root]
            suffix = "." + ".".join(ch[1:])
            return [(s, frozenset(x + suffix for x in a)) for s, a in base]
        # alias-only property getters: self.D -> self._D
        rc = self.P.recv_class(e.value, self.f)
        if rc is not None:
            pr = self.P.lookup_prop(rc, e.attr)
            if pr and "get" in pr:
                g = pr["get"]
                body = g.body()
                if len(body) == 1 and isinstance(body[0], ast.Return) and isinstance(body[0].value, ast.Attribute) and isinstance(body[0].value.value, ast.Name) and body[0].value.value.id == g.self_name:
                    return [(1, frozenset({src(e.value) + "." + body[0].value.attr}))]
        # local root: substitute the root's definition when it is itself an access path / element
        if stmt is not None and self.du.reaching(stmt, root) and not all(d.how == "param" for d in self.du.reaching(stmt, root)):
            base = self._var(root, stmt, seen)
            suffix = "." + ".".join(ch[1:])
            if base and all(len(a) == 1 for s, a in base):
                return [(s, frozenset(x + suffix for x in a)) for s, a in base]
        # module alias (np.pi, np.newaxis): neutral
        if not self.du.all_defs(root) and self.P.dotted(e, self.f):
            return []
        return [(1, frozenset({".".join(ch)}))]

    def _call(self, e, stmt, scope, seen):
        T = self.terms
        fn = e.func
        name = fn.attr if isinstance(fn, ast.Attribute) else (fn.id if isinstance(fn, ast.Name) else None)
        args = [a for a in e.args if not isinstance(a, ast.Starred)]
        if name in TRANSPARENT:
            if isinstance(fn, ast.Attribute) and not self._is_module(fn.value):
                return T(fn.value, stmt, scope, seen)  # method on the value: x.flatten()
            return T(args[0], stmt, scope, seen) if args else []
        if name in SUMS:
            if isinstance(fn, ast.Attribute) and not self._is_module(fn.value):
                return T(fn.value, stmt, scope, seen)
            out = T(args[0], stmt, scope, seen) if args else []
            for kw in e.keywords:
                if kw.arg == "start":
                    out = out + T(kw.value, stmt, scope, seen)
            if len(args) > 1 and name == "sum" and isinstance(fn, ast.Name):
                out = out + T(args[1], stmt, scope, seen)
            return out
        if name in PRODUCTS:
            ops = [a for a in args if not (isinstance(a, ast.Constant) and isinstance(a.value, (str, int)))]
            if name == "mult_along_axis":
                ops = args[:2]
            out = None
            for a in ops:
                t = T(a, stmt, scope, seen)
                out = t if out is None else self._prod(out, t)
            return out or []
        if name in ("divide", "true_divide", "floor_divide") and len(args) >= 2:
            return T(ast.BinOp(left=args[0], op=ast.Div(), right=args[1]), stmt, scope, seen)
        if name in ADDS and len(args) >= 2:
            return T(args[0], stmt, scope, seen) + T(args[1], stmt, scope, seen)
        if name in SUBS and len(args) >= 2:
            return T(args[0], stmt, scope, seen) + [(-s, a) for s, a in T(args[1], stmt, scope, seen)]
        if name in ("zeros", "zeros_like", "empty"):
            return []
        if name in ("ones", "ones_like", "eye", "identity", "full"):
            return [(1, frozenset())]
        if name == "where" and len(args) == 3:
            return T(args[1], stmt, scope, seen) + T(args[2], stmt, scope, seen)
        if name in ("power", "float_power") and len(args) == 2 and isinstance(args[1], ast.Constant) and args[1].value == 2:
            l = T(args[0], stmt, scope, seen)
            return self._prod(l, l)
        if name in ("abs", "exp", "sqrt", "inv", "pinv", "log", "cholesky", "solve", "power", "len", "int", "maximum", "minimum", "clip"):
            atoms = frozenset()
            for a in args:
                for s, at in T(a, stmt, scope, seen):
                    atoms |= at
            return [(0 if name in ("log", "solve", "power") else 1, frozenset(f"{name}({x})" for x in atoms) or frozenset())] if atoms else [(1, frozenset())]
        # a zero-argument method of the same object (self._compute_uprod()): a derived quantity of the object's attributes -
        # its terms are those of what it returns (same attribute atoms as if the expression were written in place)
        if isinstance(fn, ast.Attribute) and isinstance(fn.value, ast.Name) and fn.value.id == (self.f.self_name or "") and not args and not e.keywords and getattr(self, "_depth", 0) < 2:
            tg = [t[1] for t in self.P.resolve_callee(fn, self.f) if t[0] == "repo"]
            if tg and tg[0].self_name == self.f.self_name:
                sub = Pol(self.P, tg[0], opaque=self.opaque, track_inv=self.track_inv, track_coef=self.track_coef)
                sub._depth = getattr(self, "_depth", 0) + 1
                t_ = list(dict.fromkeys(sub.value_terms()))
                if t_ and not sub.unknown:
                    return t_
        # a helper function of the package called with plain access paths: the terms of what it returns, with the atoms of its
        # parameters renamed to the caller's arguments (opt-in)
        got = self._inline(e, None)
        if got is not None:
            return got
        # repository callee or unknown library call: opaque, unknown sign
        # the result is a fresh atom (its own polarity is +); what is inside is not visible to sign rules
        self.unknown.append(src(e.func))
        return [(1, frozenset({f"call:{src(e.func)}"}))]

    def _is_module(self, node):
        d = self.P.dotted(node, self.f)
        return d is not None and not (isinstance(node, ast.Name) and self.du.all_defs(node.id))

    # ---- queries ------------------------------------------------------------
    def value_terms(self, which="return"):
        """Terms of the function's return value (all return statements joined), or of a named local at the exit."""
        out = []
        rets = [n for n in walk_no_nested(self.f.node) if isinstance(n, ast.Return) and n.value is not None]
        for r in rets:
            if which == "return":
                out += self.terms(r.value, r)
            else:
                out += self._var(which, r, set())
        return out


def _inv(atom):
    return atom[2:] if atom.startswith("1/") else "1/" + atom


def check_inverse(R, rule, fkey, terms, inverted=(), direct=(), what="", line=None):
    """With Pol(track_inv=True): every atom matching a pattern of `inverted` must stand in a denominator, every atom
    matching `direct` in a numerator.  (x / v and x * v have the same sign and the same atoms; only this tells them apart
    when v is dimensionless.)"""
    bad = []
    n = 0
    for s, a in terms:
        for x in a:
            inv = x.startswith("1/")
            base = x[2:] if inv else x
            if any(_match(base, [p]) for p in inverted):
                n += 1
                if not inv:
                    bad.append((x, "multiplies where the model equation divides by it"))
            if any(_match(base, [p]) for p in direct):
                n += 1
                if inv:
                    bad.append((x, "divides where the model equation multiplies by it"))
    if bad:
        R.violation(rule, fkey, what or "numerator / denominator placement", "; ".join(f"{x} {why}" for x, why in sorted(set(bad))[:4]), line)
    elif n:
        R.ok(rule, fkey, what or "numerator / denominator placement", f"{n} atom occurrences in the expected position", line)
    return n


def check_coefficients(R, rule, fkey, terms, expect, what="", line=None):
    """With Pol(track_coef=True).  expect: list of (patterns that select a term, coefficient or None).  The selected terms
    must carry exactly that literal coefficient (None: no literal other than 1)."""
    bad = []
    n = 0
    for pats, coef in expect:
        sel = [(s, a) for s, a in terms if all(any(_match(x[2:] if x.startswith("1/") else x, [p]) for x in a) for p in pats)]
        for s, a in sel:
            n += 1
            cs = sorted(x for x in a if x.startswith("#"))
            want = [] if coef is None else [f"#{coef:g}"]
            if cs != want:
                bad.append(f"term with {'·'.join(pats)} has coefficient {'·'.join(c[1:] for c in cs) or '1'}, the model equation has {coef if coef is not None else 1}")
    if bad:
        R.violation(rule, fkey, what or "literal coefficients", "; ".join(sorted(set(bad))[:3]), line)
    elif n:
        R.ok(rule, fkey, what or "literal coefficients", f"{n} terms with the expected coefficient", line)
    return n


def coef_value(atoms):
    """Numeric value of the literal coefficient of a term (track_coef, optionally track_inv): product of '#x' and '1/#x'."""
    v = 1.0
    for x in atoms:
        if x.startswith("#"):
            v *= float(x[1:])
        elif x.startswith("1/#"):
            v /= float(x[3:])
    return v


def fmt_terms(terms):
    return " ".join(("+" if s > 0 else "-" if s < 0 else "?") + "{" + ",".join(sorted(a)) + "}" for s, a in terms)


def _match(atom, pats):
    for p in pats:
        if p.startswith("*") and atom.endswith(p[1:]):
            return True
        if atom == p or atom.endswith("." + p) or (p.endswith("*") and atom.startswith(p[:-1])):
            return True
        if "(" not in p and atom.split("(")[-1].rstrip(")") == p and "(" in atom:
            return True
    return False


def check_row(R, rule, fkey, terms, row, line=None):
    """row: dict(atoms=[alternatives], sign='+'|'-', required=True, with_=[...], without=[...], why=str)"""
    pats = row["atoms"]
    label = "|".join(pats)
    hits = [(s, a) for s, a in terms if any(_match(x, pats) for x in a)]
    want = 1 if row["sign"] == "+" else -1
    what = f"{label}: {row['sign']}"
    if not hits:
        if row.get("required", True):
            R.violation(rule, fkey, what, f"term with {label} is missing from the expression ({row.get('why', 'the model equation needs it')})", line)
        return
    bad = [(s, a) for s, a in hits if s == -want]
    unk = [(s, a) for s, a in hits if s == 0]
    if bad:
        R.violation(rule, fkey, what, f"{label} enters with sign {'+' if want < 0 else '-'} in {fmt_terms(bad)}; {row.get('why', '')}", line)
        return
    if unk:
        R.undecided(rule, fkey, what, f"sign of {label} not determined in {fmt_terms(unk)}", line)
        return
    for w in row.get("with_", []):
        miss = [(s, a) for s, a in hits if not any(_match(x, [w]) for x in a)]
        if miss:
            R.violation(rule, fkey, f"{label} weighted by {w}", f"term {fmt_terms(miss)} lacks the factor {w}; {row.get('why', '')}", line)
            return
    for w in row.get("without", []):
        has = [(s, a) for s, a in hits if any(_match(x, [w]) for x in a)]
        if has:
            R.violation(rule, fkey, f"{label} not weighted by {w}", f"term {fmt_terms(has)} is weighted by {w}; {row.get('why', '')}", line)
            return
    R.ok(rule, fkey, what, fmt_terms(hits)[:120], line)
