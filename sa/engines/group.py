"""GROUP — recognisers for the ways a program selects "the members of one class" out of a labelled collection.

The selection rules of the properties (IDX.select, IDX.mask-eq, ...) accept `labels == k` masks.  The same partition can be
computed by sorting: a permutation that sorts the labels is cut where the sorted labels change (or at the cumulative class
counts), and each piece holds the positions of one class.  This module decides, from the def-use cone of an index expression,
whether it is such a sort-and-split grouping of the given labels, and checks the parts of the idiom whose absence changes the
partition:

  G1  the array that is cut is (derived from) `argsort(labels)`: cutting the identity order gives runs of *positions*, which
      are classes only for data already sorted by class,
  G2  the cut points derive from the same labels (their sorted sequence, or their per-class counts),
  G3  cut points taken from a shifted comparison `s[1:] != s[:-1]` are moved by one (`+ 1`, or a leading element prepended);
      cut points taken from counts are accumulated (`cumsum`),
  G4  a dictionary of groups is keyed by a label read through a member of the group.

Nothing is executed; the verdict is about the shape of the computation.
"""
from __future__ import annotations

import ast

from ..dataflow import cone
from ..frontend import src, walk_no_nested

SPLITS = ("split", "array_split")
SORTS = ("argsort", "lexsort")
PREPENDS = ("r_", "concatenate", "insert", "append", "hstack", "pad")


def _fname(c):
    return c.func.attr if isinstance(c.func, ast.Attribute) else (c.func.id if isinstance(c.func, ast.Name) else "")


def _calls(nodes, names):
    return [n for n in nodes if isinstance(n, ast.Call) and _fname(n) in names]


class Grouping:
    def __init__(self):
        self.kind = None  # "sort-split" | None
        self.ok = False
        self.why = ""
        self.site = None


def sort_split(du, expr, stmt, label_names=(), label_attrs=(), is_label=None, by_id=False, _depth=0):
    """Is `expr` (an index used to pick the members of a class) a piece of a sort-and-split grouping of the labels?
    label_names: parameter names that hold the labels; is_label: alternatively a predicate on a Cone.  by_id: the pieces are
    picked by the class id as a list position (`pieces[i]`), which is right only when a piece exists for every id (G5).
    Returns a Grouping (kind None when the idiom is not present at all)."""
    g = Grouping()
    c = cone(du, expr, stmt, interproc=False)
    splits = _calls(c.nodes, SPLITS)
    if not splits and _depth < 1:
        # the grouping may have been factored out: a helper of the package that receives the labels and returns the pieces
        P, f = du.P, du.f
        from ..dataflow import get_defuse as _gdu
        for call_ in [n for n in c.nodes if isinstance(n, ast.Call)]:
            try:
                tg = [t_[1] for t_ in P.resolve_callee(call_.func, f) if t_[0] == "repo"]
            except Exception:
                tg = []
            for h in tg:
                if not any(isinstance(x, ast.Call) and _fname(x) in SPLITS for x in ast.walk(h.node)):
                    continue
                b = P.bind_args(h, call_.args, call_.keywords)
                cst = du.stmt_of(call_)

                def _lab(a_):
                    cn_ = cone(du, a_, cst, interproc=False)
                    return (is_label is not None and is_label(cn_)) or bool(set(label_names) & cn_.params)
                hl = [p_ for p_, a_ in b.items() if _lab(a_)]
                hdu = _gdu(h, P)
                for r in [x for x in walk_no_nested(h.node) if isinstance(x, ast.Return) and x.value is not None]:
                    for part in (r.value.elts if isinstance(r.value, ast.Tuple) else [r.value]):
                        sub = sort_split(hdu, part, r, label_names=hl, by_id=False, _depth=_depth + 1)
                        if sub.kind is not None:
                            if sub.ok:
                                sub.why = f"{sub.why}, in the helper {h.qualname}"
                            return sub
        return g
    if not splits:
        return g
    g.kind = "sort-split"

    def touches_labels(cn):
        if is_label is not None and is_label(cn):
            return True
        return bool(set(label_names) & cn.params) or any(a.split(".")[-1] in label_attrs for a in cn.attrs)

    for sp in splits:
        g.site = sp
        if len(sp.args) < 2:
            g.why = f"`{src(sp)[:50]}`: no cut points"
            return g
        st = du.stmt_of(sp)
        c0 = cone(du, sp.args[0], st, interproc=False)
        sorts = _calls(c0.nodes, SORTS)
        if not sorts:
            g.why = f"`{src(sp)[:60]}` cuts an order that is not a sort of the labels (G1): the pieces are runs of positions, which are classes only when the samples are already stored class by class"
            return g
        if not any(touches_labels(cone(du, (s.args[0] if s.args else s.func.value), du.stmt_of(s), interproc=False)) for s in sorts if (s.args or isinstance(s.func, ast.Attribute))):
            g.why = f"`{src(sorts[0])[:50]}` does not sort the class labels (G1)"
            return g
        c1 = cone(du, sp.args[1], st, interproc=False)
        if not touches_labels(c1):
            g.why = f"the cut points `{src(sp.args[1])[:40]}` do not derive from the class labels (G2)"
            return g
        shifted = [n for n in c1.nodes if isinstance(n, ast.Compare) and len(n.ops) == 1 and isinstance(n.ops[0], (ast.NotEq, ast.Eq)) and all(isinstance(x, ast.Subscript) and isinstance(x.slice, ast.Slice) for x in (n.left, n.comparators[0]))]
        counted = bool(_calls(c1.nodes, ("unique", "bincount", "Counter"))) or any(isinstance(n, ast.Call) and any(k.arg == "return_counts" for k in n.keywords) for n in c1.nodes)
        if shifted and by_id:
            g.why = "the pieces are picked by class id as list positions, but there is one piece per run of equal labels: an absent class shifts every later class to the wrong piece (G5)"
            return g
        if shifted:
            # the compared sequence is the labels in sorted order
            sorted_ok = False
            for cmp_ in shifted:
                cs = cone(du, cmp_.left, du.stmt_of(cmp_), interproc=False)
                if touches_labels(cs) and (_calls(cs.nodes, SORTS + ("sort", "sorted")) or any(isinstance(n, ast.Call) and _fname(n) in SORTS for n in cs.nodes)):
                    sorted_ok = True
            if not sorted_ok:
                g.why = "the label sequence whose changes give the cut points is not the labels in sorted order (G2)"
                return g
            plus_one = any(isinstance(n, ast.BinOp) and isinstance(n.op, ast.Add) and any(isinstance(x, ast.Constant) and x.value == 1 for x in (n.left, n.right)) for n in c1.nodes)
            prepended = bool(_calls(c1.nodes, PREPENDS)) or any(isinstance(n, ast.Subscript) and isinstance(n.value, ast.Attribute) and n.value.attr in ("r_", "c_") for n in c1.nodes)
            if not (plus_one or prepended):
                g.why = "the positions where neighbouring sorted labels differ are used as cut points without moving them by one (G3): the last member of every class is put into the next class"
                return g
        elif counted:
            if by_id and not any(isinstance(n, ast.Call) and _fname(n) == "bincount" and (len(n.args) > 1 or any(k.arg == "minlength" for k in n.keywords)) for n in c1.nodes):
                g.why = "the pieces are picked by class id as list positions, but the counts that cut them exist only for the classes that occur (no `bincount(..., minlength=n)`): an empty class shifts every later class to the wrong piece (G5)"
                return g
            if not _calls(c1.nodes, ("cumsum", "accumulate", "add.accumulate")) and not any(isinstance(n, ast.Call) and isinstance(n.func, ast.Attribute) and n.func.attr in ("cumsum", "accumulate") for n in c1.nodes):
                g.why = "per-class counts are used as cut points without being accumulated (G3)"
                return g
        else:
            g.why = "the cut points are neither the changes of the sorted labels nor accumulated class counts (G2)"
            return g
    # G4: dictionary of groups
    for n in c.nodes:
        if isinstance(n, ast.DictComp) and _calls(list(ast.walk(n)), SPLITS):
            kc = cone(du, n.key, du.stmt_of(n), interproc=False)
            tv = {x.id for gen in n.generators for x in ast.walk(gen.target) if isinstance(x, ast.Name)}
            key_names = {x.id for x in ast.walk(n.key) if isinstance(x, ast.Name)}
            if not (touches_labels(kc) and (tv & key_names)):
                g.why = f"the dictionary of groups is keyed by `{src(n.key)[:40]}`, which is not a label read through a member of the group (G4)"
                return g
            for sub in [x for x in ast.walk(n.key) if isinstance(x, ast.Subscript) and tv & {y.id for y in ast.walk(x.slice) if isinstance(y, ast.Name)}]:
                bc = cone(du, sub.value, du.stmt_of(n), interproc=False)
                if _calls(bc.nodes, SORTS + ("sort", "sorted")):
                    g.why = f"the group's label is read from the *sorted* labels `{src(sub.value)[:30]}` at a position of the original order (G4)"
                    return g
    g.ok = True
    g.why = "sort-and-split grouping of the labels (G1-G4)"
    return g


def selection(du, index_expr, stmt, is_label, loop_var_ok=None):
    """Classifies the index expression that picks the members of class k out of a collection.
    Returns (kind, ok, why): kind in "mask-eq" (labels == k), "mask-list" (a list of such masks, one per class, indexed by the
    class), "sort-split", or None when nothing is recognised."""
    e = index_expr
    if isinstance(e, ast.Compare) and len(e.ops) == 1:
        lc = cone(du, e.left, stmt, interproc=False)
        rc = cone(du, e.comparators[0], stmt, interproc=False)
        if is_label(lc) or is_label(rc):
            if not isinstance(e.ops[0], ast.Eq):
                return "mask-eq", False, f"members are selected with `{src(e)[:40]}`, not by equality with the class"
            return "mask-eq", True, "labels == class"
    c = cone(du, e, stmt, interproc=False)
    verdicts = []
    if _calls(c.nodes, SPLITS):
        by_id = isinstance(e, ast.Subscript) and not any(isinstance(n, (ast.DictComp, ast.Dict)) for n in c.nodes)
        g = sort_split(du, e, stmt, is_label=is_label, by_id=by_id)
        verdicts.append((g.kind, g.ok, g.why))
    cmps = [n for n in c.nodes if isinstance(n, ast.Compare) and len(n.ops) == 1 and not all(isinstance(x, ast.Subscript) and isinstance(x.slice, ast.Slice) for x in (n.left, n.comparators[0])) and (is_label(cone(du, n.left, du.stmt_of(n), interproc=False)) or is_label(cone(du, n.comparators[0], du.stmt_of(n), interproc=False)))]
    if cmps:
        verdicts.append(_mask_list(du, e, c, cmps))
    for v in verdicts:
        if not v[1]:
            return v
    return verdicts[0] if verdicts else (None, False, "")


def _mask_list(du, e, c, cmps):
    if True:
        bad = [n for n in cmps if not isinstance(n.ops[0], ast.Eq)]
        if bad:
            return "mask-list", False, f"members are selected with `{src(bad[0])[:40]}`, not by equality with the class"
        # a list of masks indexed by the class: the comprehension runs over the same range as the index that picks from it
        if isinstance(e, ast.Subscript):
            first_ = e.slice.elts[0] if isinstance(e.slice, ast.Tuple) and e.slice.elts else e.slice
            if isinstance(first_, ast.Constant) or (isinstance(first_, ast.UnaryOp) and isinstance(first_.operand, ast.Constant)):
                return "mask-list", False, f"`{src(e)[:40]}` takes the same fixed row of masks whatever the class being accumulated"
            for n in c.nodes:
                if isinstance(n, ast.ListComp) and any(x in cmps for x in ast.walk(n.elt)):
                    gen = n.generators[0]
                    cmp_ = next(x for x in ast.walk(n.elt) if x in cmps)
                    tv = gen.target.id if isinstance(gen.target, ast.Name) else None
                    if tv is None or tv not in {x.id for x in ast.walk(cmp_) if isinstance(x, ast.Name)}:
                        return "mask-list", False, f"the masks `{src(n)[:50]}` do not compare the labels with the class the list is indexed by"
                    if gen.ifs:
                        return "mask-list", False, f"the list of masks `{src(n)[:50]}` is filtered: its positions are no longer the classes"
        return "mask-list", True, "labels == class (masks computed once per class)"


# ---------------------------------------------------------------------------------------------------------------------------
# grouped sums without a loop over the classes
# ---------------------------------------------------------------------------------------------------------------------------
def _ufunc_method(c, method):
    """np.<ufunc>.<method>(...) -> ufunc name, else None"""
    if isinstance(c, ast.Call) and isinstance(c.func, ast.Attribute) and c.func.attr == method and isinstance(c.func.value, ast.Attribute):
        return c.func.value.attr
    return None


def _permuted(cn):
    """names of permutations (results of a sort) the cone indexes with"""
    return {src(n) for n in cn.nodes if isinstance(n, ast.Call) and _fname(n) in SORTS}


def change_points(du, e, st, is_label):
    """`e` (segment starts) derives from the positions where the *sorted* labels change: np.diff / a shifted comparison of
    labels[order].  Such segments are never empty.  Returns (bool, reason)."""
    c = cone(du, e, st, interproc=False)
    if _calls(c.nodes, ("cumsum", "bincount", "searchsorted", "unique", "accumulate")):
        return False, "segment starts come from per-class counts / searchsorted: a class without members gives an empty segment"
    shifted = [n for n in c.nodes if isinstance(n, ast.Compare) and len(n.ops) == 1 and isinstance(n.ops[0], (ast.NotEq, ast.Eq)) and all(isinstance(x, ast.Subscript) and isinstance(x.slice, ast.Slice) for x in (n.left, n.comparators[0]))]
    diffs = _calls(c.nodes, ("diff", "ediff1d"))
    if not shifted and not diffs:
        return False, "segment starts are not the change points of the sorted labels"
    for n in shifted:
        cs = cone(du, n.left, du.stmt_of(n), interproc=False)
        if not (is_label(cs) and _calls(cs.nodes, SORTS + ("sort", "sorted"))):
            return False, "the compared sequence is not the labels in sorted order"
    for n in diffs:
        if not n.args:
            return False, "diff without operand"
        cs = cone(du, n.args[0], du.stmt_of(n), interproc=False)
        if not (is_label(cs) and _calls(cs.nodes, SORTS + ("sort", "sorted"))):
            return False, "the differenced sequence is not the labels in sorted order"
        # np.diff gives n-1 values: position 0 must be made a start (prepend=) or the result moved by one
        if not any(k.arg in ("prepend", "to_begin") for k in n.keywords):
            plus_one = any(isinstance(x, ast.BinOp) and isinstance(x.op, ast.Add) and any(isinstance(y, ast.Constant) and y.value == 1 for y in (x.left, x.right)) for x in c.nodes)
            prep = bool(_calls(c.nodes, PREPENDS)) or any(isinstance(x, ast.Subscript) and isinstance(x.value, ast.Attribute) and x.value.attr in ("r_", "c_") for x in c.nodes)
            if not (plus_one and prep):
                return False, "the change points of np.diff are not moved by one with a leading 0 (the first segment is lost or every start is one early)"
    return True, "segment starts are the change points of the sorted labels (no segment is empty)"


def scatter_sites(f, du, is_label, data_param):
    """Grouped sums over the data written without a loop over the groups.  [(node, kind, ok, reason)]
      scatter   np.add.at(acc, labels, rows)             - labels and rows in the same (original) order
      segments  np.add.reduceat(rows[order], starts)     - order sorts the labels, starts are their change points, the result is
                                                           stored at the label of each segment
      bincount  np.bincount(labels, weights=col)         - one column at a time"""
    out = []
    for st in walk_no_nested(f.node):
        for c in [x for x in ast.walk(st) if isinstance(x, ast.Call)] if isinstance(st, ast.stmt) and not isinstance(st, (ast.For, ast.While, ast.If, ast.With, ast.Try, ast.FunctionDef)) else []:
            uf = _ufunc_method(c, "at")
            if uf is not None and len(c.args) >= 3:
                ci, cr = cone(du, c.args[1], st, interproc=False), cone(du, c.args[2], st, interproc=False)
                if not (data_param in cr.params and is_label(ci)):
                    continue
                if uf != "add":
                    out.append((c, "scatter", False, f"`np.{uf}.at` does not add the rows of a group"))
                elif is_label(cr) and not _permuted(cr):
                    out.append((c, "scatter", True, "rows are scatter-added at their own label"))
                elif _permuted(ci) != _permuted(cr):
                    out.append((c, "scatter", False, "labels and rows are not in the same order (one of them is permuted)"))
                else:
                    out.append((c, "scatter", True, "np.add.at(acc, labels, rows): every row is added to the accumulator row of its label"))
            uf = _ufunc_method(c, "reduceat")
            if uf is not None and len(c.args) >= 2:
                cv = cone(du, c.args[0], st, interproc=False)
                if data_param not in cv.params:
                    continue
                if uf != "add":
                    out.append((c, "segments", False, f"`np.{uf}.reduceat` does not add the rows of a segment"))
                    continue
                sorts = _calls(cv.nodes, SORTS)
                if not sorts or not any(is_label(cone(du, (s_.args[0] if s_.args else s_.func.value), du.stmt_of(s_), interproc=False)) for s_ in sorts if s_.args or isinstance(s_.func, ast.Attribute)):
                    out.append((c, "segments", False, "the rows are not brought into the order that sorts their labels: a segment is a run of positions, not a group"))
                    continue
                ok, why = change_points(du, c.args[1], st, is_label)
                if not ok:
                    out.append((c, "segments", False, why))
                    continue
                # where the segment sums go: acc[labels_sorted[starts]] = ...
                tgt = st.targets[0] if isinstance(st, ast.Assign) and len(st.targets) == 1 else None
                if isinstance(tgt, ast.Subscript):
                    first = tgt.slice.elts[0] if isinstance(tgt.slice, ast.Tuple) and tgt.slice.elts else tgt.slice
                    starts_names = {x.id for x in ast.walk(c.args[1]) if isinstance(x, ast.Name)}
                    key = first
                    hops = 0
                    while isinstance(key, ast.Name) and hops < 3:
                        rd_ = du.reaching(st, key.id)
                        if len(rd_) == 1 and rd_[0].how == "assign" and rd_[0].value is not None:
                            key, hops = rd_[0].value, hops + 1
                        else:
                            break
                    okk = False
                    if isinstance(key, ast.Subscript):
                        cb = cone(du, key.value, st, interproc=False)
                        okk = is_label(cb) and bool(_calls(cb.nodes, SORTS + ("sort", "sorted"))) and bool(starts_names & {x.id for x in ast.walk(key.slice) if isinstance(x, ast.Name)})
                    if not okk:
                        out.append((c, "segments", False, f"the segment sums are stored at `{src(first)[:40]}`, which is not the sorted label at each segment start"))
                        continue
                out.append((c, "segments", True, "rows sorted by label, reduced over the runs of equal labels, stored at each run's label"))
            if isinstance(c.func, ast.Attribute) and c.func.attr == "bincount" and any(k.arg == "weights" for k in c.keywords) and c.args:
                ci = cone(du, c.args[0], st, interproc=False)
                cw = cone(du, next(k.value for k in c.keywords if k.arg == "weights"), st, interproc=False)
                if data_param in cw.params and is_label(ci):
                    okp = _permuted(ci) == _permuted(cw)
                    out.append((c, "bincount", okp, "np.bincount(labels, weights=values): grouped sum" if okp else "labels and weights are not in the same order"))
    return out
