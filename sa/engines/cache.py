"""CACHE: coherence typestate of GMMMachine (DESIGN 3.6, C17 rules K1-K7).

Table (the oracle, from the property text and the class itself):
    _g_norms      is a cache of  _variances
    _log_weights  is a cache of  _weights
    _variances    >=             variance_thresholds
"""
from __future__ import annotations

import ast

from ..cfg import ENTRY, EXIT, guards_of
from ..dataflow import cone, get_defuse, setattr_expansions, stores
from ..frontend import attr_chain, src, walk_no_nested

CLS = "GMMMachine"
PRIVATE = {
    # private field -> the property whose setter owns it
    "_weights": "weights",
    "_log_weights": "weights",
    "_variances": "variances",
    "_g_norms": "variances",
    "_variance_thresholds": "variance_thresholds",
}
# _means has no cache and no clamp: a direct store is behaviour-preserving, so it is not a rule instance.
PUBLIC_PARAMS = ("weights", "means", "variances", "variance_thresholds")
INPLACE_KW = ("out",)


def _owner_ok(func, field):
    """May this function store the private field? (who-may-write table)"""
    if func.cls is None or func.cls.name != CLS:
        return False
    if func.qualname == f"{CLS}.__init__":
        return True
    if func.qualname == f"{CLS}.{PRIVATE[field]}.fset":
        return True
    if field == "_g_norms" and func.qualname == f"{CLS}.g_norms.fget":
        return True  # the lazy getter
    if field == "_log_weights" and func.qualname == f"{CLS}.log_weights.fget":
        return True  # a lazy getter would be an acceptable design
    if field == "_variances" and func.qualname == f"{CLS}.variance_thresholds.fset":
        return True  # allowed to re-clamp directly; pairing is checked by K4
    if field == "_g_norms" and func.qualname == f"{CLS}.variance_thresholds.fset":
        return True
    return False


def _gmm_receiver(P, expr, func):
    """True / False / None(unknown): is expr a GMMMachine?"""
    rc = P.recv_class(expr, func)
    if rc is None:
        return None
    return any(c.name == CLS for c in P.mro(rc))


def k1_who_may_write(P, R):
    """K1: the five cached/private fields are stored only by their setter, the lazy getter and __init__."""
    n = 0
    for f in P.all_funcs():
        R.analysed(f)
        sts = stores(f)
        exp, _unk = setattr_expansions(f)
        cand = []
        for st, t, v, kind in sts:
            if kind == "setattr":
                continue
            base = t
            sub = False
            while isinstance(base, ast.Subscript):
                base = base.value
                sub = True
            if isinstance(base, ast.Attribute) and base.attr in PRIVATE:
                cand.append((st, base, sub, kind))
                if not sub and kind == "assign" and isinstance(v, ast.Constant) and v.value is None:
                    base._reset_to_none = True
        for st, tgt, name, _s, _v in exp:
            if name in PRIVATE:
                cand.append((st, ast.Attribute(value=tgt, attr=name, ctx=ast.Store()), False, "setattr"))
        # in-place through out= keyword
        for c in walk_no_nested(f.node):
            if isinstance(c, ast.Call):
                for kw in c.keywords:
                    if kw.arg in INPLACE_KW and isinstance(kw.value, ast.Attribute) and kw.value.attr in PRIVATE:
                        cand.append((c, kw.value, True, "out="))
        for st, base, sub, kind in cand:
            isg = _gmm_receiver(P, base.value, f)
            if isg is False:
                continue  # another class's attribute of the same name
            n += 1
            field = base.attr
            what = f"{src(base)} ({'in-place ' if sub or kind in ('aug', 'out=') else ''}{kind})"
            line = getattr(st, "lineno", None)
            resets = {b_.attr for _s, b_, _sub, _k in cand if getattr(b_, "_reset_to_none", False) and src(b_.value) == src(base.value)}
            if getattr(base, "_reset_to_none", False) and f.cls is not None and f.cls.name == CLS and (field == "_g_norms" or (field == "_variances" and "_g_norms" in resets)):
                # invalidation, not a write: the cache alone (its lazy getter recomputes it), or the variances together with the
                # cache derived from them - nothing stale can be read afterwards
                R.ok("CACHE.K1", f.key, what, "reset to None together with what is derived from it (coherent invalidation)", line)
            elif not _owner_ok(f, field):
                R.violation(
                    "CACHE.K1", f.key, what,
                    f"{field} is written outside {CLS}.{PRIVATE[field]} setter / __init__ / lazy getter: "
                    "the value it caches (or that caches it) is not refreshed and the floor clamp is bypassed",
                    line,
                )
            elif (sub or kind in ("aug", "out=")) and field in ("_variances", "_weights"):
                # in-place change of a cached source inside the owner: must be followed by the refresh (K2/K3 check the pairing on the plain store)
                R.violation("CACHE.K1", f.key, what, f"in-place modification of {field}: caches derived from it go stale", line)
            else:
                R.ok("CACHE.K1", f.key, what, "owner", line)
    R.floor("CACHE.K1", n, 8)


def _store_stmts(func, field):
    out = []
    for st, t, v, kind in stores(func):
        if isinstance(t, ast.Attribute) and isinstance(t.value, ast.Name) and t.value.id == func.self_name and t.attr == field and kind in ("assign",):
            out.append((st, v))
    return out


def _is_clamp(P, func, du, value, stmt, param):
    """value == max(thresholds, <param>) in one of the accepted spellings; returns (ok, reason)."""
    c = cone(du, value, stmt, interproc=False)
    thr = any(a.split(".")[-1] in ("variance_thresholds", "_variance_thresholds") for a in c.attrs) or param == "threshold" and "threshold" in c.params
    dep_param = param in c.params or any(a.split(".")[-1] == "_variances" for a in c.attrs)
    # find the clamp operator at the top of the stored expression (following local names)
    v = value
    hops = 0
    while isinstance(v, ast.Name) and hops < 5:
        rd = du.reaching(stmt, v.id)
        if len(rd) != 1 or rd[0].value is None:
            break
        stmt, v = rd[0].stmt, rd[0].value
        hops += 1
    op = None
    if isinstance(v, ast.Call):
        d = P.dotted(v.func, func) or ""
        last = d.split(".")[-1]
        if last in ("maximum", "fmax") and len(v.args) >= 2:
            op = "maximum"
        elif last == "clip":
            # np.clip(x, lo, hi): lo must carry the thresholds
            lo = v.args[1] if len(v.args) > 1 else next((k.value for k in v.keywords if k.arg in ("a_min", "min")), None)
            if lo is not None and not (isinstance(lo, ast.Constant) and lo.value is None):
                op = "clip"
        elif last == "where" and len(v.args) == 3 and isinstance(v.args[0], ast.Compare):
            op = "where"
        elif last in ("minimum", "fmin"):
            return False, "np.minimum caps the variances from above instead of flooring them"
    if op is None:
        return False, f"stored value `{src(v)}` is not a floor clamp (np.maximum / np.clip(min=) / np.where)"
    if not thr:
        return False, "the clamp does not involve the variance thresholds"
    if not dep_param:
        return False, "the clamp does not involve the assigned variances"
    return True, op


def k2_variances_setter(P, R):
    cls = P.cls(CLS)
    pr = P.lookup_prop(cls, "variances")
    if not pr or "set" not in pr:
        R.error("anchor vanished: GMMMachine.variances setter")
        return
    f = pr["set"]
    R.analysed(f)
    du = get_defuse(f, P)
    param = f.value_params[0]
    vs = _store_stmts(f, "_variances")
    if not vs:
        R.error("GMMMachine.variances.fset does not store self._variances")
        return
    gs = _store_stmts(f, "_g_norms")
    for st, v in vs:
        ok, why = _is_clamp(P, f, du, v, st, param)
        R.check(ok, "CACHE.K2-clamp", f.key, f"self._variances = {src(v)}", f"floor clamp ({why})", why, st.lineno)
        covered = bool(gs) and du.cfg.must_pass_before_exit(ENTRY, [g for g, _ in gs])
        R.check(
            covered, "CACHE.K2-refresh", f.key, f"self._variances = {src(v)}",
            "every path through the setter also stores self._g_norms",
            "a path through the variances setter does not refresh self._g_norms: the normaliser goes stale", st.lineno,
        )
    for g, gv in gs:
        if isinstance(gv, ast.Constant) and gv.value is None:
            R.ok("CACHE.K2-fresh", f.key, f"self._g_norms = {src(gv)}", "reset; the lazy getter recomputes", g.lineno)
            continue
        c = cone(du, gv, g, interproc=False)
        fresh = False
        # (a) reads self._variances after the store
        if any(a == f"{f.self_name}._variances" for a in c.attrs):
            rd = du.reaching(g, f"{f.self_name}._variances")
            fresh = bool(rd) and all(d.stmt in [s for s, _ in vs] for d in rd)
        # (b) reads the same clamped local that is stored
        if not fresh:
            for st, v in vs:
                if isinstance(v, ast.Name):
                    ds = set(id(d) for d in du.reaching(st, v.id))
                    if ds and ds <= set(id(d) for d in c.defs):
                        fresh = True
        R.check(
            fresh, "CACHE.K2-fresh", f.key, f"self._g_norms = {src(gv)}",
            "computed from the clamped variances being stored",
            "the refreshed normaliser is not computed from the clamped variances being stored (raw argument or stale field)", g.lineno,
        )
        # ... and from nothing else of the raw argument: its shape may differ from the stored (clamped, broadcast) array's
        def _direct(e, st_, depth=0):
            out = []
            for n in ast.walk(e):
                if isinstance(n, ast.Name) and isinstance(n.ctx, ast.Load):
                    if n.id == param:
                        out.append(n)
                    elif depth < 3 and n.id != f.self_name and n.id not in {v_.id for _s, v_ in vs if isinstance(v_, ast.Name)}:
                        for d in du.reaching(st_, n.id):
                            if d.how == "assign" and d.value is not None and not any(d.stmt is s_ for s_, _ in vs):
                                out += _direct(d.value, d.stmt, depth + 1)
            return out
        raw = _direct(gv, g)
        R.check(not raw, "CACHE.K2-raw", f.key, f"self._g_norms = {src(gv)[:60]}", "no part of the normaliser is taken from the raw argument", f"part of the refreshed normaliser is computed from the raw argument `{param}` (e.g. its shape): assigned variances that are broadcast against the floors give a normaliser for another number of features", g.lineno)


def k2b_lazy_getter(P, R):
    """The lazy g_norms getter returns the cache and recomputes it from the current variances when unset."""
    cls = P.cls(CLS)
    pr = P.lookup_prop(cls, "g_norms")
    if not pr or "get" not in pr:
        R.error("anchor vanished: GMMMachine.g_norms getter")
        return
    f = pr["get"]
    R.analysed(f)
    du = get_defuse(f, P)
    for st, gv in _store_stmts(f, "_g_norms"):
        c = cone(du, gv, st, interproc=False)
        dep = c.has_attr("_variances", "variances")
        R.check(dep, "CACHE.K2-lazy", f.key, f"self._g_norms = {src(gv)}", "recomputed from the variances", "lazy recomputation does not read the variances", st.lineno)
        g = guards_of(st)
        guarded = any(src(t).replace(" ", "") in (f"{f.self_name}._g_normsisNone",) and pol for t, pol in g)
        R.check(guarded, "CACHE.K2-lazy", f.key, "guard of lazy store", "only when the cache is unset", "lazy recomputation is not guarded by `self._g_norms is None`", st.lineno)
    rets = [n for n in walk_no_nested(f.node) if isinstance(n, ast.Return)]
    for r in rets:
        c = cone(du, r.value, r, interproc=False) if r.value is not None else None
        ok = c is not None and (c.has_attr("_g_norms") or c.has_attr("_variances", "variances"))
        R.check(ok, "CACHE.K2-lazy", f.key, f"return {src(r.value) if r.value else ''}", "returns the cache", "getter does not return the cached normaliser", r.lineno)


def k3_weights_setter(P, R):
    cls = P.cls(CLS)
    pr = P.lookup_prop(cls, "weights")
    if not pr or "set" not in pr:
        R.error("anchor vanished: GMMMachine.weights setter")
        return
    f = pr["set"]
    R.analysed(f)
    du = get_defuse(f, P)
    ws = _store_stmts(f, "_weights")
    ls = _store_stmts(f, "_log_weights")
    if not ws:
        R.error("GMMMachine.weights.fset does not store self._weights")
        return
    lw_get = P.lookup_prop(cls, "log_weights")
    any_lw_store = any(
        isinstance(t, ast.Attribute) and t.attr == "_log_weights" for fn in P.all_funcs(["gmm"]) for _st, t, _v, _k in stores(fn)
    )
    if not any_lw_store and lw_get and "get" in lw_get:
        # no cache at all: the getter must derive log-weights from the weights on every call
        g = lw_get["get"]
        gdu = get_defuse(g, P)
        ok = True
        for r in [n for n in walk_no_nested(g.node) if isinstance(n, ast.Return)]:
            c = cone(gdu, r.value, r, interproc=False)
            ok = ok and c.has_attr("_weights", "weights") and c.calls_any("log")
        R.check(ok, "CACHE.K3", g.key, "uncached log_weights", "derived from the weights on every call", "log_weights neither cached by the setter nor derived from the weights")
        return
    # both stores on every path through the setter, in either order
    for st, v in ws:
        R.check(
            du.cfg.must_pass_before_exit(ENTRY, [l for l, _ in ls]) if ls else False,
            "CACHE.K3-refresh", f.key, f"self._weights = {src(v)}",
            "every path through the setter also stores self._log_weights",
            "a path through the weights setter does not refresh self._log_weights: log-weights go stale", st.lineno,
        )
    for l, lv in ls:
        if isinstance(lv, ast.Constant) and lv.value is None:
            g = lw_get["get"] if lw_get else None
            gc_ok = False
            if g is not None:
                gdu = get_defuse(g, P)
                gc_ok = any(cone(gdu, v2, s2, interproc=False).calls_any("log") for s2, v2 in _store_stmts(g, "_log_weights"))
            R.check(gc_ok, "CACHE.K3-fresh", f.key, "self._log_weights = None", "lazy recomputation in getter", "log-weights reset but never recomputed", l.lineno)
            continue
        c = cone(du, lv, l, interproc=False)
        islog = c.calls_any("log", "log2", "log10") and c.calls_any("log")
        from_param = f.value_params[0] in c.params
        from_field = c.has_attr("_weights")
        fresh = from_param
        if from_field and not from_param:
            rd = du.reaching(l, f"{f.self_name}._weights")
            fresh = bool(rd) and all(d.stmt in [s for s, _ in ws] for d in rd)
        R.check(
            islog and fresh, "CACHE.K3-fresh", f.key, f"self._log_weights = {src(lv)}",
            "logarithm of the weights being assigned",
            "the refreshed log-weights are not the logarithm of the weights being assigned (stale or wrong source)", l.lineno,
        )


def k4_thresholds_setter(P, R):
    cls = P.cls(CLS)
    pr = P.lookup_prop(cls, "variance_thresholds")
    if not pr or "set" not in pr:
        R.error("anchor vanished: GMMMachine.variance_thresholds setter")
        return
    f = pr["set"]
    R.analysed(f)
    du = get_defuse(f, P)
    ts = _store_stmts(f, "_variance_thresholds")
    if not ts:
        R.error("variance_thresholds.fset does not store self._variance_thresholds")
        return
    # re-clamp statements: property store self.variances = E (setter runs: clamps and refreshes)
    reclamps = []
    for st, t, v, kind in stores(f):
        if isinstance(t, ast.Attribute) and isinstance(t.value, ast.Name) and t.value.id == f.self_name and t.attr == "variances" and kind in ("assign", "aug"):
            reclamps.append((st, v))
    direct = _store_stmts(f, "_variances")
    for st, v in ts:
        # paths on which variances exist: cut the branch where `self._variances is None`
        none_false_edges = []
        for n in du.cfg.nodes():
            if isinstance(n, ast.If):
                t = src(n.test).replace(" ", "")
                if t == f"{f.self_name}._variancesisnotNone":
                    none_false_edges.append((n, "F"))
                elif t == f"{f.self_name}._variancesisNone":
                    none_false_edges.append((n, "T"))
        after = [s for s, _ in reclamps + direct if du.cfg.reach_avoiding(st, s)]
        ok = not _reach_cut(du.cfg, st, EXIT, set(after), none_false_edges)
        R.check(
            ok, "CACHE.K4-reclamp", f.key, f"self._variance_thresholds = {src(v)}",
            "existing variances are re-assigned through the setter afterwards (re-clamped, normaliser refreshed)",
            "raising the floors leaves existing variances below them (no re-clamp after the floor store)", st.lineno,
        )
    for st, v in reclamps:
        c = cone(du, v, st, interproc=False)
        dep = c.has_attr("_variances", "variances")
        before = not any(du.cfg.reach_avoiding(t, st) for t, _ in ts)
        R.check(
            dep and not before, "CACHE.K4-value", f.key, f"self.variances = {src(v)}",
            "re-clamps the current variances after the new floors are in place",
            "re-clamp does not use the current variances, or runs before the new floors are stored", st.lineno,
        )
    for st, v in direct:
        ok, why = _is_clamp(P, f, du, v, st, f.value_params[0])
        R.check(ok, "CACHE.K4-value", f.key, f"self._variances = {src(v)}", why, why, st.lineno)
        gs = [g for g, _ in _store_stmts(f, "_g_norms") if du.cfg.reach_avoiding(st, g)]
        R.check(du.cfg.must_pass_before_exit(st, gs), "CACHE.K4-value", f.key, "g_norms refresh after direct re-clamp", "", "direct re-clamp without refreshing the normaliser", st.lineno)


def _reach_cut(cfg, src_, dst, avoid, cut_edges):
    cut = {(id(n), lab) for n, lab in cut_edges}
    seen, todo = set(), [src_]
    first = True
    while todo:
        n = todo.pop()
        if not first:
            if n is dst or n == dst:
                return True
            if n in seen or n in avoid:
                continue
            seen.add(n)
        first = False
        for b, lab in cfg.succ.get(n, []):
            if (id(n), lab) in cut:
                continue
            todo.append(b)
    return False


GETTER_PARAMS = ("means", "variances", "weights", "variance_thresholds", "g_norms", "log_weights") + tuple(PRIVATE)


def k5_no_inplace_through_getter(P, R, modules=None):
    """K5: nobody writes *into* an array obtained from a GMM getter (subscript store, out=,
    in-place op on a local alias); `m.weights /= g` re-assigns through the setter and is fine."""
    n = 0
    for f in P.all_funcs(modules):
        du = None
        for st, t, v, kind in stores(f):
            if kind == "setattr":
                continue
            if not isinstance(t, ast.Subscript):
                # aug-assign on a local alias of a getter value
                if kind == "aug" and isinstance(t, ast.Name):
                    du = du or get_defuse(f, P)
                    for d in du.reaching(du.stmt_of(st), t.id):
                        if d.how == "assign" and isinstance(d.value, ast.Attribute) and d.value.attr in GETTER_PARAMS and _gmm_receiver(P, d.value.value, f):
                            n += 1
                            R.violation("CACHE.K5", f.key, f"{t.id} {type(st.op).__name__}= ... (alias of {src(d.value)})", "in-place operation on an array obtained from a GMM getter: caches go stale and the machine aliases it", st.lineno)
                continue
            base = t
            while isinstance(base, ast.Subscript):
                base = base.value
            tgt = None
            if isinstance(base, ast.Attribute) and base.attr in GETTER_PARAMS and base.attr not in PRIVATE:
                if _gmm_receiver(P, base.value, f):
                    tgt = src(base)
            elif isinstance(base, ast.Name):
                du = du or get_defuse(f, P)
                for d in du.reaching(du.stmt_of(st), base.id):
                    if d.how == "assign" and isinstance(d.value, ast.Attribute) and d.value.attr in GETTER_PARAMS and _gmm_receiver(P, d.value.value, f):
                        tgt = f"{base.id} (alias of {src(d.value)})"
            if tgt:
                n += 1
                R.violation("CACHE.K5", f.key, f"{src(t)} = ...", f"element store into {tgt}: the setter does not run, so the clamp/normaliser/log-weights are not refreshed", st.lineno)
        for c in walk_no_nested(f.node):
            if isinstance(c, ast.Call):
                for kw in c.keywords:
                    if kw.arg == "out" and isinstance(kw.value, ast.Attribute) and kw.value.attr in GETTER_PARAMS and _gmm_receiver(P, kw.value.value, f):
                        n += 1
                        R.violation("CACHE.K5", f.key, f"out={src(kw.value)}", "writes into the machine's array without the setter", c.lineno)
    # the array handed to a setter is the machine's array from then on: mutating it in place afterwards bypasses the setter
    for f in P.all_funcs(modules):
        du = None
        for st, t, v, k in stores(f):
            if k == "assign" and isinstance(t, ast.Attribute) and t.attr in ("weights", "variances", "variance_thresholds") and isinstance(v, ast.Name) and _gmm_receiver(P, t.value, f):
                du = du or get_defuse(f, P)
                sst = du.stmt_of(st)
                vdefs = {id(d) for d in du.reaching(sst, v.id)}
                for st2, t2, v2, k2 in stores(f):
                    base = t2
                    while isinstance(base, ast.Subscript):
                        base = base.value
                    inplace = (k2 == "aug" and isinstance(t2, ast.Name)) or (isinstance(t2, ast.Subscript))
                    if inplace and isinstance(base, ast.Name) and base.id == v.id:
                        s2 = du.stmt_of(st2)
                        if du.cfg.reach_avoiding(sst, s2) and {id(d) for d in du.reaching(s2, v.id)} & vdefs:
                            n += 1
                            R.violation("CACHE.K5", f.key, f"`{src(st2)[:50]}` after `{src(st)[:50]}`", f"`{v.id}` was handed to the {t.attr} setter and is then modified in place: the machine's array changes without the setter, so the cached log-weights / normaliser / clamp are stale", st2.lineno)
    R.ok("CACHE.K5", "package", "no element store / out= / aliased in-place op on GMM parameter arrays", f"{sum(1 for _ in P.all_funcs(modules))} functions scanned", nontrivial=False)
    return n


def k6_load_replaces_state(P, R):
    f = P.func("gmm:GMMMachine.load")
    R.analysed(f)
    du = get_defuse(f, P)
    ok_update = False
    for c in walk_no_nested(f.node):
        if isinstance(c, ast.Call) and isinstance(c.func, ast.Attribute) and c.func.attr == "update":
            tgt = src(c.func.value)
            if tgt == f"{f.self_name}.__dict__" and c.args and isinstance(c.args[0], ast.Attribute) and c.args[0].attr == "__dict__":
                cc = cone(du, c.args[0].value, du.stmt_of(c), interproc=False)
                if cc.calls_any("from_hdf5") or "repo:gmm:GMMMachine.from_hdf5" in cc.calls:
                    st = du.stmt_of(c)
                    if du.cfg.must_pass_before_exit(ENTRY, [st]):
                        ok_update = True
    for st, t, v, kind in stores(f):
        if isinstance(t, ast.Attribute) and src(t) == f"{f.self_name}.__dict__":
            ok_update = True
    if ok_update:
        R.ok("CACHE.K6", f.key, "self.__dict__.update(<from_hdf5(...)>.__dict__)", "whole state (parameters, floors, caches) replaced together")
        return
    # alternative: every visible parameter assigned through its setter
    props = {t.attr for st, t, v, kind in stores(f) if isinstance(t, ast.Attribute) and isinstance(t.value, ast.Name) and t.value.id == f.self_name}
    missing = [p for p in PUBLIC_PARAMS if p not in props]
    R.check(
        not missing, "CACHE.K6", f.key, "load assigns every parameter through its setter",
        "setters refresh the caches", f"load neither replaces __dict__ wholesale nor assigns {missing} through the setters: stale state survives a load",
    )


def k7_pickle_hooks(P, R):
    cls = P.cls(CLS)
    hooks = [m for m in ("__getstate__", "__setstate__", "__reduce__", "__reduce_ex__", "__deepcopy__", "__copy__") if m in cls.methods]
    if not hooks:
        R.ok("CACHE.K7", f"gmm:{CLS}", "no custom pickling/copy hooks", "default pickling and deepcopy carry caches together with their sources", nontrivial=False)
        return
    for h in hooks:
        f = cls.methods[h]
        txt = ast.dump(f.node)
        dropped = [p for p in PRIVATE if p in txt]
        if h == "__getstate__" and any(p in ("_log_weights", "_variance_thresholds", "_weights", "_variances", "_means") for p in dropped):
            # dropping a source or a non-lazy cache: is it restored by __setstate__?
            ss = cls.methods.get("__setstate__")
            restored = ss is not None and all(p in ast.dump(ss.node) for p in dropped)
            R.check(restored, "CACHE.K7", f.key, f"{h} mentions {dropped}", "restored in __setstate__", f"{h} drops or rewrites {dropped} and __setstate__ does not restore them: an unpickled machine keeps a stale or missing cache")
        else:
            R.undecided("CACHE.K7", f.key, h, "custom pickling/copy hook present; its effect on cached fields is not modelled")


def init_uses_setters(P, R):
    """__init__ initialises weights through the setter (or both _weights and _log_weights)."""
    f = P.func("gmm:GMMMachine.__init__")
    R.analysed(f)
    sts = stores(f)
    priv = {t.attr for st, t, v, k in sts if isinstance(t, ast.Attribute) and isinstance(t.value, ast.Name) and t.value.id == f.self_name}
    if "_weights" in priv and "_log_weights" not in priv:
        R.violation("CACHE.K3-init", f.key, "self._weights = ...", "__init__ stores _weights without _log_weights")
    elif "_log_weights" in priv and "_weights" not in priv and "weights" not in priv:
        R.violation("CACHE.K3-init", f.key, "self._log_weights = ...", "__init__ caches log-weights without the weights")
    else:
        R.ok("CACHE.K3-init", f.key, "weights initialised through the setter", "")
    # a cache initialised in __init__ must be None (unset) or be refreshed by setters later: _g_norms
    for st, t, v, k in sts:
        if isinstance(t, ast.Attribute) and t.attr == "_g_norms" and isinstance(t.value, ast.Name) and t.value.id == f.self_name:
            R.check(isinstance(v, ast.Constant) and v.value is None, "CACHE.K2-init", f.key, f"self._g_norms = {src(v)}", "unset", "normaliser cache initialised to a value that no variance justifies", st.lineno)


def run_all(P, R, with_k5_modules=None):
    k1_who_may_write(P, R)
    k2_variances_setter(P, R)
    k2b_lazy_getter(P, R)
    k3_weights_setter(P, R)
    k4_thresholds_setter(P, R)
    k5_no_inplace_through_getter(P, R, with_k5_modules)
    k6_load_replaces_state(P, R)
    k7_pickle_hooks(P, R)
    init_uses_setters(P, R)
