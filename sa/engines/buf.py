"""BUF.stale: a scratch buffer that is written through a prefix view and read whole.

`w = np.empty((B, D))` allocated once and refilled as `w[:k] = ...` / `np.multiply(a, b, out=w[:k])` holds, beyond row k, whatever the
previous fill (or the allocator) left there.  Reading `w` whole (`w.sum(axis=0)`, `w * x`, `np.sum(w)`) then adds rows that do not
belong to the current block whenever k is smaller than the allocated extent (a ragged last block).  The rule is structural:

  allocation   a local whose definitions are all `np.empty(...)` / `np.empty_like(...)` / `np.zeros(...)` *outside* the loop that fills it
  prefix write a store / `out=` target `w[:k]` (lower bound absent or 0) whose upper bound is not the allocated extent itself
  whole read   a load of the bare name that is not the base of a subscript and not itself a write target

A whole read is accepted when some whole write (`w[:] =`, `w[...] =`, `out=w`, `w.fill`) exists in the function (then the prefix
writes refine a defined buffer) - deciding which write reaches which read is left to the tests only in that case.
Tiled writes `w[s:s+B]` under a loop over `s` are not prefix writes: covering the buffer tile by tile is what COVER decides.
"""
from __future__ import annotations

import ast

from ..frontend import src, walk_no_nested

ALLOC = ("empty", "empty_like")

_EXAMPLE = '''
def bad(xs, B):
    import numpy as np
    w = np.empty((B, 3))
    t = 0.0
    for x in xs:
        np.multiply(x, 2.0, out=w[: len(x)])
        t += w.sum()
    return t
def good(xs, B):
    import numpy as np
    w = np.empty((B, 3))
    t = 0.0
    for x in xs:
        np.multiply(x, 2.0, out=w[: len(x)])
        t += w[: len(x)].sum()
    return t
def tiled(n, B):
    import numpy as np
    w = np.empty((n,))
    for s in range(0, n, B):
        w[s : s + B] = 1.0
    return w
'''


def _fname(c):
    return c.func.attr if isinstance(c.func, ast.Attribute) else getattr(c.func, "id", None)


def _first_dim(call):
    if not call.args:
        return None
    a = call.args[0]
    if isinstance(a, (ast.Tuple, ast.List)) and a.elts:
        return a.elts[0]
    return a


def sites(fnode):
    """[(buffer name, prefix-write node, whole-read node)]"""
    parents = {}
    for n in ast.walk(fnode):
        for c in ast.iter_child_nodes(n):
            parents[c] = n
    allocs = {}
    other_defs = set()
    for n in walk_no_nested(fnode):
        if isinstance(n, ast.Assign) and len(n.targets) == 1 and isinstance(n.targets[0], ast.Name):
            nm = n.targets[0].id
            if isinstance(n.value, ast.Call) and _fname(n.value) in ALLOC:
                allocs.setdefault(nm, []).append(n.value)
            else:
                other_defs.add(nm)
        elif isinstance(n, (ast.AugAssign, ast.AnnAssign, ast.For, ast.With, ast.NamedExpr)):
            for t in ast.walk(n.target if hasattr(n, "target") else n):
                if isinstance(t, ast.Name) and isinstance(t.ctx, ast.Store):
                    other_defs.add(t.id)
    out = []
    for nm, calls in allocs.items():
        if nm in other_defs:
            continue
        dims = {src(d) for d in (_first_dim(c) for c in calls) if d is not None}
        prefix, whole_w, whole_r = [], [], []
        for n in walk_no_nested(fnode):
            if not (isinstance(n, ast.Name) and n.id == nm and isinstance(n.ctx, ast.Load)):
                continue
            p = parents.get(n)
            # the access: bare name or name[...]
            acc = n
            if isinstance(p, ast.Subscript) and p.value is n:
                acc = p
            pp = parents.get(acc)
            is_target = isinstance(acc, ast.Subscript) and isinstance(acc.ctx, ast.Store)
            is_out = isinstance(pp, ast.keyword) and pp.arg == "out"
            is_copyto = isinstance(pp, ast.Call) and _fname(pp) in ("copyto", "put", "place") and pp.args and pp.args[0] is acc
            is_fill = acc is n and isinstance(p, ast.Attribute) and p.attr == "fill"
            written = is_target or is_out or is_copyto or is_fill
            if acc is n:
                (whole_w if written else whole_r).append(n)
                continue
            sl = acc.slice
            first = sl.elts[0] if isinstance(sl, ast.Tuple) and sl.elts else sl
            if written:
                if isinstance(first, ast.Slice) and first.upper is None and first.lower is None or (isinstance(first, ast.Constant) and first.value is Ellipsis):
                    whole_w.append(acc)
                elif isinstance(first, ast.Slice) and first.upper is not None and (first.lower is None or (isinstance(first.lower, ast.Constant) and first.lower.value == 0)) and not isinstance(first.upper, ast.Constant) and src(first.upper) not in dims:
                    prefix.append(acc)
        if prefix and whole_r and not whole_w:
            for r in whole_r:
                # `return w` / passing the buffer on is not a numerical read of its rows here; a method or an operand is
                p = parents.get(r)
                if isinstance(p, ast.Return) or (isinstance(p, ast.Tuple) and isinstance(parents.get(p), ast.Return)):
                    continue
                out.append((nm, prefix[0], r))
    return out


def _selfcheck(R):
    ex = ast.parse(_EXAMPLE)
    f = {n.name: n for n in ex.body if isinstance(n, ast.FunctionDef)}
    got = {k: len(sites(v)) for k, v in f.items()}
    if got != {"bad": 1, "good": 0, "tiled": 0}:
        R.error(f"BUF matcher self-check failed: {got}")


def check(P, R, modules, rule="BUF.stale"):
    _selfcheck(R)
    n = 0
    nf = 0
    for f in P.all_funcs(modules):
        nf += 1
        for nm, w, r in sites(f.node):
            n += 1
            R.violation(rule, f.key, f"{src(w)[:40]} ... {nm} read whole", f"the scratch buffer `{nm}` is refilled through the prefix view `{src(w)}` but read whole: whenever the part written is shorter than the buffer (a ragged last block) the rows beyond it still hold the previous block's values (or uninitialised memory) and are added to the result", r.lineno)
    R.ok(rule, "package", f"no scratch buffer written through a prefix view and read whole in the {nf} functions of {', '.join(modules)}; matcher exercised on the embedded example", "")
    return n
