"""COVER — every element of a list of partial results reaches the reduced value exactly once.

A fold written as `functools.reduce` / `sum` / a plain loop covers the list by construction.  Tree-shaped reductions do not: the
index arithmetic of each round decides which elements are combined, and an off-by-one silently drops (or doubles) a block of
the data for some list lengths only.  This engine decides coverage for the three shapes trees are written in, for *all* lengths,
from the index expressions alone (nothing is executed):

  (A) rounds that rebuild the list - `while len(L) > 1:` whose body builds the next list from elements / slices of L.
      The indices consumed by one round are collected as arithmetic progressions whose start and length are affine in
      h = len(L) // 2 after a case split on the parity of len(L); the progressions must tile [0, len(L)) exactly.  The tiling is
      proved symbolically (interval ends meet as affine identities, valid for every h from a threshold on) and, below the
      threshold, by evaluating the closed forms at the finitely many small lengths.
  (B) window recursion - f(L, lo, hi) = f(L, lo, m) + f(L, m, hi), base case L[lo]: the two windows share the split point and
      together are the caller's window.
  (C) stride doubling in place - `while s < len(L): for i in range(0, len(L) - s, 2 * s): L[i] = L[i] + L[i + s]; s *= 2`.

Verdicts: ("ok", reason) | ("violation", reason) | ("undecided", reason).
"""
from __future__ import annotations

import ast
from fractions import Fraction

from ..frontend import const_value, src, walk_no_nested

ADDERS = ("operator.add", "operator.iadd", "add", "iadd", "np.add", "numpy.add")


# ---------------------------------------------------------------------------------------------------------------------------
# affine arithmetic in h, with len = 2h + p
# ---------------------------------------------------------------------------------------------------------------------------
def _add(x, y, s=1):
    return (x[0] + s * y[0], x[1] + s * y[1])


class _Round:
    def __init__(self, P, f, loop, lst):
        self.P, self.f, self.loop, self.lst = P, f, loop, lst
        self.defs = {}
        for n in ast.walk(loop.test):
            if isinstance(n, ast.NamedExpr) and isinstance(n.target, ast.Name):
                self.defs.setdefault(n.target.id, []).append(n.value)
        for st in ast.walk(loop):
            if isinstance(st, ast.Assign) and len(st.targets) == 1 and isinstance(st.targets[0], ast.Name):
                self.defs.setdefault(st.targets[0].id, []).append(st.value)
        # names bound before the loop, once, to something that combines (delayed_add = dask.delayed(operator.add))
        self.outer = {}
        for st in walk_no_nested(f.node):
            if isinstance(st, ast.Assign) and len(st.targets) == 1 and isinstance(st.targets[0], ast.Name) and not any(st is x for x in ast.walk(loop)):
                self.outer.setdefault(st.targets[0].id, []).append(st.value)

    # ---- scalars ---------------------------------------------------------------------------------------------------------
    def is_len(self, e):
        return isinstance(e, ast.Call) and isinstance(e.func, ast.Name) and e.func.id == "len" and len(e.args) == 1 and isinstance(e.args[0], ast.Name) and e.args[0].id == self.lst

    def aff(self, e, p, depth=0):
        """(a, b) with value a*h + b when len(L) = 2h + p; None when not affine."""
        if depth > 6:
            return None
        if isinstance(e, ast.NamedExpr):
            return self.aff(e.value, p, depth)
        if self.is_len(e):
            return (2, p)
        if isinstance(e, ast.Constant) and isinstance(e.value, int) and not isinstance(e.value, bool):
            return (0, e.value)
        if isinstance(e, ast.Name):
            ds = self.defs.get(e.id)
            if ds and len(ds) == 1:
                return self.aff(ds[0], p, depth + 1)
            return None
        if isinstance(e, ast.UnaryOp) and isinstance(e.op, ast.USub):
            a = self.aff(e.operand, p, depth)
            return None if a is None else (-a[0], -a[1])
        if isinstance(e, ast.BinOp):
            l, r = self.aff(e.left, p, depth), self.aff(e.right, p, depth)
            if l is None or r is None:
                return None
            if isinstance(e.op, ast.Add):
                return _add(l, r)
            if isinstance(e.op, ast.Sub):
                return _add(l, r, -1)
            if isinstance(e.op, ast.Mult):
                if l[0] == 0:
                    return (l[1] * r[0], l[1] * r[1])
                if r[0] == 0:
                    return (r[1] * l[0], r[1] * l[1])
                return None
            if isinstance(e.op, (ast.FloorDiv, ast.RShift)) and r[0] == 0:
                d = r[1] if isinstance(e.op, ast.FloorDiv) else 2 ** r[1]
                if d > 0 and l[0] % d == 0:
                    return (l[0] // d, l[1] // d)
                return None
            if isinstance(e.op, ast.Mod) and r[0] == 0 and r[1] > 0 and l[0] % r[1] == 0:
                return (0, l[1] % r[1])
            if isinstance(e.op, ast.BitAnd) and r == (0, 1) and l[0] % 2 == 0:
                return (0, l[1] % 2)
        return None

    def truth(self, t, p):
        """Truth of a test that depends only on the parity; None otherwise."""
        if isinstance(t, ast.UnaryOp) and isinstance(t.op, ast.Not):
            v = self.truth(t.operand, p)
            return None if v is None else not v
        if isinstance(t, ast.Compare) and len(t.ops) == 1:
            l, r = self.aff(t.left, p), self.aff(t.comparators[0], p)
            if l is not None and r is not None and l[0] == r[0]:
                d = l[1] - r[1]
                op = type(t.ops[0])
                return {ast.Eq: d == 0, ast.NotEq: d != 0, ast.Lt: d < 0, ast.LtE: d <= 0, ast.Gt: d > 0, ast.GtE: d >= 0}.get(op)
            return None
        a = self.aff(t, p)
        if a is not None and a[0] == 0:
            return a[1] != 0
        if isinstance(t, (ast.Name, ast.Subscript)):
            # truthiness of a list: a slice of L is non-empty iff its length is positive
            pr = self.slice_prog(t, p)
            if pr is not None and pr["cnt"][0] == 0:
                return pr["cnt"][1] > 0
        return None

    # ---- index expressions -------------------------------------------------------------------------------------------------
    def idx(self, e, i, p):
        """(coefficient of the loop variable i, affine rest)"""
        if isinstance(e, ast.Name) and e.id == i:
            return (1, (0, 0))
        a = self.aff(e, p)
        if a is not None:
            if a[0] == 0 and a[1] < 0:
                a = _add((2, p), a)  # negative literal index counts from the end
            return (0, a)
        if isinstance(e, ast.BinOp) and isinstance(e.op, (ast.Add, ast.Sub)):
            l, r = self.idx(e.left, i, p), self.idx(e.right, i, p)
            if l is None or r is None:
                return None
            s = 1 if isinstance(e.op, ast.Add) else -1
            return (l[0] + s * r[0], _add(l[1], r[1], s))
        if isinstance(e, ast.BinOp) and isinstance(e.op, ast.Mult):
            for c_, o_ in ((e.left, e.right), (e.right, e.left)):
                k = const_value(c_)
                if isinstance(k, int) and not isinstance(k, bool):
                    o = self.idx(o_, i, p)
                    if o is not None:
                        return (k * o[0], (k * o[1][0], k * o[1][1]))
        if isinstance(e, ast.UnaryOp) and isinstance(e.op, ast.USub):
            o = self.idx(e.operand, i, p)
            return None if o is None else (-o[0], (-o[1][0], -o[1][1]))
        a = self.aff(e, p)
        if a is not None:
            if a[0] == 0 and a[1] < 0:
                a = _add((2, p), a)  # negative literal index counts from the end
            return (0, a)
        return None

    def range_of(self, it, p):
        """(lo, hi, step) affine / int of a range(...) call"""
        if not (isinstance(it, ast.Call) and isinstance(it.func, ast.Name) and it.func.id == "range" and 1 <= len(it.args) <= 3 and not it.keywords):
            return None
        args = [self.aff(a, p) for a in it.args]
        if any(a is None for a in args):
            return None
        lo, hi, step = (0, 0), None, 1
        if len(args) == 1:
            hi = args[0]
        else:
            lo, hi = args[0], args[1]
        if len(args) == 3:
            if args[2][0] != 0 or args[2][1] <= 0:
                return None
            step = args[2][1]
        return lo, hi, step

    @staticmethod
    def count(lo, hi, step):
        """ceil((hi - lo) / step) as an affine form; None when not affine"""
        d = _add(hi, lo, -1)
        if step == 1:
            return d
        if d[0] % step != 0:
            return None
        return (d[0] // step, -((-d[1]) // step))

    def prog(self, start, stride, lo, hi, step, what):
        c = self.count(lo, hi, step)
        if c is None:
            return None
        return {"start": start, "stride": stride, "cnt": c, "raw": (lo, hi, step), "what": what, "slice": False}

    def slice_prog(self, e, p, depth=0):
        """A slice of L (directly or through a name bound to one in this round) as a progression of indices."""
        if depth > 4:
            return None
        if isinstance(e, ast.Name):
            ds = self.defs.get(e.id)
            if ds and len(ds) == 1:
                return self.slice_prog(ds[0], p, depth + 1)
            return None
        if isinstance(e, ast.Call) and isinstance(e.func, ast.Name) and e.func.id in ("list", "tuple", "iter") and len(e.args) == 1:
            return self.slice_prog(e.args[0], p, depth + 1)
        if isinstance(e, ast.Subscript) and isinstance(e.value, ast.Name) and e.value.id == self.lst and isinstance(e.slice, ast.Slice):
            sl = e.slice
            n = (2, p)
            lo = self.aff(sl.lower, p) if sl.lower is not None else (0, 0)
            hi = self.aff(sl.upper, p) if sl.upper is not None else n
            st = self.aff(sl.step, p) if sl.step is not None else (0, 1)
            if lo is None or hi is None or st is None or st[0] != 0 or st[1] <= 0:
                return None
            if lo[0] == 0 and lo[1] < 0:
                lo = _add(n, lo)
            if hi[0] == 0 and hi[1] < 0:
                hi = _add(n, hi)
            pr = self.prog(lo, st[1], lo, hi, st[1], src(e))
            if pr is not None:
                pr["slice"] = True
            return pr
        return None

    # ---- combining operation ---------------------------------------------------------------------------------------------
    def is_adder(self, fexpr, depth=0):
        if depth > 3:
            return False
        kind_inner = fexpr
        # dask.delayed(operator.add)
        if isinstance(fexpr, ast.Call) and src(fexpr.func).split(".")[-1] == "delayed" and fexpr.args:
            return self.is_adder(fexpr.args[0], depth + 1)
        if isinstance(fexpr, ast.IfExp):
            return self.is_adder(fexpr.body, depth + 1) and self.is_adder(fexpr.orelse, depth + 1)
        if isinstance(fexpr, (ast.Attribute, ast.Name)):
            d = self.P.dotted(fexpr, self.f) or src(fexpr)
            if d in ADDERS or d.split(".")[-1] in ("add", "iadd") and d.split(".")[0] in ("operator", "np", "numpy", "add", "iadd"):
                return True
            if isinstance(fexpr, ast.Name):
                for ds in (self.defs.get(fexpr.id), self.outer.get(fexpr.id)):
                    if ds and all(self.is_adder(d_, depth + 1) for d_ in ds):
                        return True
        return False

    def adds(self, elt, operands):
        """elt is operand_1 + operand_2 (+ ...) written with +, operator.add / iadd (possibly delayed)."""
        if isinstance(elt, ast.BinOp) and isinstance(elt.op, ast.Add):
            return True
        if isinstance(elt, ast.Call) and self.is_adder(elt.func):
            return True
        return False

    # ---- consumption of one list-valued expression ------------------------------------------------------------------------------
    def singles_in(self, e, p, saved):
        """Progressions (of length one) for every element of L read in the scalar expression e; None if L is read otherwise."""
        out = []
        for n in ast.walk(e):
            if isinstance(n, ast.Subscript) and isinstance(n.value, ast.Name) and n.value.id == self.lst:
                if isinstance(n.slice, ast.Slice):
                    return None
                ix = self.idx(n.slice, None, p)
                if ix is None or ix[0] != 0:
                    return None
                out.append({"start": ix[1], "stride": 1, "cnt": (0, 1), "raw": (ix[1], _add(ix[1], (0, 1)), 1), "what": src(n), "slice": False})
            elif isinstance(n, ast.Name) and n.id in saved and isinstance(n.ctx, ast.Load):
                out.append(dict(saved[n.id]))
        return out

    def consumed(self, e, p, saved, lists, depth=0):
        """[progression] consumed by the list-valued expression e, or None when not recognised.  Also returns through
        self.problems the reasons."""
        if depth > 5:
            return None
        if isinstance(e, ast.Name):
            if e.id in lists:
                return list(lists[e.id])
            pr = self.slice_prog(e, p)
            return [pr] if pr is not None else None
        if isinstance(e, ast.Subscript):
            pr = self.slice_prog(e, p)
            return [pr] if pr is not None else None
        if isinstance(e, ast.Call) and isinstance(e.func, ast.Name) and e.func.id in ("list", "tuple") and len(e.args) == 1:
            return self.consumed(e.args[0], p, saved, lists, depth + 1)
        if isinstance(e, ast.BinOp) and isinstance(e.op, ast.Add):
            l, r = self.consumed(e.left, p, saved, lists, depth + 1), self.consumed(e.right, p, saved, lists, depth + 1)
            return None if l is None or r is None else l + r
        if isinstance(e, (ast.List, ast.Tuple)):
            out = []
            for x in e.elts:
                if isinstance(x, ast.Starred):
                    s_ = self.consumed(x.value, p, saved, lists, depth + 1)
                else:
                    s_ = self.singles_in(x, p, saved)
                    if s_ and len(s_) > 1 and not self.adds(x, s_):
                        self.problems.append(f"`{src(x)[:50]}` does not add the elements it combines")
                if s_ is None:
                    return None
                out += s_
            return out
        if isinstance(e, (ast.ListComp, ast.GeneratorExp)) and len(e.generators) == 1:
            g = e.generators[0]
            if g.ifs:
                self.problems.append(f"`{src(e)[:60]}` filters the pairs: elements that do not pass never reach the next round")
                return None
            rg = self.range_of(g.iter, p)
            if rg is not None and isinstance(g.target, ast.Name):
                lo, hi, step = rg
                i = g.target.id
                out = []
                for n in ast.walk(e.elt):
                    if isinstance(n, ast.Subscript) and isinstance(n.value, ast.Name) and n.value.id == self.lst:
                        if isinstance(n.slice, ast.Slice):
                            return None
                        ix = self.idx(n.slice, i, p)
                        if ix is None:
                            return None
                        ci, rest = ix
                        if ci == 0:
                            self.problems.append(f"`{src(n)}` is combined into every element of `{src(e)[:40]}`")
                            return None
                        start = _add(rest, (ci * lo[0], ci * lo[1]))
                        pr = self.prog(start, ci * step, lo, hi, step, src(n))
                        if pr is None or ci < 0:
                            return None
                        out.append(pr)
                if not out:
                    return None
                if len([1 for n in ast.walk(e.elt) if isinstance(n, ast.Subscript) and isinstance(n.value, ast.Name) and n.value.id == self.lst]) > 1 and not self.adds(e.elt, out):
                    self.problems.append(f"`{src(e.elt)[:50]}` does not add the elements it combines")
                return out
            if isinstance(g.iter, ast.Call) and isinstance(g.iter.func, ast.Name) and g.iter.func.id == "zip" and g.iter.args and not g.iter.keywords:
                progs = [self.slice_prog(a, p) for a in g.iter.args]
                if any(x is None for x in progs):
                    return None
                tn = [x.id for x in ast.walk(g.target) if isinstance(x, ast.Name)]
                used = [x.id for x in ast.walk(e.elt) if isinstance(x, ast.Name) and x.id in tn]
                if sorted(used) != sorted(tn):
                    self.problems.append(f"`{src(e.elt)[:50]}` does not use each of the zipped elements exactly once")
                    return None
                if len(tn) > 1 and not self.adds(e.elt, progs):
                    self.problems.append(f"`{src(e.elt)[:50]}` does not add the elements it combines")
                # zip stops at the shortest
                cnt = progs[0]["cnt"]
                for x in progs[1:]:
                    c2 = x["cnt"]
                    if c2[0] <= cnt[0] and c2[1] <= cnt[1]:
                        cnt = c2
                    elif not (cnt[0] <= c2[0] and cnt[1] <= c2[1]):
                        return None
                out = []
                for x in progs:
                    y = dict(x)
                    y["cnt"] = cnt
                    y["zipcap"] = cnt
                    out.append(y)
                return out
            if isinstance(g.iter, ast.Call) and src(g.iter.func).split(".")[-1] == "zip_longest":
                progs = [self.slice_prog(a, p) for a in g.iter.args]
                return None if any(x is None for x in progs) else progs
            pr = self.slice_prog(g.iter, p)
            if pr is not None and isinstance(g.target, ast.Name):
                return [pr]
        return None

    # ---- one round -----------------------------------------------------------------------------------------------------------
    def collect(self, p):
        """Progressions consumed by the list that L is rebound to, for parity p: (progs | None, reason)"""
        self.problems = []
        lists, saved = {}, {}
        state = {"rebound": False, "stale": None}
        L = self.lst

        def reads_new(e):
            return state["rebound"] and any(isinstance(n, ast.Subscript) and isinstance(n.value, ast.Name) and n.value.id == L for n in ast.walk(e))

        def do(stmts):
            for st in stmts:
                if isinstance(st, ast.Assign) and len(st.targets) == 1 and isinstance(st.targets[0], ast.Name):
                    t, v = st.targets[0].id, st.value
                    if reads_new(v):
                        state["stale"] = f"`{src(st)[:60]}` reads `{L}` after it was rebound to the next round's list"
                    c = self.consumed(v, p, saved, lists)
                    if t == L:
                        if c is None:
                            return f"the next round's list `{src(v)[:60]}` is not built from elements / slices of `{L}` in a recognised way"
                        lists[L] = c
                        state["rebound"] = True
                        continue
                    if c is not None and (isinstance(v, (ast.List, ast.ListComp, ast.BinOp, ast.Call)) or (isinstance(v, ast.Name) and v.id in lists)):
                        lists[t] = c
                        continue
                    if isinstance(v, (ast.List,)) and not v.elts:
                        lists[t] = []
                        continue
                    s_ = self.singles_in(v, p, saved) if isinstance(v, ast.Subscript) and not isinstance(v.slice, ast.Slice) else None
                    if s_ and len(s_) == 1 and not state["rebound"]:
                        saved[t] = s_[0]
                    continue
                if isinstance(st, ast.AugAssign) and isinstance(st.target, ast.Name) and isinstance(st.op, ast.Add) and st.target.id in lists:
                    c = self.consumed(st.value, p, saved, lists)
                    if c is None:
                        return f"`{src(st)[:60]}` extends the next round's list in an unrecognised way"
                    lists[st.target.id] = lists[st.target.id] + c
                    continue
                if isinstance(st, ast.Expr) and isinstance(st.value, ast.Call) and isinstance(st.value.func, ast.Attribute) and isinstance(st.value.func.value, ast.Name) and st.value.func.attr in ("append", "extend", "insert") and st.value.func.value.id in lists:
                    nm, call = st.value.func.value.id, st.value
                    arg = call.args[-1] if call.args else None
                    if arg is None:
                        return f"`{src(st)[:50]}` not recognised"
                    if call.func.attr == "extend":
                        c = self.consumed(arg, p, saved, lists)
                    else:
                        if reads_new(arg) and nm == L:
                            return f"VIOLATION:`{src(st)[:60]}` reads `{L}` after it was rebound to the next round's list: the carried element is not the unpaired element of the previous round"
                        c = self.singles_in(arg, p, saved)
                        if c is not None and len(c) > 1 and not self.adds(arg, c):
                            self.problems.append(f"`{src(arg)[:50]}` does not add the elements it combines")
                        if c is not None and not c:
                            c = None
                    if c is None:
                        return f"`{src(st)[:60]}`: what is added to the next round's list was not recognised"
                    lists[nm] = lists[nm] + c
                    continue
                if isinstance(st, ast.If):
                    tv = self.truth(st.test, p)
                    if tv is None:
                        return f"the test `{src(st.test)[:40]}` is not decided by the parity of len({L})"
                    r = do(st.body if tv else st.orelse)
                    if r:
                        return r
                    continue
                if isinstance(st, ast.For) and isinstance(st.target, ast.Name):
                    rg = self.range_of(st.iter, p)
                    zipped = isinstance(st.iter, ast.Call) and isinstance(st.iter.func, ast.Name) and st.iter.func.id == "zip"
                    for b in st.body:
                        if isinstance(b, ast.Expr) and isinstance(b.value, ast.Call) and isinstance(b.value.func, ast.Attribute) and b.value.func.attr == "append" and isinstance(b.value.func.value, ast.Name) and b.value.func.value.id in lists and b.value.args:
                            fake = ast.ListComp(elt=b.value.args[0], generators=[ast.comprehension(target=st.target, iter=st.iter, ifs=[], is_async=0)])
                            c = self.consumed(fake, p, saved, lists)
                            if c is None:
                                return f"`{src(b)[:60]}` in `for {src(st.target)} in {src(st.iter)[:30]}` was not recognised"
                            lists[b.value.func.value.id] = lists[b.value.func.value.id] + c
                        elif isinstance(b, (ast.Assign, ast.Expr, ast.Pass)):
                            continue
                        else:
                            return f"`{src(b)[:50]}` inside the pairing loop was not recognised"
                    continue
                if isinstance(st, ast.For) and isinstance(st.target, ast.Tuple):
                    for b in st.body:
                        if isinstance(b, ast.Expr) and isinstance(b.value, ast.Call) and isinstance(b.value.func, ast.Attribute) and b.value.func.attr == "append" and isinstance(b.value.func.value, ast.Name) and b.value.func.value.id in lists and b.value.args:
                            fake = ast.ListComp(elt=b.value.args[0], generators=[ast.comprehension(target=st.target, iter=st.iter, ifs=[], is_async=0)])
                            c = self.consumed(fake, p, saved, lists)
                            if c is None:
                                return f"`{src(b)[:60]}` was not recognised"
                            lists[b.value.func.value.id] = lists[b.value.func.value.id] + c
                    continue
                if isinstance(st, (ast.Expr, ast.Pass, ast.Assert)):
                    continue
                if isinstance(st, (ast.Assign, ast.AnnAssign, ast.AugAssign)):
                    continue
                return f"`{src(st)[:50]}` in the round was not recognised"
            return None

        r = do(self.loop.body)
        if r:
            return None, r
        if not state["rebound"]:
            # the list may be rebuilt in place: L[:] = ...
            return None, f"`{L}` is not rebound to the next round's list inside the loop"
        if state["stale"]:
            return None, "VIOLATION:" + state["stale"]
        return lists[L], None

    # ---- tiling ---------------------------------------------------------------------------------------------------------------
    @staticmethod
    def _val(a, h):
        return a[0] * h + a[1]

    def numeric(self, progs, p, h):
        n = 2 * h + p
        got = []
        for pr in progs:
            lo, hi, step = pr["raw"]
            lo_, hi_ = self._val(lo, h), self._val(hi, h)
            if pr["slice"]:
                lo_, hi_ = max(0, min(lo_, n)), max(0, min(hi_, n))
            c = max(0, -((lo_ - hi_) // step))
            if "zipcap" in pr:
                c = min(c, max(0, self._val(pr["zipcap"], h)))
            s0 = self._val(pr["start"], h)
            got += [s0 + pr["stride"] * k for k in range(c)]
        return n, sorted(got)

    def tile(self, progs, p):
        """('ok'|'violation'|'undecided', reason)"""
        # small lengths by the closed forms
        for h in range(1, 9):
            n, got = self.numeric(progs, p, h)
            if got != list(range(n)):
                missing = sorted(set(range(n)) - set(got))
                twice = sorted({x for x in got if got.count(x) > 1})
                out = sorted({x for x in got if x < 0 or x >= n})
                what = "; ".join(x for x in (f"element(s) {missing} never reach the next round" if missing else "", f"element(s) {twice} are added more than once" if twice else "", f"index(es) {out} are outside the list" if out else "") if x)
                return "violation", f"with {n} partial results: {what}"
        # every length from a threshold on: intervals whose ends meet as affine identities
        h0 = 1
        live = [pr for pr in progs if not (pr["cnt"][0] == 0 and pr["cnt"][1] <= 0)]  # constant non-positive length: empty
        for pr in live:
            a, b = pr["cnt"]
            if a < 0:
                return "undecided", f"the number of elements taken by `{pr['what']}` decreases with the length"
            while a * h0 + b < 0 and h0 < 8:
                h0 += 1
        ivs = []
        twos = [pr for pr in live if pr["stride"] == 2]
        for pr in live:
            if pr["stride"] == 1:
                ivs.append((pr["start"], _add(pr["start"], pr["cnt"])))
            elif pr["stride"] != 2:
                return "undecided", f"stride {pr['stride']} of `{pr['what']}` is outside the tiling argument (checked up to 17 elements only)"
        used = set()
        for i, a in enumerate(twos):
            if i in used:
                continue
            partner = next((j for j, b in enumerate(twos) if j not in used and j != i and b["cnt"] == a["cnt"] and _add(b["start"], a["start"], -1) in ((0, 1), (0, -1))), None)
            if partner is None:
                return "undecided", f"the stride-2 run `{a['what']}` has no partner run next to it (checked up to 17 elements only)"
            used |= {i, partner}
            b = twos[partner]
            s = a["start"] if _add(b["start"], a["start"], -1) == (0, 1) else b["start"]
            ivs.append((s, _add(s, (2 * a["cnt"][0], 2 * a["cnt"][1]))))
        ivs = [iv for iv in ivs if iv[0] != iv[1]]
        hh = max(h0, 8)
        ivs.sort(key=lambda iv: (self._val(iv[0], hh), self._val(iv[0], hh + 1)))
        cur = (0, 0)
        for s, e in ivs:
            if s != cur:
                return "undecided", f"the symbolic tiling argument does not close at {s} vs {cur} (all lengths up to 17 are covered exactly)"
            cur = e
        if cur != (2, p):
            return "undecided", f"the symbolic tiling argument ends at {cur}, not at the length (all lengths up to 17 are covered exactly)"
        return "ok", f"the rounds' index runs tile [0, len) exactly for every {'odd' if p else 'even'} length"

    def decide(self):
        reasons = []
        for p in (0, 1):
            progs, why = self.collect(p)
            if progs is None:
                if why and why.startswith("VIOLATION:"):
                    return "violation", why[10:]
                return "undecided", why
            if self.problems:
                return "violation", self.problems[0]
            v, why = self.tile(progs, p)
            if v != "ok":
                return v, why
            reasons.append(why)
        return "ok", "; ".join(reasons)


def halving_loops(f):
    """[(while node, list name)] for `while len(L) > 1` (also `>= 2`, `!= 1`, with a walrus)."""
    out = []
    for lp in walk_no_nested(f.node):
        if not isinstance(lp, ast.While):
            continue
        t = lp.test
        if not (isinstance(t, ast.Compare) and len(t.ops) == 1):
            continue
        l = t.left.value if isinstance(t.left, ast.NamedExpr) else t.left
        if isinstance(l, ast.Call) and isinstance(l.func, ast.Name) and l.func.id == "len" and len(l.args) == 1 and isinstance(l.args[0], ast.Name):
            k = const_value(t.comparators[0])
            ok = (isinstance(t.ops[0], ast.Gt) and k == 1) or (isinstance(t.ops[0], ast.GtE) and k == 2) or (isinstance(t.ops[0], ast.NotEq) and k == 1)
            out.append((lp, l.args[0].id, ok))
    return out


def check_rounds(P, f, lp, lst):
    return _Round(P, f, lp, lst).decide()


# ---------------------------------------------------------------------------------------------------------------------------
# (C) stride doubling in place
# ---------------------------------------------------------------------------------------------------------------------------
def doubling_loops(f):
    """[(while node, list name, stride name)] for `while s < len(L)`"""
    out = []
    for lp in walk_no_nested(f.node):
        if isinstance(lp, ast.While) and isinstance(lp.test, ast.Compare) and len(lp.test.ops) == 1:
            t = lp.test
            l, r, op = t.left, t.comparators[0], t.ops[0]
            if isinstance(op, ast.Gt):
                l, r, op = r, l, ast.Lt()
            if isinstance(op, ast.Lt) and isinstance(l, ast.Name) and isinstance(r, ast.Call) and isinstance(r.func, ast.Name) and r.func.id == "len" and len(r.args) == 1 and isinstance(r.args[0], ast.Name):
                out.append((lp, r.args[0].id, l.id))
    return out


def check_doubling(P, f, lp, lst, s):
    """The invariant `after the pass with stride s, L[i] holds the sum of L[i : i + 2s] for every i multiple of 2s` needs: s
    starts at 1 and is doubled once per pass, i runs over range(0, len(L) - s, 2 * s) - every multiple of 2s that has a partner
    at distance s -, and the pass does L[i] = L[i] + L[i + s]."""
    R_ = _Round(P, f, lp, lst)
    # initial stride
    inits = [st.value for st in walk_no_nested(f.node) if isinstance(st, ast.Assign) and len(st.targets) == 1 and isinstance(st.targets[0], ast.Name) and st.targets[0].id == s and not any(st is x for x in ast.walk(lp))]
    if not inits or any(const_value(v) != 1 for v in inits):
        return "violation", f"the stride `{s}` does not start at 1: neighbouring elements are never combined"
    dbl = [st for st in lp.body if (isinstance(st, ast.AugAssign) and isinstance(st.target, ast.Name) and st.target.id == s) or (isinstance(st, ast.Assign) and len(st.targets) == 1 and isinstance(st.targets[0], ast.Name) and st.targets[0].id == s)]
    def doubles(st):
        if isinstance(st, ast.AugAssign):
            return (isinstance(st.op, ast.Mult) and const_value(st.value) == 2) or (isinstance(st.op, ast.LShift) and const_value(st.value) == 1) or (isinstance(st.op, ast.Add) and isinstance(st.value, ast.Name) and st.value.id == s)
        v = st.value
        return isinstance(v, ast.BinOp) and ((isinstance(v.op, ast.Mult) and {src(v.left), src(v.right)} == {s, "2"}) or (isinstance(v.op, ast.Add) and src(v.left) == s and src(v.right) == s) or (isinstance(v.op, ast.LShift) and src(v.left) == s and const_value(v.right) == 1))
    if len(dbl) != 1 or not doubles(dbl[0]):
        return "violation", f"the stride `{s}` is not doubled exactly once per pass"
    fors = [st for st in lp.body if isinstance(st, ast.For)]
    if len(fors) != 1 or not isinstance(fors[0].target, ast.Name):
        return "undecided", "the pass over the list was not recognised"
    fr = fors[0]
    i = fr.target.id
    if lp.body.index(dbl[0]) < lp.body.index(fr):
        return "violation", f"the stride `{s}` is doubled before the pass that uses it"
    it = fr.iter
    if not (isinstance(it, ast.Call) and isinstance(it.func, ast.Name) and it.func.id == "range" and len(it.args) == 3):
        return "undecided", f"`{src(it)[:40]}` is not range(0, len - stride, 2 * stride)"
    a0, a1, a2 = it.args
    def is_len(e):
        return isinstance(e, ast.Call) and isinstance(e.func, ast.Name) and e.func.id == "len" and len(e.args) == 1 and src(e.args[0]) == lst
    ok0 = const_value(a0) == 0
    ok1 = isinstance(a1, ast.BinOp) and isinstance(a1.op, ast.Sub) and is_len(a1.left) and src(a1.right) == s
    ok2 = isinstance(a2, ast.BinOp) and ((isinstance(a2.op, ast.Mult) and {src(a2.left), src(a2.right)} == {s, "2"}) or (isinstance(a2.op, ast.Add) and src(a2.left) == s and src(a2.right) == s))
    if not (ok0 and ok1 and ok2):
        return "violation", f"the pass runs over `{src(it)}`, not over range(0, len({lst}) - {s}, 2 * {s}): some node with a partner at distance {s} is skipped, or a node is combined twice"
    stores_ = [st for st in walk_no_nested(fr) if isinstance(st, (ast.Assign, ast.AugAssign)) and any(isinstance(t, ast.Subscript) and isinstance(t.value, ast.Name) and t.value.id == lst for t in (st.targets if isinstance(st, ast.Assign) else [st.target]))]
    if len(stores_) != 1:
        return "undecided", "the combining store of the pass was not recognised"
    st = stores_[0]
    tgt = st.targets[0] if isinstance(st, ast.Assign) else st.target
    if src(tgt.slice) != i:
        return "violation", f"the pass stores into `{src(tgt)}`, not into `{lst}[{i}]`"
    val = st.value
    arms = [val.body, val.orelse] if isinstance(val, ast.IfExp) else [val]  # `(iadd if i == 0 else add)(a, b)` in canonical form
    for arm in arms[1:]:
        r0 = sorted(src(n.slice).replace(" ", "") for n in ast.walk(arms[0]) if isinstance(n, ast.Subscript) and isinstance(n.value, ast.Name) and n.value.id == lst)
        r1 = sorted(src(n.slice).replace(" ", "") for n in ast.walk(arm) if isinstance(n, ast.Subscript) and isinstance(n.value, ast.Name) and n.value.id == lst)
        if r0 != r1:
            return "violation", "the two arms of the combining expression read different nodes"
    val = arms[0]
    reads = [n for n in ast.walk(val) if isinstance(n, ast.Subscript) and isinstance(n.value, ast.Name) and n.value.id == lst]
    idxs = sorted(src(n.slice).replace(" ", "") for n in reads)
    want = sorted([i, f"{i}+{s}"]) if isinstance(st, ast.Assign) else [f"{i}+{s}"]
    alt = sorted([i, f"{s}+{i}"]) if isinstance(st, ast.Assign) else [f"{s}+{i}"]
    if idxs not in (want, alt):
        return "violation", f"the pass combines `{[src(n) for n in reads]}`, not `{lst}[{i}]` with `{lst}[{i} + {s}]`"
    if isinstance(st, ast.AugAssign):
        if not isinstance(st.op, ast.Add):
            return "violation", "the pass does not add"
    elif not all(R_.adds(a_, reads) for a_ in arms):
        # add = iadd if ... else add; add(L[i], L[i+s])
        return "violation", f"`{src(val)[:50]}` does not add the two nodes"
    return "ok", f"stride-doubling tree over `{lst}`: invariant L[i] = sum(L[i : i + 2s]) for i multiple of 2s"


# ---------------------------------------------------------------------------------------------------------------------------
# (B) window recursion
# ---------------------------------------------------------------------------------------------------------------------------
def check_window_recursion(P, f):
    """f(L, lo, hi): returns 0 / L[lo] on windows of length <= 1 and f(L, lo, m) + f(L, m, hi) otherwise.
    Returns (verdict, reason, list parameter) or None when f is not self-recursive."""
    calls = [c for c in walk_no_nested(f.node) if isinstance(c, ast.Call) and isinstance(c.func, ast.Name) and c.func.id == f.node.name and any(t_[0] == "repo" and t_[1].key == f.key for t_ in P.resolve_callee(c.func, f))]
    if not calls:
        return None
    # a fold: some return adds the results of two recursive calls
    def _adds_two(r):
        v = r.value
        cs = [c for c in ast.walk(v) if c in calls]
        return len(cs) >= 2 and ((isinstance(v, ast.BinOp) and isinstance(v.op, ast.Add)) or (isinstance(v, ast.Call) and src(v.func).split(".")[-1] in ("add", "iadd")))
    if not any(_adds_two(r) for r in walk_no_nested(f.node) if isinstance(r, ast.Return) and r.value is not None):
        return None
    params = [a.arg for a in f.node.args.posonlyargs + f.node.args.args]
    if len(params) < 3:
        # slices: f(xs) = f(xs[:m]) + f(xs[m:])
        if len(params) >= 1:
            L = params[0]
            rets = [r for r in walk_no_nested(f.node) if isinstance(r, ast.Return) and r.value is not None and any(c in list(ast.walk(r.value)) for c in calls)]
            for r in rets:
                cs = [c for c in ast.walk(r.value) if c in calls]
                if len(cs) != 2 or not (isinstance(r.value, ast.BinOp) and isinstance(r.value.op, ast.Add) or (isinstance(r.value, ast.Call) and src(r.value.func).split(".")[-1] in ("add", "iadd"))):
                    return "undecided", "the recursive combination was not recognised", L
                a, b = cs[0].args[0] if cs[0].args else None, cs[1].args[0] if cs[1].args else None
                ok = all(isinstance(x, ast.Subscript) and isinstance(x.value, ast.Name) and x.value.id == L and isinstance(x.slice, ast.Slice) and x.slice.step is None for x in (a, b))
                if not ok:
                    return "undecided", "the recursive calls do not receive slices of the list", L
                if not (a.slice.lower is None and b.slice.upper is None and a.slice.upper is not None and b.slice.lower is not None and src(a.slice.upper) == src(b.slice.lower)):
                    return "violation", f"the two halves `{src(a)}` and `{src(b)}` do not meet at one split point: elements between them are dropped or summed twice", L
            if rets:
                base = any(isinstance(r, ast.Return) and isinstance(r.value, ast.Subscript) and isinstance(r.value.value, ast.Name) and r.value.value.id == L and const_value(r.value.slice) == 0 for r in walk_no_nested(f.node))
                if not base:
                    return "undecided", "no base case `return L[0]`", L
                return "ok", "recursive halving over slices that meet at one split point", L
        return "undecided", "recursive fold of an unrecognised shape", params[0] if params else None
    L, lo, hi = params[0], params[1], params[2]
    rets = [r for r in walk_no_nested(f.node) if isinstance(r, ast.Return) and r.value is not None and any(c in list(ast.walk(r.value)) for c in calls)]
    if not rets:
        return "undecided", "the recursive calls are not in a return expression", L
    for r in rets:
        cs = [c for c in ast.walk(r.value) if c in calls]
        if len(cs) != 2 or not ((isinstance(r.value, ast.BinOp) and isinstance(r.value.op, ast.Add)) or (isinstance(r.value, ast.Call) and src(r.value.func).split(".")[-1] in ("add", "iadd"))):
            return "undecided", "the recursive combination was not recognised", L
        b0, b1 = P.bind_args(f, cs[0].args, cs[0].keywords), P.bind_args(f, cs[1].args, cs[1].keywords)
        if not all(isinstance(b.get(L), ast.Name) and b.get(L).id == L for b in (b0, b1)):
            return "violation", "the recursive calls do not work on the same list", L
        w0, w1 = (src(b0.get(lo)) if b0.get(lo) is not None else None, src(b0.get(hi)) if b0.get(hi) is not None else None), (src(b1.get(lo)) if b1.get(lo) is not None else None, src(b1.get(hi)) if b1.get(hi) is not None else None)
        if w0[0] != lo and w1[0] == lo:
            w0, w1 = w1, w0
        if not (w0[0] == lo and w1[1] == hi and w0[1] is not None and w0[1] == w1[0]):
            return "violation", f"the windows [{w0[0]}, {w0[1]}) and [{w1[0]}, {w1[1]}) of the two recursive calls are not [{lo}, m) and [m, {hi}): elements are dropped or summed twice", L
    # base case: the element at lo
    base = [r for r in walk_no_nested(f.node) if isinstance(r, ast.Return) and isinstance(r.value, ast.Subscript) and isinstance(r.value.value, ast.Name) and r.value.value.id == L]
    if not base or any(src(r.value.slice) != lo for r in base):
        return "violation" if base else "undecided", f"the base case does not return `{L}[{lo}]`", L
    return "ok", f"window recursion: [{lo}, m) and [m, {hi}) share the split point, base case {L}[{lo}]", L


# ---------------------------------------------------------------------------------------------------------------------------
# what does a function do with a list it is given?
# ---------------------------------------------------------------------------------------------------------------------------
def tree_sites(P, f):
    """[(kind, node, list name, verdict, reason)] of the tree reductions inside f."""
    out = []
    for lp, lst, wellformed in halving_loops(f):
        if not wellformed:
            out.append(("rounds", lp, lst, "violation", f"`while {src(lp.test)}` does not run until a single element is left"))
            continue
        v, why = check_rounds(P, f, lp, lst)
        out.append(("rounds", lp, lst, v, why))
    for lp, lst, s in doubling_loops(f):
        v, why = check_doubling(P, f, lp, lst, s)
        out.append(("doubling", lp, lst, v, why))
    wr = check_window_recursion(P, f)
    if wr is not None:
        out.append(("recursion", f.node, wr[2], wr[0], wr[1]))
    return out


def alias_roots(f, name):
    """names that `name` is a copy of: nodes = list(a) -> {nodes, a}"""
    out = {name}
    changed = True
    while changed:
        changed = False
        for st in walk_no_nested(f.node):
            if isinstance(st, ast.Assign) and len(st.targets) == 1 and isinstance(st.targets[0], ast.Name) and st.targets[0].id in out:
                v = st.value
                if isinstance(v, ast.Call) and isinstance(v.func, ast.Name) and v.func.id in ("list", "tuple") and len(v.args) == 1 and isinstance(v.args[0], ast.Name) and v.args[0].id not in out:
                    out.add(v.args[0].id)
                    changed = True
                if isinstance(v, ast.Name) and v.id not in out:
                    out.add(v.id)
                    changed = True
    return out


def is_fold_function(P, f):
    """(parameter name, verdict, reason) when f returns the fold of one of its list parameters by a tree reduction."""
    for kind, node, lst, v, why in tree_sites(P, f):
        roots = alias_roots(f, lst)
        prm = next((p for p in f.params if p in roots), None)
        if prm is None:
            continue
        if kind == "recursion":
            return prm, v, why
        rets = [r for r in walk_no_nested(f.node) if isinstance(r, ast.Return) and r.value is not None]
        if rets and all(isinstance(r.value, ast.Subscript) and isinstance(r.value.value, ast.Name) and r.value.value.id == lst and const_value(r.value.slice) == 0 for r in rets if not (isinstance(r.value, ast.Constant))):
            return prm, v, why
    return None


def check_module_trees(P, R, modules, rule="COVER.tree"):
    """Every tree-shaped reduction in the modules covers its list exactly (A, B, C above)."""
    n = 0
    for f in P.all_funcs(modules):
        for kind, node, lst, v, why in tree_sites(P, f):
            n += 1
            what = f"{kind} reduction of `{lst}`"
            if v == "ok":
                R.ok(rule, f.key, what, why, getattr(node, "lineno", None))
            elif v == "violation":
                R.violation(rule, f.key, what, f"the tree reduction of `{lst}` does not add every element exactly once: {why}", getattr(node, "lineno", None))
            else:
                R.undecided(rule, f.key, what, why)
    return n


# ---------------------------------------------------------------------------------------------------------------------------
# log-sum-exp written by hand
# ---------------------------------------------------------------------------------------------------------------------------
def lse_evidence(P, f, depth=0):
    """Does f compute a log-sum-exp of its array argument?  Structural evidence, all of it needed:
      - what it returns is reference + log / log1p of a sum (the logarithm is taken of an accumulated quantity),
      - every exponential in the function is taken of a *difference* (value minus a reference maximum) - never of raw values,
      - the reference is a maximum (np.maximum / max / amax) of the values,
    Returns (True, reason) / (False, reason)."""
    from ..dataflow import cone, get_defuse

    du = get_defuse(f, P)
    rets = [r for r in walk_no_nested(f.node) if isinstance(r, ast.Return) and r.value is not None]
    if not rets:
        return False, "no return value"
    name = lambda c: (c.func.attr if isinstance(c.func, ast.Attribute) else getattr(c.func, "id", ""))
    exps = [c for c in walk_no_nested(f.node) if isinstance(c, ast.Call) and name(c) in ("exp", "expm1", "exp2")]
    if not exps:
        return False, "no exponential"

    MAXES, MINS = ("maximum", "max", "amax", "nanmax", "fmax"), ("minimum", "min", "amin", "nanmin", "fmin")

    def subtrahends(e, st, hops=0):
        """the expressions subtracted inside e when e is a difference (following names); None when e is not a difference"""
        if isinstance(e, ast.BinOp) and isinstance(e.op, ast.Sub):
            return [(e.right, st)]
        if isinstance(e, ast.UnaryOp) and isinstance(e.op, ast.USub):
            # -(a - b) = b - a, -|a - b|
            inner = subtrahends(e.operand, st, hops)
            if inner is None:
                return None
            if isinstance(e.operand, ast.BinOp):
                return [(e.operand.left, st)]
            return inner
        if isinstance(e, ast.Call) and name(e) == "subtract" and len(e.args) >= 2:
            return [(e.args[1], st)]
        if isinstance(e, ast.Call) and name(e) in ("abs", "absolute", "fabs") and e.args:
            inner = subtrahends(e.args[0], st, hops)
            return [] if inner is not None else None  # |a - b|: sign decided by the caller's minus
        if isinstance(e, ast.Call) and name(e) in ("where", "minimum", "nan_to_num") and e.args:
            outs = [subtrahends(a, st, hops) for a in e.args]
            outs = [o for o in outs if o is not None]
            return [x for o in outs for x in o] if outs else None
        if isinstance(e, ast.Subscript):
            return subtrahends(e.value, st, hops)
        if isinstance(e, ast.Name) and hops < 3:
            rd = du.reaching(st, e.id)
            vals = []
            for d in rd:
                v = d.value
                if v is None or d.how not in ("assign", "aug", "substore", "unpack"):
                    continue
                if d.how == "unpack" and isinstance(v, ast.Tuple) and d.index is not None and d.index < len(v.elts):
                    v = v.elts[d.index]
                if isinstance(v, ast.Call) and name(v) in ("zeros", "zeros_like", "empty", "empty_like"):
                    continue
                vals.append((v, d.stmt))
            if not vals:
                return None
            outs = [subtrahends(v, s_, hops + 1) for v, s_ in vals]
            if any(o is None for o in outs):
                return None
            return [x for o in outs for x in o]
        return None

    def is_maximum(e, st, hops=0):
        """e is (a name bound to) the result of a maximum over the values - not of a minimum"""
        if isinstance(e, ast.Subscript):
            return is_maximum(e.value, st, hops)
        if isinstance(e, ast.Call):
            if name(e) in MAXES:
                return True
            if name(e) in MINS:
                return False
            if name(e) in ("where",) and len(e.args) == 3:
                return any(is_maximum(a, st, hops) for a in e.args[1:])
            return False
        if isinstance(e, ast.Name) and hops < 4:
            rd = du.reaching(st, e.id)
            got = []
            for d in rd:
                v = d.value
                if v is None:
                    continue
                if d.how == "unpack" and isinstance(v, ast.Tuple) and d.index is not None and d.index < len(v.elts):
                    v = v.elts[d.index]
                if isinstance(v, ast.Call) and name(v) in ("full", "full_like", "zeros", "zeros_like", "empty"):
                    continue  # the initial value of a running maximum
                got.append(is_maximum(v, d.stmt, hops + 1))
            return bool(got) and all(got)
        return False

    def is_difference(e, st, hops=0):
        return subtrahends(e, st, hops) is not None

    for c in exps:
        subs = subtrahends(c.args[0], du.stmt_of(c)) if c.args else None
        if subs is None:
            return False, f"`{src(c)[:40]}` exponentiates a value that is not a difference from a reference: it underflows / overflows in the tails"
        for sub_e, sub_st in subs:
            if not is_maximum(sub_e, sub_st):
                return False, f"`{src(c)[:40]}`: what is subtracted before exponentiating (`{src(sub_e)[:30]}`) is not the maximum of the values: the exponent can be positive and overflow"
    has_max = any(isinstance(c, ast.Call) and name(c) in ("maximum", "max", "amax", "nanmax", "fmax") for c in walk_no_nested(f.node))
    if not has_max:
        return False, "the reference subtracted before exponentiating is not a maximum of the values"
    n_log = 0
    for r in rets:
        if isinstance(r.value, (ast.Dict, ast.Tuple)):
            continue  # a partial state (maximum, scaled sum) handed to the next level of a tree reduction
        cn = cone(du, r.value, r, interproc=False)
        has_log = any(isinstance(x, ast.Call) and name(x) in ("log", "log1p") for x in cn.nodes)
        has_exp = any(x in exps for x in cn.nodes)
        if not has_log and not has_exp:
            continue  # passes its input on (meta computation, a single term)
        if not has_log:
            return False, "a returned value depends on the exponentials but no logarithm is taken: it is not reference + log(sum)"
        if not has_exp:
            return False, "the returned value does not depend on the exponentials"
        n_log += 1
    if n_log == 0:
        return False, "no returned value is reference + log(sum)"
    return True, "log-sum-exp: exponentials of differences from a running / block maximum, one logarithm of the accumulated sum"


def check_lse_functions(P, R, modules, rule="LOGDOM.lse"):
    """Every function of the modules that takes a logarithm of a sum of exponentials does it as a log-sum-exp (lse_evidence)."""
    from ..dataflow import cone, get_defuse
    n = 0
    for f in P.all_funcs(modules):
        nm = lambda c: (c.func.attr if isinstance(c.func, ast.Attribute) else getattr(c.func, "id", ""))
        calls = [c for c in walk_no_nested(f.node) if isinstance(c, ast.Call)]
        exps = [c for c in calls if nm(c) in ("exp", "exp2")]
        logs = [c for c in calls if nm(c) in ("log", "log1p")]
        if not exps or not logs:
            continue
        du = get_defuse(f, P)
        # the logarithm is taken of something that depends on the exponentials
        dep = False
        for lg in logs:
            if lg.args:
                cn = cone(du, lg.args[0], du.stmt_of(lg), interproc=False)
                if any(x in exps for x in cn.nodes):
                    dep = True
        if not dep:
            continue
        n += 1
        ok, why = lse_evidence(P, f)
        R.check(ok, rule, f.key, "log of a sum of exponentials", why, f"{f.qualname} takes the logarithm of a sum of exponentials but not as a log-sum-exp: {why}", f.node.lineno)
    R.ok(rule, "package", f"{n} hand-written log-sum-exp function(s) in {', '.join(modules)}", "")
    return n
