"""KIND / WRAP: container kinds at the array <-> statistics seam (DESIGN 3.10).

Kinds: STATS (one GMMStats), LIST (a sequence of them).  Parameter requirements are inferred
from use (iterated / indexed -> LIST; statistic fields read directly -> STATS) and propagated
through calls; argument kinds come from constructors, list displays/comprehensions and the
return kinds of resolved callees.  Only *definite* mismatches are violations.
"""
from __future__ import annotations

import ast

from ..dataflow import cone, get_defuse
from ..frontend import ClassInfo, src, walk_no_nested

STATS_FIELDS = {"n", "sum_px", "sum_pxx", "t", "log_likelihood"}


def returns_kind(P, func, depth=0):
    """'STATS' | 'LIST' | None for the value a repo function returns."""
    if depth > 4:
        return None
    kinds = set()
    du = get_defuse(func, P)
    for r in walk_no_nested(func.node):
        if isinstance(r, ast.Return) and r.value is not None:
            kinds.add(expr_kind(P, func, r.value, r, depth + 1))
    if len(kinds) == 1:
        return kinds.pop()
    return None


def expr_kind(P, func, e, stmt, depth=0):
    du = get_defuse(func, P)
    if isinstance(e, (ast.List, ast.ListComp, ast.Tuple)):
        return "LIST"
    if isinstance(e, ast.Name):
        ks = set()
        for d in du.reaching(stmt, e.id):
            if d.how == "assign" and d.value is not None:
                ks.add(expr_kind(P, func, d.value, d.stmt, depth + 1))
            else:
                ks.add(None)
        return ks.pop() if len(ks) == 1 else None
    if isinstance(e, ast.Call):
        kind, fexpr, args, kws = P.peel_call(e, func)
        if isinstance(fexpr, ast.Name) and fexpr.id in ("list", "sorted", "tuple"):
            return "LIST"
        for t in P.resolve_callee(fexpr, func):
            if t[0] == "ctor" and t[1].name == "GMMStats":
                return "STATS"
            if t[0] == "repo":
                return returns_kind(P, t[1], depth + 1)
    return None


def param_requirement(P, func, param, depth=0, seen=None):
    """Set of kinds the uses of `param` in func require: subset of {'LIST','STATS'} with a witness each."""
    seen = seen or set()
    if (func.key, param) in seen or depth > 5:
        return {}
    seen = seen | {(func.key, param)}
    out = {}
    du = get_defuse(func, P)

    def is_p(n):
        return isinstance(n, ast.Name) and n.id == param

    # the parameter must not be rebound before use for this simple analysis; uses are collected where the reaching def is the parameter
    for n in walk_no_nested(func.node):
        if isinstance(n, ast.For) and _iterates(n.iter, param):
            out.setdefault("LIST", f"iterated in `{src(n.iter)}`")
        if isinstance(n, (ast.ListComp, ast.GeneratorExp, ast.SetComp, ast.DictComp)):
            for g in n.generators:
                if _iterates(g.iter, param):
                    out.setdefault("LIST", f"iterated in `{src(n)[:50]}`")
        if isinstance(n, ast.Attribute) and is_p(n.value) and n.attr in STATS_FIELDS:
            out.setdefault("STATS", f"field `{src(n)}` read")
        if isinstance(n, ast.Subscript) and is_p(n.value) and not isinstance(n.slice, (ast.Constant,)) is False:
            pass
        if isinstance(n, ast.Subscript) and is_p(n.value):
            out.setdefault("LIST", f"indexed `{src(n)}`")
        if isinstance(n, ast.Call):
            kind, fexpr, args, kws = P.peel_call(n, func)
            if isinstance(fexpr, ast.Name) and fexpr.id == "len" and args and is_p(args[0]):
                out.setdefault("LIST", "len() taken")
            for t in P.resolve_callee(fexpr, func):
                if t[0] == "repo":
                    b = P.bind_args(t[1], args, kws)
                    for q, a in b.items():
                        if is_p(a):
                            sub = param_requirement(P, t[1], q, depth + 1, seen)
                            for k, w in sub.items():
                                out.setdefault(k, f"passed to {t[1].qualname}({q}): {w}")
    return out


def _iterates(it, param):
    if isinstance(it, ast.Name) and it.id == param:
        return True
    if isinstance(it, ast.Call) and src(it.func) in ("enumerate", "zip", "iter", "reversed"):
        return any(isinstance(a, ast.Name) and a.id == param for a in it.args)
    return False


def check_call_kinds(P, R, caller_key, callee_name, rule="KIND"):
    """At every call of self.<callee_name> in the caller, argument kinds agree with what the callee requires."""
    f = P.func(caller_key)
    R.analysed(f)
    n = 0
    for c in [x for x in walk_no_nested(f.node) if isinstance(x, ast.Call)]:
        kind, fexpr, args, kws = P.peel_call(c, f)
        if not (isinstance(fexpr, ast.Attribute) and fexpr.attr == callee_name):
            continue
        for t in P.resolve_callee(fexpr, f):
            if t[0] != "repo":
                continue
            callee = t[1]
            b = P.bind_args(callee, args, kws)
            for q, a in b.items():
                ak = expr_kind(P, f, a, get_defuse(f, P).stmt_of(c))
                req = param_requirement(P, callee, q)
                if ak is None or not req:
                    continue
                n += 1
                what = f"{callee.qualname}({q}={src(a)[:40]})"
                if ak == "STATS" and "LIST" in req and "STATS" not in req:
                    R.violation(rule, caller_key, what, f"a single statistics object is passed where a list is required ({req['LIST']}): TypeError 'GMMStats' object is not iterable on every call", c.lineno)
                elif ak == "LIST" and "STATS" in req and "LIST" not in req:
                    R.violation(rule, caller_key, what, f"a list is passed where a single statistics object is required ({req['STATS']})", c.lineno)
                else:
                    R.ok(rule, caller_key, what, f"argument kind {ak}, callee requires {sorted(req)}", c.lineno)
    return n


def check_thin_wrapper(P, R, key, sibling, array_params, stats_makers=("acc_stats", "transform", "stats_per_sample"), allow_calls=(), rule="WRAP"):
    """The array-level entry point returns the statistics-level sibling applied to the UBM statistics of its
    array arguments and nothing else."""
    f = P.func(key)
    R.analysed(f)
    du = get_defuse(f, P)
    sib_calls = [c for c in walk_no_nested(f.node) if isinstance(c, ast.Call) and isinstance(c.func, ast.Attribute) and c.func.attr == sibling and isinstance(c.func.value, ast.Name) and c.func.value.id == f.self_name]
    if not sib_calls:
        R.violation(rule + ".sibling", key, f"self.{sibling}(...)", f"the array-level entry point no longer delegates to {sibling}")
        return
    rets = [r for r in walk_no_nested(f.node) if isinstance(r, ast.Return) and r.value is not None]
    for r in rets:
        v = r.value
        if isinstance(v, ast.Name) and v.id == f.self_name:
            R.ok(rule + ".ret", key, "return self", "estimator returned", r.lineno)
            continue
        direct = isinstance(v, ast.Call) and v in sib_calls
        if not direct and isinstance(v, ast.Name):
            rd = du.reaching(r, v.id)
            direct = bool(rd) and all(d.how == "assign" and d.value in sib_calls for d in rd)
        R.check(direct, rule + ".ret", key, f"return {src(v)[:60]}", f"returns {sibling}'s result unchanged", f"the result of {sibling} is post-processed (`{src(v)[:60]}`): array-level and statistics-level entry points disagree", r.lineno)
    for c in sib_calls:
        callee = next((t[1] for t in P.resolve_callee(c.func, f) if t[0] == "repo"), None)
        for a in list(c.args) + [k.value for k in c.keywords]:
            cc = cone(du, a, du.stmt_of(c), interproc=False)
            touched = set(cc.params) & set(array_params)
            if not touched:
                continue
            # array data must reach the sibling only through the UBM's statistics functions
            makers = [n for n in cc.nodes if isinstance(n, ast.Call) and src(P.peel_call(n, f)[1]).split(".")[-1] in stats_makers and "ubm" in src(P.peel_call(n, f)[1])]
            R.check(bool(makers), rule + ".stats", key, f"{sibling}(... {src(a)[:40]} ...)", "array reaches the sibling as UBM statistics", f"array argument reaches {sibling} without being projected on the UBM", c.lineno)
            # nothing else is applied to it: every call/operator in the argument is a maker, a list display or an allowed plumbing call
            extra = []
            for n in cc.nodes:
                if isinstance(n, ast.BinOp):
                    extra.append(src(n)[:40])
                if isinstance(n, ast.Call):
                    nm = src(P.peel_call(n, f)[1]).split(".")[-1]
                    if nm in stats_makers or nm in allow_calls or nm in ("delayed", "persist", "compute", "list", "asarray", "squeeze", "check_and_persist_dask_input", "unique_labels", "append"):
                        continue
                    extra.append(src(n)[:40])
            R.check(not extra, rule + ".thin", key, f"argument `{src(a)[:40]}` of {sibling}", "only UBM projection between the array and the sibling", f"the array is transformed on its way to {sibling}: {extra[:3]}", c.lineno)
