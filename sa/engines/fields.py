"""FIELDS: record exhaustiveness across sibling operations (DESIGN 3.5) and the shape guard.

The field set of a record class is what __init__ stores, minus the shape fields.  Every
sibling operation (add, iadd, eq, similar, init_fields, save, from_hdf5, producing E-step)
must treat every field, once, with the right operator.
"""
from __future__ import annotations

import ast

from ..cfg import ENTRY, EXIT
from ..dataflow import cone, get_defuse, stores
from ..frontend import src, walk_no_nested


def init_fields_of(P, clsname, shape_fields):
    ci = P.cls(clsname)
    init = ci.methods.get("__init__")
    if init is None:
        return []
    out = []
    for st, t, v, k in stores(init):
        if isinstance(t, ast.Attribute) and isinstance(t.value, ast.Name) and t.value.id == init.self_name:
            if t.attr not in shape_fields and t.attr not in out:
                out.append(t.attr)
    return out


def _attr_of(expr, obj, field):
    return isinstance(expr, ast.Attribute) and isinstance(expr.value, ast.Name) and expr.value.id == obj and expr.attr == field


def _mentions(node, obj, field):
    return any(_attr_of(n, obj, field) for n in ast.walk(node))


def _fields_mentioned(node, obj, fields):
    return {n.attr for n in ast.walk(node) if isinstance(n, ast.Attribute) and isinstance(n.value, ast.Name) and n.value.id == obj and n.attr in fields}


def check_add(P, R, clsname, fields, rule="FIELDS.add"):
    """__add__: result is a fresh object; for each field f: result.f = self.f + other.f."""
    f = P.func(f"{P.cls(clsname).module.name}:{clsname}.__add__")
    R.analysed(f)
    du = get_defuse(f, P)
    me, other = f.posparams[0], f.posparams[1]
    rets = [n for n in walk_no_nested(f.node) if isinstance(n, ast.Return)]
    if not rets:
        R.error(f"{f.key}: no return")
        return
    for r in rets:
        if not isinstance(r.value, ast.Name):
            R.undecided(rule, f.key, f"return {src(r.value)}", "result is not a local object")
            continue
        res = r.value.id
        # the result must be a fresh object
        rd = du.reaching(r, res)
        fresh = bool(rd) and all(
            d.how == "assign" and isinstance(d.value, ast.Call) and (
                any(t[0] == "ctor" for t in P.resolve_callee(d.value.func, f))
                or (P.dotted(d.value.func, f) or "").endswith("deepcopy")
            )
            for d in rd
        )
        copied_self = any(isinstance(d.value, ast.Call) and (P.dotted(d.value.func, f) or "").endswith("deepcopy") and d.value.args and src(d.value.args[0]) == me for d in rd)
        R.check(fresh, rule + "-fresh", f.key, f"return {res}", "result is a newly constructed object", f"`+` returns {res} which is not a fresh object (aliases or mutates an operand)", r.lineno)
        for fld in fields:
            found = False
            why = "field is never combined"
            for st, t, v, k in stores(f):
                if not _attr_of(t, res, fld):
                    continue
                if k == "assign" and isinstance(v, ast.BinOp) and isinstance(v.op, ast.Add):
                    sides = {src(v.left), src(v.right)}
                    if sides == {f"{me}.{fld}", f"{other}.{fld}"}:
                        found = True
                    else:
                        why = f"stored `{src(v)}` is not {me}.{fld} + {other}.{fld}"
                elif k == "aug" and isinstance(st.op, ast.Add) and copied_self and src(v) == f"{other}.{fld}":
                    found = True
                elif k == "assign":
                    why = f"stored `{src(v)}` is not the sum of both operands' {fld}"
            R.check(found, rule, f.key, f"{res}.{fld} = {me}.{fld} + {other}.{fld}", "sum of both operands", f"`+` does not add field {fld}: {why}")


def check_iadd(P, R, clsname, fields, rule="FIELDS.iadd"):
    f = P.func(f"{P.cls(clsname).module.name}:{clsname}.__iadd__")
    R.analysed(f)
    me, other = f.posparams[0], f.posparams[1]
    for fld in fields:
        found = False
        why = "field is never accumulated"
        for st, t, v, k in stores(f):
            if not _attr_of(t, me, fld):
                continue
            if k == "aug" and isinstance(st.op, ast.Add) and src(v) == f"{other}.{fld}":
                found = True
            elif k == "assign" and isinstance(v, ast.BinOp) and isinstance(v.op, ast.Add) and {src(v.left), src(v.right)} == {f"{me}.{fld}", f"{other}.{fld}"}:
                found = True
            else:
                why = f"`{src(st)}` does not add {other}.{fld} into {me}.{fld}"
        R.check(found, rule, f.key, f"{me}.{fld} += {other}.{fld}", "accumulated in place", f"`+=` does not accumulate field {fld}: {why}")
    for r in [n for n in walk_no_nested(f.node) if isinstance(n, ast.Return)]:
        R.check(isinstance(r.value, ast.Name) and r.value.id == me, rule + "-ret", f.key, f"return {src(r.value) if r.value else None}", "returns self", "`+=` must return self")
    # W(__iadd__) subset of self
    for st, t, v, k in stores(f):
        base = t
        while isinstance(base, (ast.Subscript, ast.Attribute)):
            base = base.value
        if isinstance(base, ast.Name) and base.id == other:
            R.violation(rule + "-own", f.key, src(st), f"`+=` writes into its right operand {other}", st.lineno)


def _raising_shape_tests(cfg_nodes, me, other, shape_fields):
    """[(If node, set of shape fields compared)] for `if <me.f != other.f or ...>: raise`."""
    out = []
    for n in cfg_nodes:
        if isinstance(n, ast.If) and n.body and isinstance(n.body[-1], ast.Raise):
            t = n.test
            ok_fields = set()
            for c in ast.walk(t):
                if isinstance(c, ast.Compare) and len(c.ops) == 1 and isinstance(c.ops[0], ast.NotEq):
                    l, r = c.left, c.comparators[0]
                    for sf in list(shape_fields) + ["shape"]:
                        if {src(l), src(r)} == {f"{me}.{sf}", f"{other}.{sf}"}:
                            ok_fields.add(sf)
            # the comparisons must be OR-ed (any mismatch refuses)
            ored = not isinstance(t, ast.BoolOp) or isinstance(t.op, ast.Or)
            if ok_fields and ored:
                out.append((n, ok_fields))
    return out


def check_shape_guard(P, R, clsname, meth, shape_fields, fields, rule="GUARD.refuse"):
    """A raising shape comparison that tests every shape field dominates every field access.  The comparison may live in
    a helper method called as a statement (`self._check_same_shape(other)`): the call statement is then the guard."""
    f = P.func(f"{P.cls(clsname).module.name}:{clsname}.{meth}")
    du = get_defuse(f, P)
    me, other = f.posparams[0], f.posparams[1]
    guards = _raising_shape_tests(du.cfg.nodes(), me, other, shape_fields)
    for n in du.cfg.nodes():
        if isinstance(n, ast.Expr) and isinstance(n.value, ast.Call):
            c = n.value
            tg = [t[1] for t in P.resolve_callee(c.func, f) if t[0] == "repo"]
            if not tg:
                continue
            callee = tg[0]
            bound = P.bind_args(callee, c.args, c.keywords)
            cme = callee.self_name if isinstance(c.func, ast.Attribute) and isinstance(c.func.value, ast.Name) and c.func.value.id == me else None
            cother = next((p_ for p_, a_ in bound.items() if isinstance(a_, ast.Name) and a_.id == other), None)
            if cme is None:
                cme = next((p_ for p_, a_ in bound.items() if isinstance(a_, ast.Name) and a_.id == me), None)
            if cme is None or cother is None:
                continue
            cdu = get_defuse(callee, P)
            inner = _raising_shape_tests(cdu.cfg.nodes(), cme, cother, shape_fields)
            # the helper must reach its raising test on every path (the test dominates the helper's exit)
            for g_, fs in inner:
                from ..cfg import EXIT as _EXIT

                if not cdu.cfg.reach_avoiding(ENTRY, _EXIT, {g_}):
                    guards.append((n, fs))
    covered = set()
    for n, fs in guards:
        covered |= set(shape_fields) if "shape" in fs else fs
    what = f"raise on {me}.<shape> != {other}.<shape>"
    if not guards:
        R.violation(rule, f.key, what, "no shape comparison that refuses incompatible statistics")
        return
    missing = set(shape_fields) - covered
    R.check(not missing, rule + "-complete", f.key, what, "tests every shape field", f"shape test does not compare {sorted(missing)}: incompatible statistics are added")
    # dominance: every statement touching a data field is reachable only through the non-raising edge
    for st in du.cfg.nodes():
        if isinstance(st, (ast.If, ast.For, ast.While)):
            exprs = [st.test] if not isinstance(st, ast.For) else [st.iter]
        else:
            exprs = [st]
        touched = set()
        for e in exprs:
            touched |= _fields_mentioned(e, me, fields) | _fields_mentioned(e, other, fields)
        if not touched or any(st is g for g, _ in guards):
            continue
        dom = all(du.cfg.dominates(g, st) and not du.cfg.reach_avoiding(st, g) for g, _ in guards if g is not st)
        R.check(dom, rule + "-dominates", f.key, src(st).split("\n")[0][:80], "after the shape test", "field access not dominated by the shape test (statistics are modified before the refusal)", getattr(st, "lineno", None))


def check_compare(P, R, clsname, meth, fields, rule="FIELDS.eq"):
    f = P.func(f"{P.cls(clsname).module.name}:{clsname}.{meth}")
    R.analysed(f)
    me, other = f.posparams[0], f.posparams[1]
    rets = [n for n in walk_no_nested(f.node) if isinstance(n, ast.Return) and n.value is not None]
    for fld in fields:
        found = False
        for r in rets:
            for n in ast.walk(r.value):
                if isinstance(n, ast.Compare):
                    parts = [n.left] + list(n.comparators)
                elif isinstance(n, ast.Call):
                    parts = list(n.args)
                else:
                    continue
                txt = {src(p) for p in parts}
                if f"{me}.{fld}" in txt and f"{other}.{fld}" in txt:
                    found = True
                    if isinstance(n, ast.Compare) and not all(isinstance(o, ast.Eq) for o in n.ops):
                        R.violation(rule + "-op", f.key, src(n), f"field {fld} is compared with `{type(n.ops[0]).__name__}` instead of ==: equal statistics compare unequal (or unequal ones equal)", n.lineno)
        R.check(found, rule, f.key, f"{me}.{fld} vs {other}.{fld}", "compared", f"{meth} does not compare field {fld}: unequal statistics compare equal")
    # conjunction: any disagreement must make the result false
    for r in rets:
        v = r.value
        if isinstance(v, ast.BoolOp) and isinstance(v.op, ast.Or):
            R.violation(rule + "-and", f.key, "return <a or b ...>", "field comparisons are OR-ed: one equal field makes unequal statistics equal", r.lineno)


def check_init_fields(P, R, clsname, meth, fields, rule="FIELDS.init"):
    f = P.func(f"{P.cls(clsname).module.name}:{clsname}.{meth}")
    R.analysed(f)
    du = get_defuse(f, P)
    me = f.self_name
    mapping = {}
    for fld in fields:
        ok = False
        for st, t, v, k in stores(f):
            if _attr_of(t, me, fld) and k == "assign":
                c = cone(du, v, du.stmt_of(st), interproc=False)
                mapping.setdefault(fld, set()).update(c.params & set(f.value_params))
                if fld in c.params:
                    ok = True
        R.check(ok, rule, f.key, f"{me}.{fld} <- parameter {fld}", "stored from its own parameter", f"{meth} does not store parameter {fld} into field {fld} (got {sorted(mapping.get(fld, []))})")
    return mapping
