"""Runs the DIM engine over a table of entry points and routes its obligations into a Report.

Each root is analysed under the array-kind assumptions listed for it (NumPy arm / Dask arm), so both arms of
every array-type switch are typed separately and can be compared.
"""
from __future__ import annotations

from ..tables.dim_types import DECLS
from .dim import Ctx, analyse_root, fmt, parse_type

ST = "list:K:obj:GMMStats"
SW = {"update_means": "?", "update_variances": "?", "update_weights": "?", "mean_var_update_threshold": "*"}

# name -> (function key, parameter types, track_s, assumptions to run under, expected return type or None)
ROOTS = {
    # ---- GMM ---------------------------------------------------------------------------------------
    "gmm.lwl": ("gmm:log_weighted_likelihood", {"data": "U eqv [N,D]", "machine": "obj:GMMMachine"}, True, (None,), None),
    "gmm.lwl1": ("gmm:log_weighted_likelihood", {"data": "U eqv [D]", "machine": "obj:GMMMachine"}, True, (None,), None),
    "gmm.ll": ("gmm:log_likelihood", {"data": "U eqv [N,D]", "machine": "obj:GMMMachine"}, True, (False, True), None),
    "gmm.ll1": ("gmm:log_likelihood", {"data": "U eqv [D]", "machine": "obj:GMMMachine"}, True, (False,), None),
    "gmm.e_step": ("gmm:e_step", {"data": "U [N,D]", "machine": "obj:GMMMachine"}, True, (False, True), None),
    "gmm.e_step1": ("gmm:e_step", {"data": "U [D]", "machine": "obj:GMMMachine"}, True, (False,), None),
    "gmm.m_step": ("gmm:m_step", {"statistics": "list:B:obj:GMMStats", "machine": "obj:GMMMachine"}, True, (None,), "tuple:obj:GMMMachine|LOG U-d []"),
    "gmm.ml": ("gmm:ml_gmm_m_step", dict(SW, machine="obj:GMMMachine", statistics="obj:GMMStats"), True, (None,), None),
    "gmm.map.reynolds": ("gmm:map_gmm_m_step", dict(SW, machine="obj:GMMMachine", statistics="obj:GMMStats", reynolds_adaptation="true", relevance_factor="*", alpha="*"), True, (None,), None),
    "gmm.map.alpha": ("gmm:map_gmm_m_step", dict(SW, machine="obj:GMMMachine", statistics="obj:GMMStats", reynolds_adaptation="false", relevance_factor="*", alpha="*"), True, (None,), None),
    "gmm.set.variances": ("gmm:GMMMachine.variances.fset", {"variances": "U2 [C,D]"}, True, (None,), None),
    "gmm.set.weights": ("gmm:GMMMachine.weights.fset", {"weights": "1 [C]"}, True, (None,), None),
    "gmm.set.thresholds": ("gmm:GMMMachine.variance_thresholds.fset", {"threshold": "U2 [C,D]"}, True, (None,), None),
    "gmm.get.g_norms": ("gmm:GMMMachine.g_norms.fget", {}, True, (None,), "LOG U2d c2pi [C]"),
    "gmm.fit": ("gmm:GMMMachine.fit", {"X": "U eqv [N,D]"}, True, (False, True), None),
    "gmm.init": ("gmm:GMMMachine.initialize_gaussians", {"data": "U eqv [N,D]"}, True, (False, True), None),
    "gmm.acc_stats": ("gmm:GMMMachine.acc_stats", {"X": "U [N,D]"}, True, (False,), None),
    # ---- k-means -------------------------------------------------------------------------------------
    "km.fit": ("kmeans:KMeansMachine.fit", {"X": "U eqv [N,D]"}, True, (False, True), None),
    "km.varw": ("kmeans:KMeansMachine.get_variances_and_weights_for_each_cluster", {"data": "U eqv [N,D]"}, True, (False, True), None),
    "km.transform": ("kmeans:KMeansMachine.transform", {"X": "U eqv [N,D]"}, True, (False, True), "U2 inv [C,N]"),
    "km.transform1": ("kmeans:KMeansMachine.transform", {"X": "U eqv [D]"}, True, (False,), "U2 [C,?]"),
    "km.predict": ("kmeans:KMeansMachine.predict", {"X": "U eqv [N,D]"}, True, (False, True), None),
    # ---- linear scoring --------------------------------------------------------------------------------
    "ls.norm": ("linear_scoring:linear_scoring", {"models_means": "U [M,C,D]", "ubm": "obj:GMMMachine", "test_stats": ST, "test_channel_offsets": "U [K,C,D]", "frame_length_normalization": "true"}, True, (None,), "1 [M,K]"),
    "ls.raw": ("linear_scoring:linear_scoring", {"models_means": "U [M,C,D]", "ubm": "obj:GMMMachine", "test_stats": ST, "test_channel_offsets": "U [K,C,D]", "frame_length_normalization": "false"}, True, (None,), "1 S [M,K]"),
    "ls.model2d": ("linear_scoring:linear_scoring", {"models_means": "U [C,D]", "ubm": "obj:GMMMachine", "test_stats": ST, "test_channel_offsets": "U [K,C,D]", "frame_length_normalization": "false"}, True, (None,), None),
    "ls.machines": ("linear_scoring:linear_scoring", {"models_means": "list:M:obj:GMMMachine", "ubm": "obj:GMMMachine", "test_stats": "obj:GMMStats", "frame_length_normalization": "false"}, True, (None,), "1 S [M,K]"),
    # ---- i-vector (counts are combined with prior precisions: S not tracked) -----------------------------
    "iv.e_step": ("ivector:e_step", {"machine": "obj:IVectorMachine", "data": ST}, False, (None,), None),
    "iv.m_step": ("ivector:m_step", {"machine": "obj:IVectorMachine", "stats": "obj:IVectorStats"}, True, (None,), None),
    "iv.project": ("ivector:IVectorMachine.project", {"stats": "obj:GMMStats"}, False, (None,), "1 [T]"),
    "iv.fit": ("ivector:IVectorMachine.fit", {"X": ST}, False, (False, True), None),
    # ---- factor analysis ----------------------------------------------------------------------------------
    "fa.isv.fit": ("factor_analysis:ISVMachine.fit", {"X": ST, "y": "list:K:*"}, False, (False,), None),
    "fa.jfa.fit": ("factor_analysis:JFAMachine.fit", {"X": ST, "y": "list:K:*"}, False, (False,), None),
    "fa.isv.enroll": ("factor_analysis:ISVMachine.enroll", {"X": ST}, False, (False,), None),
    "fa.jfa.enroll": ("factor_analysis:JFAMachine.enroll", {"X": ST}, False, (False,), None),
    "fa.isv.score": ("factor_analysis:ISVMachine.score", {"latent_z": "1 [F]", "data": ST}, False, (False,), "1 []"),
    "fa.jfa.score": ("factor_analysis:JFAMachine.score", {"model": "tuple:1 [R]|1 [F]", "data": ST}, False, (False,), "1 []"),
    "fa.estimate_ux": ("factor_analysis:FactorAnalysisBase.estimate_ux", {"X": ST}, False, (False,), "U [F]"),
    "fa.fn_x": ("factor_analysis:FactorAnalysisBase._compute_fn_x", {"X_i": ST}, True, (None,), "U S [F]"),
    "fa.fn_x_ih": ("factor_analysis:FactorAnalysisBase._compute_fn_x_ih", {"x_i": "obj:GMMStats", "latent_z_i": "1 [F]", "latent_y_i": "1 [R]"}, True, (None,), "U S [F]"),
    "fa.fn_z_i": ("factor_analysis:FactorAnalysisBase._compute_fn_z_i", {"X_i": ST, "latent_x_i": "1 [R,K]", "latent_y_i": "1 [R]", "n_acc_i": "S [C]", "f_acc_i": "U S [C,D]"}, True, (None,), "U S [F]"),
    "fa.fn_y_i": ("factor_analysis:FactorAnalysisBase._compute_fn_y_i", {"X_i": ST, "latent_x_i": "1 [R,K]", "latent_z_i": "1 [F]", "n_acc_i": "S [C]", "f_acc_i": "U S [C,D]"}, True, (None,), "U S [F]"),
    "fa.latent_x_i": ("factor_analysis:FactorAnalysisBase._compute_latent_x_per_class", {"X_i": ST, "UProd": "1 [C,R,R]", "UTinvSigma": "U-1 [R,F]", "latent_y_i": "1 [R]", "latent_z_i": "1 [F]"}, False, (None,), "1 [R,K]"),
    "fa.update_z": ("factor_analysis:FactorAnalysisBase.update_z", {"X": ST, "y": "list:K:*", "latent_x": "list:K:1 [R,?]", "latent_y": "list:K:1 [R]", "latent_z": "list:K:1 [F]", "n_acc": "1 [K,C]", "f_acc": "U [K,C,D]"}, False, (None,), "list:K:1 [F]"),
    "fa.update_y": ("factor_analysis:FactorAnalysisBase.update_y", {"X": ST, "y": "list:K:*", "VProd": "1 [C,R,R]", "latent_x": "list:K:1 [R,?]", "latent_y": "list:K:1 [R]", "latent_z": "list:K:1 [F]", "n_acc": "1 [K,C]", "f_acc": "U [K,C,D]"}, False, (None,), None),
    "fa.create_UVD": ("factor_analysis:FactorAnalysisBase.create_UVD", {}, False, (None,), None),
    # ---- linear transforms -----------------------------------------------------------------------------------
    "wccn.fit": ("wccn:WCCN.fit", {"X": "U eqv [N,D]", "y": "list:N:*"}, True, (False, True), None),
    "wccn.transform": ("wccn:WCCN.transform", {"X": "list:K:U [N,D]"}, True, (None,), "list:K:1 K0.5 S-0.5"),
    "white.fit": ("whitening:Whitening.fit", {"X": "U eqv [N,D]"}, True, (False, True), None),
    "white.transform": ("whitening:Whitening.transform", {"X": "U [N,D]"}, True, (None,), "1"),
}

_CACHE = {}


def run_roots(P, names):
    """Returns list of (verdict, rule, where, what, msg, line, root name) and dict of return types."""
    out = []
    rets = {}
    for n in names:
        key, params, track_s, modes, expect = ROOTS[n]
        for mode in modes:
            ck = (id(P), n, mode)
            if ck not in _CACHE:
                obs = []
                ctx = Ctx(
                    P, DECLS,
                    lambda rule, where, what, msg, line, obs=obs: obs.append(("violation", rule, where, what, msg, line)),
                    lambda rule, where, what, msg, line, obs=obs: obs.append(("ok", rule, where, what, msg, line)),
                    lambda rule, where, what, msg, line, obs=obs: obs.append(("undecided", rule, where, what, msg, line)),
                    track_s=track_s, assume_dask=mode,
                )
                r, env = analyse_root(ctx, key, params)
                if expect is not None:
                    from .dim import Interp

                    it = Interp(ctx, P.func(key))
                    f = P.func(key)
                    it.check_decl(parse_type(expect), r if r is not None else parse_type("none"), f.node, f"result of {f.qualname} for inputs {_short(params)}", rule="DIM.D2-root")
                    from .dim import any_part

                    if track_s and r is not None and any_part([r]):
                        it.violation("EXT.PART", f.node, f"the result of {f.qualname} ({fmt(r)}) is computed from a single block of its block list and never folded over the blocks")
                _CACHE[ck] = (obs, r, ctx)
            obs, r, ctx = _CACHE[ck]
            rets[(n, mode)] = r
            for o in obs:
                out.append(o + (n,))
    return out, rets


def _short(params):
    return "{" + ", ".join(f"{k}: {v}" for k, v in params.items() if v not in ("?", "*")) + "}"


def route(P, R, names, rules=None, where_prefix=None, exclude_rules=()):
    """Run the roots and record the obligations whose rule starts with one of `rules` (all when None) and whose
    function is in one of the `where_prefix` modules (all when None)."""
    obs, rets = run_roots(P, names)
    n = 0
    for verdict, rule, where, what, msg, line, root in obs:
        if rules is not None and not any(rule.startswith(r) for r in rules):
            continue
        if any(rule.startswith(r) for r in exclude_rules):
            continue
        if where_prefix is not None and not any(where.startswith(w) for w in where_prefix):
            continue
        n += 1
        if verdict == "ok":
            R.ok(rule, where, what, msg, line)
        elif verdict == "violation":
            R.violation(rule, where, what, msg, line)
        else:
            R.undecided(rule, where, what, msg, line)
    for (nm, mode), r in rets.items():
        R.analysed(type("F", (), {"key": ROOTS[nm][0]})())
    return n, rets


def compare_modes(P, R, name, rule="DIM.BRANCH-ret"):
    """The NumPy arm and the Dask arm of a root return the same abstract type."""
    obs, rets = run_roots(P, [name])
    vals = [(m, r) for (n, m), r in rets.items() if n == name]
    if len(vals) < 2:
        return
    (m0, r0), (m1, r1) = vals[0], vals[1]
    same = fmt(r0) == fmt(r1)
    if (r0 is not None and r0.is_unk) or (r1 is not None and r1.is_unk):
        R.undecided(rule, ROOTS[name][0], f"result type NumPy arm {fmt(r0)} / Dask arm {fmt(r1)}", "one arm could not be typed")
        return
    R.check(same, rule, ROOTS[name][0], f"result type NumPy arm {fmt(r0)} / Dask arm {fmt(r1)}", "both arms compute a value of the same dimension, extent and shape", f"the NumPy arm returns {fmt(r0)} but the Dask arm returns {fmt(r1)}")
