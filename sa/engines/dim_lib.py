"""Transfer rules of the DIM domain for calls: repository callees (inlined), builtins, and the
NumPy/SciPy/Dask callables the package uses (library model)."""
from __future__ import annotations

import ast
from fractions import Fraction as Fr

from ..frontend import ClassInfo, const_value, src
from .dim import V, ZERO, vshape, any_part, bshape, fmt, lf, lf_add, lf_scale, logv, mark_part, norm_axis, num, unk, wild

ELEMENTWISE_SAME = {"abs", "absolute", "fabs", "negative", "copy", "deepcopy", "asarray", "array", "asanyarray", "ascontiguousarray", "float", "astype", "persist", "compute", "nan_to_num", "real", "squeeze_not"}
LOGSUMEXP = {"numpy.logaddexp.reduce", "scipy.special.logsumexp"}
REDUCERS_EXT = {"sum", "nansum"}  # extensive over the sample axis
REDUCERS_INT = {"mean", "nanmean", "median", "average", "max", "min", "amax", "amin", "nanmax", "nanmin"}  # intensive
RNG = ("numpy.random.",)


def _axis_arg(it, e, env, kw, pos=None):
    if "axis" in kw:
        return kw["axis"], True
    if pos is not None and len(e.args) > pos:
        return it.ev(e.args[pos], env), True
    return None, False


def _axes_from(v, node=None):
    """Literal axis value(s) from an abstract value (uses cval) or from the AST."""
    if v is None:
        return None
    if v.k == "tuple" and v.tup is not None:
        out = []
        for x in v.tup:
            if x.cval is None:
                return "?"
            out.append(int(x.cval))
        return tuple(out)
    if v.k == "none":
        return None
    if v.cval is not None:
        return int(v.cval)
    return "?"


def reduce_axes(it, v, axes, node, how):
    """Reduce numeric value v over the given axes. how in 'sum' | 'int' | 'lse' | 'arg'."""
    if not v.is_numlike:
        return unk(f"reduction of {fmt(v)}")
    if v.sh is None:
        if how == "sum" and it.c.track_s:
            return unk("sum over an array of unknown shape (sample extent undetermined)")
        return v.copy(sh=None, cval=None, count_of=None, index_of=None)
    n = len(v.sh)
    if axes is None:
        ax = list(range(n))
    elif axes == "?":
        return unk("reduction over a non-literal axis")
    else:
        ax = [norm_axis(a, n) for a in (axes if isinstance(axes, tuple) else (axes,))]
        if any(a is None for a in ax):
            it.violation("DIM.SHAPE", node, f"axis {axes} is out of range for axes {list(v.sh)}")
            return unk("axis out of range")
    kinds = [v.sh[a] for a in ax]
    rest = tuple(k for i, k in enumerate(v.sh) if i not in ax)
    out = v.copy(sh=rest, cval=None, count_of=None, index_of=None)
    if v.sw == 1 and how == "sum":
        out.sw = "N"
    for k in kinds:
        if k == "B" and it.c.track_s and v.is_numlike and not v.wild:
            # a reduction over the block axis of stacked per-block values
            if how == "int" and v.part:
                it.violation("EXT.D4", node, f"per-block values of type {fmt(v)} are averaged over the blocks: blocks of unequal size get equal weight, so the result is not the whole-data quantity and depends on the chunking")
            elif how == "sum" and v.s == 0:
                it.violation("EXT.D4", node, f"per-block values of type {fmt(v)} are summed over the blocks although they are intensive (per-block averages)")
            out.part = False
            continue
        if how == "sum":
            if k == "N" and it.c.track_s:
                out.s = out.s + 1
            if v.naive_exp and k == "C" and v.k == "num":
                it.violation("DIM.LOGDOM", node, "the mixture sum over the components is taken in the linear domain (exp of un-normalised log-densities, then sum): it underflows to 0 (log -> -inf) for samples in the tail of every component; use log-sum-exp or exponentiate differences only")
            if v.k == "log":
                if k == "D":
                    if v.u[1] != 0:
                        return unk("sum over features of a log value whose exponent already depends on d")
                    out.u = lf(0, v.u[0])
                    out.dconst = None if (v.dconst is None or v.lconst is None) else v.dconst + v.lconst
                    out.lconst = 0.0
                elif k == "C":
                    it.violation("DIM.LOGDOM", node, "log-domain values are summed over the component axis: that is the log of a product, not of the mixture sum; components must be combined with log-sum-exp")
                    return unk("sum of logs over components")
                elif k == "?":
                    return unk("sum of logs over an unknown axis")
            if k == "?" and it.c.track_s:
                return unk("sum over an axis of unknown kind (sample extent undetermined)")
        elif how == "lse":
            if v.k != "log":
                it.violation("DIM.LOGDOM", node, f"log-sum-exp applied to a linear-domain value {fmt(v)}")
        elif how == "int":
            pass
    return out


_LSE_MEMO = {}


def _lse_cached(P, fobj):
    k = (id(P), fobj.key)
    if k not in _LSE_MEMO:
        from . import cover as _cover
        try:
            _LSE_MEMO[k] = _cover.lse_evidence(P, fobj)
        except Exception as ex:  # pragma: no cover
            _LSE_MEMO[k] = (False, str(ex))
    return _LSE_MEMO[k]


def call(it, e, env):
    r = _call(it, e, env)
    return r


def _call(it, e, env):
    P = it.P
    f = it.f
    kind, fexpr, args, kws = P.peel_call(e, f)
    kw = {k.arg: it.ev(k.value, env) for k in kws if k.arg is not None}
    # --- calling the result of something (e.g. dask.delayed(f)(...)) is peeled above ---------------
    d = P.dotted(fexpr, f) or ""
    name = fexpr.attr if isinstance(fexpr, ast.Attribute) else (fexpr.id if isinstance(fexpr, ast.Name) else "")
    # ---- logging ---------------------------------------------------------------------------------
    if d.startswith("logging.") or (isinstance(fexpr, ast.Attribute) and isinstance(fexpr.value, ast.Name) and fexpr.value.id in ("logger", "logging")):
        return V("none")
    argv = [it.ev(a, env) for a in args if not isinstance(a, ast.Starred)]
    starred = [a for a in args if isinstance(a, ast.Starred)]
    if name == "reduce_iadd" and argv and all(v.k == "list" for v in argv):
        # wrapper peeling: in-place add of each list into its element 0
        outs = tuple(mark_part(v.elem, False) if v.elem is not None else unk("empty list") for v in argv)
        for v in argv:
            it.c.facts.setdefault("reduce_sites", []).append((f.key, e, "operator.iadd", v))
        return outs[0] if len(outs) == 1 else V("tuple", tup=outs)
    if isinstance(fexpr, ast.Name) and fexpr.id in env and env[fexpr.id].k == "func" and env[fexpr.id].note in ("operator.add", "operator.iadd") and len(argv) >= 2:
        return it.binop(ast.Add(), argv[0], argv[1], e)
    # ---- helpers that fold a list by a tree reduction (COVER decides whether they cover it; here: the type of a fold) -----
    if isinstance(fexpr, ast.Name) and fexpr.id not in env:
        obj_ = P.resolve_pkg_name(d)
        if obj_ is not None and hasattr(obj_, "node") and not isinstance(obj_, ClassInfo):
            from . import cover as _cover
            ff = _cover.is_fold_function(P, obj_)
            if ff is not None:
                b_ = P.bind_args(obj_, args, kws)
                la = b_.get(ff[0])
                lv = it.ev(la, env) if la is not None else None
                if lv is not None and lv.k == "list" and lv.elem is not None:
                    el = lv.elem
                    if any_part([el]):
                        it.c.fold_sites.append((f.key, e, el))
                        if it.c.track_s and el.is_numlike and not el.wild and not el.is_unk and el.s == 0:
                            it.violation("EXT.D4", e, f"per-block values of type {fmt(el)} are summed over the blocks by `{name}`: they are intensive (S^0)")
                    return mark_part(el, False)
    # ---- builders of a stand-in for an estimator (snapshot / worker copy / frozen view): typed as the estimator they stand for;
    #      that they carry what the kernels read is COPY.complete's business (proto.check_standins)
    try:
        _tg = [t_[1] for t_ in P.resolve_callee(fexpr, f) if t_[0] == "repo"]
    except Exception:
        _tg = []
    if _tg:
        from .proto import standin_builder as _sbb
        _sb = _sbb(P, _tg[0])
        if _sb is not None:
            if _tg[0].self_name and isinstance(fexpr, ast.Attribute):
                _srcv = it.ev(fexpr.value, env)
            else:
                _srcv = argv[0] if argv else None
            if _srcv is not None and _srcv.k == "obj":
                return _srcv
    # ---- a hand-written log-sum-exp of the package (COVER.lse_evidence decides; the typing is that of the library reducers) ----
    if isinstance(fexpr, ast.Name) and fexpr.id not in env:
        obj_ = P.resolve_pkg_name(d)
        if obj_ is not None and hasattr(obj_, "node") and not isinstance(obj_, ClassInfo) and obj_.posparams:
            from . import cover as _cover
            okl, whyl = _lse_cached(P, obj_)
            if okl:
                b_ = P.bind_args(obj_, args, kws)
                arr = b_.get(obj_.posparams[0])
                av = it.ev(arr, env) if arr is not None else None
                if av is not None and av.is_numlike:
                    axn = b_.get("axis")
                    if axn is not None:
                        axes_ = _axes_from(it.ev(axn, env))
                    else:
                        dflt_ = {a_.arg: d_ for a_, d_ in zip((obj_.node.args.posonlyargs + obj_.node.args.args)[-len(obj_.node.args.defaults):], obj_.node.args.defaults)} if obj_.node.args.defaults else {}
                        axes_ = const_value(dflt_["axis"]) if "axis" in dflt_ else 0
                    it.c.facts.setdefault("lse_functions", set()).add(obj_.key)
                    return reduce_axes(it, av, axes_, e, "lse")
    # ---- repository callees -----------------------------------------------------------------------
    if isinstance(fexpr, ast.Name) and fexpr.id == "cls" and f.cls is not None:
        return V("obj", obj=f.cls.name)
    if isinstance(fexpr, ast.Name) and fexpr.id not in env:
        obj = P.resolve_pkg_name(d)
        if isinstance(obj, ClassInfo):
            # COUNT.args: a size handed to a constructor counts the axis the constructor declares for that parameter
            init_ = P.lookup_method(obj, "__init__")
            if init_ is not None:
                b_ = P.bind_args(init_, [ast.Name(id="__self__", ctx=ast.Load())] + list(args), kws) if False else None
                pos_ = list(init_.posparams[1:])
                given = dict(zip(pos_, argv))
                given.update(kw)
                for pn_, av_ in given.items():
                    dk_ = it.c.decls.get("params", {}).get(f"{init_.key}.{pn_}")
                    if not dk_ or not dk_.startswith("count:"):
                        continue
                    want_ = dk_.split(":", 1)[1]
                    got_ = av_.count_of if av_.is_numlike else None
                    if got_ and got_ not in ("?", want_):
                        it.violation("DIM.COUNT", e, f"`{src(e)[:60]}`: the parameter {pn_} of {obj.name} is the size of axis {want_} but receives the size of axis {got_}: the recorded shape is transposed (wrong whenever the two sizes differ)")
                    elif got_ == want_:
                        it.ok("DIM.COUNT", e, f"{obj.name}({pn_}=size of {want_})")
            o = V("obj", obj=obj.name)
            o.part = any_part(argv + list(kw.values()))
            return o
        if obj is not None and hasattr(obj, "node"):
            return it.call_repo(obj, argv, kw, e)
    if isinstance(fexpr, ast.Attribute):
        fv = it.ev(fexpr, env)
        if fv.k == "func" and fv.note.startswith("method:"):
            callee = P.func(fv.note[7:])
            return it.call_repo(callee, argv, kw, e, self_val=fv.origin)
        if fv.k == "func" and fv.note.startswith("arraymethod:"):
            return array_method(it, fv.origin, fv.note[12:], e, env, argv, kw)
        if fv.k == "func" and fv.note.startswith("dictmethod:"):
            m = fv.note[11:]
            el = fv.origin.elem if fv.origin is not None and fv.origin.elem is not None else unk("element of empty dict")
            if m == "items":
                return V("list", axis="?", elem=V("tuple", tup=(wild(()), el)))
            if m == "values":
                return V("list", axis="?", elem=el)
            if m == "keys":
                return V("list", axis="?", elem=wild(()))
            if m == "get":
                return el
            return fv.origin
        if fv.k == "func" and fv.note.startswith("listmethod:"):
            m = fv.note[11:]
            if m in ("append", "extend", "sort", "insert"):
                return V("none")
            if m in ("copy", "ravel", "tolist", "flatten", "persist", "compute"):
                return fv.origin
            if m == "to_delayed":
                return V("list", axis="B", elem=fv.origin)
            return unk("list method " + m)
        base = it.ev(fexpr.value, env)
        if base.is_unk and not d:
            if fexpr.attr in ("compute", "persist"):
                return base
            return unk(f"method {fexpr.attr} of untyped value")
        if base.k == "obj":
            ci = P.class_index.get(base.obj)
            m = P.lookup_method(ci, fexpr.attr) if ci else None
            if m is not None:
                return it.call_repo(m, argv, kw, e, self_val=base)
            if fexpr.attr in ("compute", "persist"):
                return base  # the object is (the result of) a Delayed: computing it gives the object
            return unk(f"method {base.obj}.{fexpr.attr}")
    # ---- builtins -----------------------------------------------------------------------------------
    if isinstance(fexpr, ast.Name) and fexpr.id not in env:
        b = fexpr.id
        if b == "len":
            v = argv[0] if argv else unk()
            if v.is_numlike and v.sh:
                r = V("num", count_of=v.sh[0], s=1 if (v.sh[0] == "N" and it.c.track_s) else 0, sh=())
                r.part = v.part
                return r
            if v.k == "list":
                return V("num", count_of=v.axis, sh=(), wild=True)
            if v.k == "set":
                return V("num", count_of="L", sh=(), kk=1)  # number of distinct labels: the class count K
            return wild(())
        if b == "range":
            v = argv[-1] if argv else unk()
            ax = v.count_of if v.is_numlike and v.count_of else "?"
            return V("range", axis=ax)
        if b in ("float", "int", "abs"):
            return argv[0].copy(cval=argv[0].cval if b != "int" else None) if argv and argv[0].is_numlike else (argv[0] if argv else unk())
        if b in ("isinstance", "hasattr", "any", "all", "callable", "bool"):
            return V("bool")
        if b == "zip":
            return V("tuple", tup=tuple(argv), note="zip")
        if b == "enumerate":
            return V("tuple", tup=(argv[0],), note="enumerate")
        if b in ("list", "tuple", "sorted", "reversed", "iter"):
            return argv[0] if argv else (V("tuple", tup=()) if b == "tuple" else V("list", axis="empty"))
        if b == "next":
            v = argv[0] if argv else unk()
            if v.k == "list" and v.elem is not None:
                return v.elem
            return unk("next()")
        if b == "set":
            return V("set", elem=wild(()))
        if b == "sum":
            v = argv[0] if argv else unk()
            if v.k == "list":
                el = v.elem
                if el is None:
                    return unk("sum of empty list")
                if v.axis in ("B", "?1") and el.is_numlike:
                    # the builtin sum over a list of per-block values is the fold over the blocks (like reduce / np.sum(axis=0))
                    if v.axis == "B" and it.c.track_s and not el.wild and not el.is_unk and el.s == 0 and el.part:
                        it.violation("EXT.D4", e, f"per-block values of type {fmt(el)} are summed over the blocks although they are intensive (per-block averages)")
                    el = mark_part(el, False)
                return el
            return unk("sum()")
        if b in ("max", "min"):
            return argv[0] if argv else unk()
        if b in ("str", "repr", "print", "type", "id", "dict", "getattr", "setattr", "super"):
            return unk(b) if b in ("getattr", "dict", "super") else V("none")
    # ---- wrappers -------------------------------------------------------------------------------------
    if d in ("dask.compute",):
        return V("tuple", tup=tuple(argv)) if not starred else unk("dask.compute(*list)")
    if d in ("dask.delayed", "dask.delayed.delayed"):
        if args and (P.dotted(args[0], f) or "") in ("operator.add", "operator.iadd"):
            return V("func", note=P.dotted(args[0], f))  # a named task constructor: delayed_add = dask.delayed(operator.add)
        return argv[0] if argv else unk()
    if d == "functools.reduce" and len(argv) >= 2:
        opn = src(args[0])
        lst = argv[1]
        if lst.k == "list" and lst.elem is not None:
            it.c.facts.setdefault("reduce_sites", []).append((f.key, e, opn, lst))
            return mark_part(lst.elem, False)
        return unk("reduce over " + fmt(lst))
    if d in ("operator.add", "operator.iadd") and len(argv) >= 2:
        return it.binop(ast.Add(), argv[0], argv[1], e)
    if d in ("copy.deepcopy", "copy.copy"):
        return argv[0] if argv else unk()
    if d.startswith("numpy.random.") or d.startswith("dask.array.random."):
        return wild(None)
    # ---- numpy & friends ---------------------------------------------------------------------------------
    last = d.split(".")[-1] if d else name
    mod_ok = d.startswith(("numpy.", "dask.array.", "scipy.", "math.")) or not d
    if d in LOGSUMEXP or (last == "reduce" and "logaddexp" in d):
        axv, has = _axis_arg(it, e, env, kw, 1)
        axes = _axes_from(axv) if has else 0
        v = argv[0] if argv else kw.get("array", kw.get("a", unk()))
        return reduce_axes(it, v, axes, e, "lse")
    if d == "dask.array.reduction":
        x = kw.get("x", argv[0] if argv else unk())
        axes = _axes_from(kw.get("axis")) if "axis" in kw else None
        chunk = next((k.value for k in kws if k.arg == "chunk"), None)
        agg = next((k.value for k in kws if k.arg == "aggregate"), None)
        outs = []

        def _unpartial(fx):
            while isinstance(fx, ast.Call) and src(fx.func).split(".")[-1] == "partial" and fx.args:
                fx = fx.args[0]
            return fx
        chunk, agg = (_unpartial(chunk) if chunk is not None else None), (_unpartial(agg) if agg is not None else None)
        # a hand-written tree log-sum-exp: the aggregate step is a log-sum-exp of partial (maximum, scaled sum) states
        if agg is not None:
            for t in P.resolve_callee(agg, f):
                if t[0] == "repo" and _lse_cached(P, t[1])[0]:
                    it.c.facts.setdefault("lse_functions", set()).add(t[1].key)
                    return reduce_axes(it, x, axes, e, "lse")
        for fn in (chunk, agg):
            if fn is None:
                continue
            tg = P.resolve_callee(fn, f)
            got = None
            for t in tg:
                if t[0] == "repo":
                    got = it.call_repo(t[1], [x], {"axis": wild((), float(axes)) if isinstance(axes, int) else V("none")}, e)
                elif t[0] == "lib":
                    ln = t[1].split(".")[-1]
                    if t[1] in LOGSUMEXP or "logaddexp" in t[1]:
                        got = reduce_axes(it, x, axes, e, "lse")
                    elif ln in REDUCERS_EXT:
                        got = reduce_axes(it, x, axes, e, "sum")
                    elif ln in REDUCERS_INT:
                        got = reduce_axes(it, x, axes, e, "int")
            outs.append(got if got is not None else unk("da.reduction with unmodelled reducer"))
        out = outs[0] if outs else unk()
        for o in outs[1:]:
            out = it.join(out, o, e, name="da.reduction(chunk, aggregate)", strict=True)
        return out
    if d.endswith(".k_init"):
        mod_ok = True
    if not mod_ok and not isinstance(fexpr, ast.Name):
        return unk(f"call {src(fexpr)}")
    r = numpy_call(it, last, d, e, env, argv, kw, args)
    if r is not None and any_part(argv + list(kw.values())) and not r.part and not (argv and argv[0].k == "list" and argv[0].axis in ("B", "?1")):
        r = mark_part(r)
    return r


def array_method(it, base, m, e, env, argv, kw):
    if base is None:
        return unk(f"method {m} of an untyped value")
    if m in ("sum", "mean", "min", "max", "any", "all", "argmin", "argmax", "std", "var", "prod"):
        axv, has = _axis_arg(it, e, env, kw, 0)
        axes = _axes_from(axv) if has else None
        if m == "sum":
            return reduce_axes(it, base, axes, e, "sum")
        if m in ("mean", "min", "max"):
            return reduce_axes(it, base, axes, e, "int")
        if m in ("argmin", "argmax"):
            r = reduce_axes(it, base, axes, e, "arg")
            k = _removed_kind(base, axes)
            return V("num", sh=r.sh if r.is_numlike else None, index_of=k, wild=True)
        if m in ("any", "all"):
            r = reduce_axes(it, base, axes, e, "int")
            return V("bool", sh=r.sh if r.is_numlike else None)
        if m == "var":
            r = reduce_axes(it, base, axes, e, "int")
            return r.copy(u=lf_scale(r.u, 2)) if r.is_numlike else r
        return reduce_axes(it, base, axes, e, "int")
    if m in ("flatten", "ravel"):
        return flatten(base)
    if m in ("copy", "astype", "persist", "compute", "rechunk", "squeeze", "tolist", "item", "conj"):
        return base
    if m == "reshape":
        return reshape(it, base, e, env, argv)
    if m == "transpose":
        axes = [int(a.cval) for a in (argv[0].tup if argv and argv[0].k == "tuple" and argv[0].tup else argv) if a.is_numlike and a.cval is not None]
        return transpose(it, base, axes or None, e)
    if m == "repeat":
        axv = kw.get("axis")
        ax = _axes_from(axv) if axv is not None else None
        if base.sh is not None and isinstance(ax, int) and norm_axis(ax, len(base.sh)) is not None:
            cnt = argv[0].count_of if argv and argv[0].is_numlike and argv[0].count_of else "?"
            i = norm_axis(ax, len(base.sh))
            sh = list(base.sh)
            sh[i] = cnt if sh[i] == "1" else sh[i]
            return base.copy(sh=tuple(sh), cval=None)
        return base.copy(sh=None, cval=None)
    if m == "to_delayed":
        return V("list", axis="B", elem=base)
    if m == "map_blocks" and argv:
        fv = argv[0]
        tgt = it.P.resolve_pkg_name(fv.note) if fv.k == "func" and fv.note else None
        if tgt is not None and hasattr(tgt, "node"):
            extra_kw = {k_: v_ for k_, v_ in kw.items() if k_ not in ("dtype", "chunks", "meta", "drop_axis", "new_axis", "name", "token", "enforce_ndim", "align_arrays")}
            return it.call_repo(tgt, [base] + list(argv[1:]), extra_kw, e)
        return unk("map_blocks with an unresolved function")
    if m == "dot":
        return it.matmul(base, argv[0], e) if argv else unk()
    if m == "fill":
        return V("none")
    if base.is_numlike and base.wild and base.sh is None:
        return wild(None)  # a method of a polymorphic library object (e.g. RandomState(seed).normal(...))
    return unk(f"array method {m}")


def _removed_kind(v, axes):
    if v.sh is None or axes in (None, "?"):
        return "?"
    a = norm_axis(axes if isinstance(axes, int) else axes[0], len(v.sh))
    return v.sh[a] if a is not None else "?"


def flatten(v):
    if not v.is_numlike:
        return v
    if v.sh == ("C", "D"):
        return v.copy(sh=("F",), cval=None)
    if v.sh is not None and len(v.sh) <= 1:
        return v
    return v.copy(sh=("?",) if v.sh is not None else None, cval=None)


def reshape(it, base, e, env, argv):
    if not base.is_numlike:
        return base
    tgt = argv[0].tup if argv and argv[0].k == "tuple" and argv[0].tup is not None else argv
    kinds = []
    for a in tgt:
        if a.is_numlike and a.count_of:
            kinds.append(a.count_of)
        elif a.is_numlike and a.cval == -1:
            kinds.append("?")
        elif a.is_numlike and a.wild and a.cval == 1:
            kinds.append("1")
        else:
            kinds.append("?")
    # (C*D, r) -> F
    src_txt = src(e)
    out = tuple(kinds) if kinds else None
    if out == ("1", "D") and base.sh == ("D",):
        out = ("N", "D")  # a single feature vector reshaped to one row: a batch of one sample
    return base.copy(sh=out, cval=None)


def transpose(it, v, axes, node):
    if not v.is_numlike or v.sh is None:
        return v
    n = len(v.sh)
    if axes is None:
        return v.copy(sh=tuple(reversed(v.sh)), cval=None)
    if sorted(axes) != list(range(n)):
        it.violation("DIM.SHAPE", node, f"transpose axes {axes} are not a permutation of the {n} axes {list(v.sh)}")
        return v.copy(sh=None)
    return v.copy(sh=tuple(v.sh[a] for a in axes), cval=None)


def numpy_call(it, fn, d, e, env, argv, kw, args):
    a0 = argv[0] if argv else None
    if fn == "shape" and a0 is not None and a0.is_numlike:
        if a0.sh is None:
            return V("tuple", tup=None, note="shape")
        tp = tuple(V("num", count_of=a, s=1 if (a == "N" and it.c.track_s) else 0, sh=()) for a in a0.sh)
        for x in tp:
            x.part = a0.part
        return V("tuple", tup=tp, note="shape")
    if fn == "atleast_2d" and a0 is not None and a0.is_numlike and a0.sh is not None and len(a0.sh) == 1:
        return a0.copy(sh=("N",) + tuple(a0.sh))  # a single vector becomes a batch of one sample
    if fn in ("atleast_2d", "atleast_1d", "asarray", "asanyarray", "ascontiguousarray", "squeeze", "nan_to_num", "abs", "absolute", "fabs", "copy", "float64", "real") and not (fn in ("asarray", "asanyarray") and a0 is not None and a0.k in ("list", "tuple")):
        return a0 if a0 is not None else unk()
    if fn == "arange" and argv:
        cnt = argv[-1] if len(argv) <= 2 else argv[1]
        ax = cnt.count_of if cnt.is_numlike and cnt.count_of else "?"
        return V("num", wild=True, index_of=ax, sh=(ax,))
    if fn in ("array", "asarray", "asanyarray") and a0 is not None and a0.k in ("list", "tuple"):
        fn = "array"
    if fn == "array":
        if a0 is None:
            return unk()
        if a0.k == "list":
            el = a0.elem
            if el is None:
                return wild(None)
            if el.is_numlike:
                ax_ = (a0.axis if a0.axis not in (None, "empty") else "?")
                if el.sh is None and el.wild:
                    return el.copy(sh=(ax_,), cval=None, count_of=None, index_of=None)  # an array of labels / scalars: one axis, that of the list
                return el.copy(sh=(ax_,) + tuple(el.sh) if el.sh is not None else None, cval=None, count_of=None, index_of=None)
            return unk("array of " + fmt(el))
        return a0
    if fn == "column_stack" and a0 is not None and a0.k == "list" and a0.elem is not None and a0.elem.is_numlike and a0.elem.sh is not None and len(a0.elem.sh) == 1:
        return a0.elem.copy(sh=(a0.elem.sh[0], a0.axis if a0.axis not in (None, "empty") else "?"), cval=None)
    if fn in ("vstack", "stack", "concatenate", "hstack"):
        if a0 is not None and a0.k == "list" and a0.elem is not None and a0.elem.is_numlike:
            el = a0.elem
            ax = a0.axis if a0.axis not in (None, "empty") else "?"
            if fn == "concatenate":
                return mark_part(el, False) if a0.axis in ("B", "?1") else el
            if fn == "vstack" and el.sh is not None and len(el.sh) >= 2:
                return el  # stacking along an existing first axis
            if fn == "vstack" and el.sh is not None and len(el.sh) == 0:
                return el.copy(sh=(ax, "1"))
            if fn == "stack" and el.sh is not None and ("axis" in kw or len(argv) > 1):
                axv_ = kw.get("axis", argv[1] if len(argv) > 1 else None)
                j_ = _axes_from(axv_) if axv_ is not None else 0
                if isinstance(j_, int):
                    n_ = len(el.sh) + 1
                    j_ = j_ if j_ >= 0 else n_ + j_
                    if 0 <= j_ < n_:
                        sh_ = list(el.sh)
                        sh_.insert(j_, ax)
                        return el.copy(sh=tuple(sh_), cval=None)
                return el.copy(sh=None, cval=None)
            if fn == "hstack" and el.sh is not None and len(el.sh) >= 2:
                return el.copy(sh=None, cval=None)
            return el.copy(sh=(ax,) + tuple(el.sh) if el.sh is not None else None, cval=None)
        return unk(fn + " of " + (fmt(a0) if a0 else "?"))
    if fn in ("zeros", "ones", "empty", "full", "eye", "identity", "zeros_like", "ones_like", "full_like", "empty_like"):
        zero = 0.0 if fn in ("zeros", "zeros_like") else (1.0 if fn in ("ones", "eye", "identity") else None)  # zeros are zero in every dimension; ones / the identity are the pure number one
        if fn.endswith("_like") and a0 is not None and a0.is_numlike:
            return wild(a0.sh, zero)
        sh = None
        shv = kw.get("shape", a0)
        if shv is not None and shv.k == "tuple" and shv.tup is not None:
            sh = tuple(x.count_of if (x.is_numlike and x.count_of) else "?" for x in shv.tup)
        elif shv is not None and shv.is_numlike and shv.count_of:
            sh = (shv.count_of,)
        if fn in ("eye", "identity"):
            k = a0.count_of if a0 is not None and a0.is_numlike and a0.count_of else "?"
            sh = (k, k)
        return wild(sh, zero)
    if fn in ("exp", "expm1"):
        if a0 is None:
            return unk()
        if a0.k == "log":
            r = V("num", a0.u, a0.s, a0.sh)
            r.naive_exp = a0.u != ZERO
            return r
        if a0.is_numlike and a0.note == "shared-shift":
            it.violation("DIM.LOGDOM", e, "the log-densities of a whole block of samples are shifted by one value common to all samples (e.g. the block-wide maximum) before exponentiating: a sample whose log-density lies more than ~745 below that value underflows to 0 and gets log-likelihood -inf; the shift must be taken per sample (over the component axis only)")
        if a0.is_numlike and (a0.wild or (a0.u == ZERO and a0.s == 0)):
            return a0.copy(cval=None)
        if a0.is_unk:
            return a0
        it.violation("DIM.D3", e, f"exp of {fmt(a0)}, which is neither a log-domain value nor a pure number")
        return unk("exp of dimensioned")
    if fn in ("log", "log1p"):
        if a0 is None:
            return unk()
        if a0.is_unk:
            return a0
        if a0.k == "log":
            it.violation("DIM.D3", e, f"log of a value that is already in the log domain: {fmt(a0)}")
            return unk("log of log")
        if a0.wild:
            import math
            return wild(a0.sh, math.log(a0.cval) if a0.cval and a0.cval > 0 else None)
        if a0.u == ZERO and a0.s == 0:
            return a0.copy(cval=None)
        r = V("log", a0.u, 0, a0.sh)
        import math
        r.lconst = None if (a0.mconst is None or a0.mconst <= 0) else math.log(a0.mconst)
        return r
    if fn in ("sqrt", "power", "float_power", "square"):
        if a0 is None or not a0.is_numlike:
            return unk()
        if fn == "sqrt":
            r_ = it.power(a0, wild((), 0.5), a0.sh, e)
        elif fn == "square":
            r_ = it.power(a0, wild((), 2.0), a0.sh, e)
        else:
            if len(argv) < 2:
                return unk()
            r_ = it.power(a0, argv[1], bshape(a0.sh, argv[1].sh, e)[0] if argv[1].is_numlike else None, e)
        # translation weight: a power of something that moves with the offset is not a shift-structured quantity
        from .dim import _sw as _swf
        w_ = _swf(a0)
        if r_ is not None and r_.is_numlike and w_ is not None:
            r_ = r_.copy()
            r_.sw = 0 if w_ == 0 else "N"
        return r_
    if fn in ("multiply", "divide", "true_divide", "add", "subtract", "matmul", "dot"):
        if len(argv) < 2:
            return unk()
        op = {"multiply": ast.Mult(), "divide": ast.Div(), "true_divide": ast.Div(), "add": ast.Add(), "subtract": ast.Sub(), "matmul": ast.MatMult(), "dot": ast.MatMult()}[fn]
        return it.binop(op, argv[0], argv[1], e)
    if fn in ("maximum", "minimum", "fmax", "fmin"):
        if len(argv) < 2:
            return unk()
        a, b = argv[0], argv[1]
        if a.is_numlike and b.is_numlike:
            it.agree(a, b, e, fn)
            sh, bad = vshape(a, b)
            base = b if a.wild else a
            return base.copy(sh=sh, cval=None)
        return a if a.is_numlike else b
    if fn == "clip":
        if a0 is None:
            return unk()
        for o in argv[1:] + [kw[k] for k in ("a_min", "a_max", "min", "max") if k in kw]:
            if o.is_numlike and a0.is_numlike:
                it.agree(a0, o, e, "clip bound")
        return a0.copy(cval=None) if a0.is_numlike else a0
    if fn in ("argsort", "lexsort") and a0 is not None:
        base_ = a0 if a0.is_numlike else (a0.elem if a0.k in ("list", "tuple") and getattr(a0, "elem", None) is not None else None)
        sh_ = a0.sh if a0.is_numlike else None
        return V("num", wild=True, index_of=(sh_[0] if sh_ else (a0.axis if a0.k == "list" and a0.axis else "?")), sh=sh_ if sh_ else ("?",))
    if fn in ("flatnonzero", "argwhere") and a0 is not None:
        return V("num", wild=True, index_of=(a0.sh[0] if a0.sh else "?"), sh=("?",))
    if fn == "nonzero" and a0 is not None:
        return V("tuple", tup=(V("num", wild=True, index_of=(a0.sh[0] if a0.sh else "?"), sh=("?",)),))
    if fn in ("split", "array_split") and a0 is not None and a0.is_numlike:
        return V("list", axis="?", elem=a0.copy(sh=(("?",) + tuple(a0.sh[1:])) if a0.sh else None, cval=None))
    if fn == "where":
        if len(argv) == 1:
            return V("tuple", tup=(V("num", wild=True, index_of=(argv[0].sh[0] if argv[0].sh else "?"), sh=("?",)),))
        if len(argv) == 3:
            c, a, b = argv
            if a.is_numlike and b.is_numlike:
                it.agree(a, b, e, "np.where arms")
                sh, bad = vshape(a, b)
                if c.sh is not None and sh is not None:
                    sh, bad2 = bshape(sh, c.sh, e)
                    if bad2:
                        it.violation("DIM.SHAPE", e, bad2)
                base = b if a.wild else a
                return base.copy(sh=sh, cval=None)
            return a if a.is_numlike else b
        return unk("where")
    if fn in ("sum", "nansum", "mean", "nanmean", "min", "max", "amin", "amax", "median", "argmin", "argmax", "any", "all", "std", "var", "prod"):
        if a0 is None:
            return unk()
        axv, has = _axis_arg(it, e, env, kw, 1)
        axes = _axes_from(axv) if has else None
        if a0.k == "list":
            # np.sum(list of per-block arrays, axis=0): a fold over the list axis
            el = a0.elem
            if el is None:
                return unk("reduction of empty list")
            if fn in ("sum",) and axes == 0:
                if a0.axis in ("B", "?1"):
                    it.c.fold_sites.append((it.f.key, e, el))
                    if it.c.track_s and el.is_numlike and not el.wild and el.s == 0:
                        it.violation("EXT.D4", e, f"per-block values of type {fmt(el)} are summed over the blocks: they are intensive (S^0)")
                    elif el.is_numlike and not el.wild:
                        it.ok("EXT.D4", e, f"block partial {fmt(el)} is extensive")
                    return mark_part(el, False)
                return el
            return unk(f"{fn} of list")
        if fn in ("sum", "nansum"):
            return reduce_axes(it, a0, axes, e, "sum")
        if fn in ("argmin", "argmax"):
            r = reduce_axes(it, a0, axes, e, "arg")
            return V("num", sh=r.sh if r.is_numlike else None, index_of=_removed_kind(a0, axes), wild=True)
        if fn in ("any", "all"):
            r = reduce_axes(it, a0, axes, e, "int")
            return V("bool", sh=r.sh if r.is_numlike else None)
        if fn == "var":
            r = reduce_axes(it, a0, axes, e, "int")
            return r.copy(u=lf_scale(r.u, 2)) if r.is_numlike else r
        return reduce_axes(it, a0, axes, e, "int")
    if fn == "at" and d.split(".")[-2:-1] == ["add"] and len(argv) >= 3 and args and isinstance(args[0], ast.Name):
        # np.add.at(acc, idx, vals): scatter-add - acc[k] += sum of the vals whose index is k (a grouped sum over the first axis)
        acc, vals = argv[0], argv[2]
        if vals.is_numlike and acc.is_numlike:
            r = reduce_axes(it, vals, 0, e, "sum") if vals.sh else vals
            if r.is_numlike and not r.is_unk:
                if not acc.wild and not r.wild and acc.dim_key() != r.dim_key():
                    it.violation("DIM.D1", e, f"scatter-add of {fmt(r)} into an accumulator of {fmt(acc)}")
                env[args[0].id] = r.copy(sh=acc.sh, cval=None) if acc.wild or acc.dim_key() == r.dim_key() else acc
        return V("none")
    if fn == "at" and len(argv) >= 2:
        return V("none")
    if fn == "reduceat" and d.split(".")[-2:-1] == ["add"] and a0 is not None and a0.is_numlike:
        axv, has = _axis_arg(it, e, env, kw, 2)
        ax = _axes_from(axv) if has else 0
        if ax != 0 and not (isinstance(ax, int) and a0.sh and norm_axis(ax, len(a0.sh)) == 0):
            return unk("reduceat over an axis other than the first")
        r = reduce_axes(it, a0, 0, e, "sum") if a0.sh else a0
        return r.copy(sh=("?",) + tuple(r.sh) if r.sh is not None else None) if r.is_numlike else r
    if fn == "diff" and a0 is not None and a0.is_numlike:
        return a0.copy(cval=None, count_of=None, index_of=None, sh=a0.sh if a0.sh is None else tuple("?" if i == len(a0.sh) - 1 else k for i, k in enumerate(a0.sh)))
    if fn == "cumsum" and a0 is not None and a0.is_numlike:
        return a0.copy(cval=None, count_of=None)
    if fn == "bincount" and "weights" in kw and kw["weights"].is_numlike:
        w = kw["weights"]
        return V("num", w.u, w.s + (1 if it.c.track_s else 0), ("?",), kk=w.kk) if not w.wild else wild(("?",))
    if fn == "bincount":
        ml = kw.get("minlength", argv[2] if len(argv) > 2 else None)
        par_ = getattr(e, "_parent", None)
        if ml is None and "weights" not in kw and len(argv) < 2 and not (isinstance(par_, ast.Subscript) and par_.value is e):
            it.violation("DIM.SHAPE", e, f"`{src(e)[:60]}` has no minlength: its length is the largest label present plus one, so the per-class count is shorter than the number of classes whenever the last classes are absent (an empty cluster, a block without samples of them) - adding or dividing it against a per-class array then fails or broadcasts wrongly")
        k = ml.count_of if ml is not None and ml.is_numlike and ml.count_of else (a0.index_of if a0 is not None and a0.index_of else "?")
        s = 1 if it.c.track_s else 0
        if a0 is not None and a0.sh is not None and a0.sh and a0.sh[0] != "N" and it.c.track_s:
            s = 1 if a0.sh[0] == "N" else 0
        return V("num", ZERO, s, (k,))
    if fn == "cdist":
        if len(argv) >= 2 and argv[0].is_numlike and argv[1].is_numlike:
            a, b = argv[0], argv[1]
            metric = kw.get("metric", argv[2] if len(argv) > 2 else None)
            mt = metric.note if metric is not None and metric.k == "str" else "euclidean"
            it.agree(a, b, e, "cdist operands")
            base = b if a.wild else a
            p = 2 if mt == "sqeuclidean" else 1
            sh = None
            if a.sh is not None and b.sh is not None and len(a.sh) == 2 and len(b.sh) == 2:
                sh = (a.sh[0], b.sh[0])
            r = V("num", lf_scale(base.u, p), 0, sh, wild=base.wild)
            if a.sw is not None and b.sw is not None:
                r.sw = 0 if (a.sw in (0, 1) and a.sw == b.sw) else "N"
            return r
        return unk("cdist")
    if fn == "transpose":
        axv = kw.get("axes", argv[1] if len(argv) > 1 else None)
        axes = _axes_from(axv) if axv is not None else None
        return transpose(it, a0, list(axes) if isinstance(axes, tuple) else None, e) if a0 is not None else unk()
    if fn in ("moveaxis", "rollaxis"):
        if a0 is not None and a0.is_numlike and a0.sh is not None and len(argv) >= 3 and argv[1].cval is not None and argv[2].cval is not None and fn == "moveaxis":
            n_ = len(a0.sh)
            i, j = norm_axis(int(argv[1].cval), n_), norm_axis(int(argv[2].cval), n_)
            if i is not None and j is not None:
                sh = list(a0.sh)
                ax = sh.pop(i)
                sh.insert(j, ax)
                return a0.copy(sh=tuple(sh), cval=None)
        return a0.copy(sh=None, cval=None) if a0 is not None and a0.is_numlike else unk()
    if fn == "swapaxes":
        if a0 is not None and a0.is_numlike and a0.sh is not None and len(argv) >= 3 and argv[1].cval is not None and argv[2].cval is not None:
            i, j = norm_axis(int(argv[1].cval), len(a0.sh)), norm_axis(int(argv[2].cval), len(a0.sh))
            if i is not None and j is not None:
                sh = list(a0.sh)
                sh[i], sh[j] = sh[j], sh[i]
                return a0.copy(sh=tuple(sh), cval=None)
        return a0.copy(sh=None) if a0 is not None and a0.is_numlike else unk()
    if fn == "tensordot":
        if len(argv) >= 2 and argv[0].is_numlike and argv[1].is_numlike:
            a, b = argv[0], argv[1]
            axv = kw.get("axes", argv[2] if len(argv) > 2 else None)
            n = int(axv.cval) if axv is not None and axv.cval is not None else None
            res = it.binop(ast.Mult(), a.copy(sh=()), b.copy(sh=()), e)
            sh = None
            if n is not None and a.sh is not None and b.sh is not None and len(a.sh) >= n and len(b.sh) >= n:
                ka, kb = a.sh[len(a.sh) - n:], b.sh[:n]
                bad = [(x, y) for x, y in zip(ka, kb) if x != y and "?" not in (x, y)]
                if bad:
                    it.violation("DIM.SHAPE", e, f"tensordot contracts axes {list(ka)} with {list(kb)} ({list(a.sh)} . {list(b.sh)}): the contraction pairs different kinds of axes")
                sh = tuple(a.sh[:len(a.sh) - n]) + tuple(b.sh[n:])
                if it.c.track_s and "N" in ka:
                    res = res.copy(s=res.s + 1) if res.is_numlike else res
            elif n is None:
                sh = None
            return res.copy(sh=sh) if res.is_numlike else res
        return unk("tensordot")
    if fn == "einsum":
        ops = [v for v in argv if v.is_numlike]
        if any(v.is_unk for v in argv):
            return unk("einsum with an untyped operand")
        out = None
        for v in ops:
            out = v.copy(sh=()) if out is None else it.binop(ast.Mult(), out, v.copy(sh=()), e)
        if out is None or not out.is_numlike:
            return unk("einsum")
        spec = argv[0].note if argv and argv[0].k == "str" else None
        sh = None
        if spec and "->" in spec:
            ins, outl = spec.replace(" ", "").split("->")
            ins = ins.split(",")
            kinds = {}
            ok = len(ins) == len(ops)
            for letters, v in zip(ins, ops):
                if v.sh is None or len(letters) != len(v.sh):
                    ok = False
                    break
                for l_, k_ in zip(letters, v.sh):
                    if l_ in kinds and kinds[l_] != k_ and "?" not in (k_, kinds[l_]) and "1" not in (k_, kinds[l_]):
                        it.violation("DIM.SHAPE", e, f"einsum index `{l_}` pairs axis kinds {kinds[l_]} and {k_}")
                    kinds.setdefault(l_, k_)
            if ok:
                sh = tuple(kinds.get(l_, "?") for l_ in outl)
                contracted = set("".join(ins)) - set(outl)
                if it.c.track_s and any(kinds.get(l_) == "N" for l_ in contracted):
                    out = out.copy(s=out.s + 1)
        return out.copy(sh=sh)
    if fn == "outer":
        if len(argv) >= 2 and (argv[0].is_unk or argv[1].is_unk):
            return unk("outer with an untyped operand")
        if len(argv) >= 2:
            r = it.binop(ast.Mult(), argv[0].copy(sh=()) if argv[0].is_numlike else argv[0], argv[1].copy(sh=()) if argv[1].is_numlike else argv[1], e)
            return r.copy(sh=None) if r.is_numlike else r
    if fn in ("inv", "pinv"):
        if a0 is not None and a0.is_numlike:
            if a0.wild:
                return a0
            r_ = V("num", lf_scale(a0.u, -1), -a0.s, a0.sh, kk=-a0.kk)
            r_.sw = a0.sw if a0.sw in (0, "N") else None  # invariant stays invariant, contaminated stays contaminated
            return r_
        return unk("inv")
    if fn == "solve":
        if len(argv) >= 2 and argv[0].is_numlike and argv[1].is_numlike:
            inv = argv[0] if argv[0].wild else V("num", lf_scale(argv[0].u, -1), -argv[0].s, argv[0].sh, kk=-argv[0].kk)
            return it.matmul(inv, argv[1], e)
        return unk("solve")
    if fn == "cholesky":
        if a0 is not None and a0.is_numlike:
            if a0.wild:
                return a0
            r_ = V("num", lf_scale(a0.u, Fr(1, 2)), a0.s / 2, a0.sh, kk=a0.kk / 2)
            r_.sw = a0.sw if a0.sw in (0, "N") else None
            return r_
        return unk("cholesky")
    if fn == "cov":
        if a0 is not None and a0.is_numlike:
            r_ = V("num", lf_scale(a0.u, 2), 0, None, wild=a0.wild)
            r_.sw = 0 if a0.sw is not None else None  # np.cov centres the data: invariant under a common shift
            return r_
        return unk("cov")
    if fn == "tile" and a0 is not None and a0.is_numlike:
        cnt = argv[1] if len(argv) > 1 else kw.get("reps")
        if a0.sh == ("C",) and cnt is not None and cnt.is_numlike and cnt.count_of == "D":
            it.violation("DIM.LAYOUT", e, f"`{src(e)[:50]}` expands a per-component vector to supervector length by tiling: element c*D + d of a supervector belongs to component c (the layout of `flatten()` on a (components, features) array), tiling puts component (c*D + d) mod C there; use np.repeat")
            return a0.copy(sh=("F",), cval=None, count_of=None)
        if a0.sh == ("D",) and cnt is not None and cnt.is_numlike and cnt.count_of == "C":
            return a0.copy(sh=("F",), cval=None, count_of=None)
        return a0.copy(sh=None, cval=None, count_of=None)
    if fn == "repeat":
        if a0 is not None and a0.is_numlike:
            cnt = argv[1] if len(argv) > 1 else kw.get("repeats")
            if a0.sh == ("D",) and cnt is not None and cnt.is_numlike and cnt.count_of == "C" and "axis" not in kw:
                it.violation("DIM.LAYOUT", e, f"`{src(e)[:50]}` expands a per-feature vector to supervector length by repeating each element: element c*D + d of a supervector is feature d, repeating puts feature (c*D + d) div C there; use np.tile")
            if a0.sh == ("C",) and cnt is not None and cnt.is_numlike and cnt.count_of == "D":
                return a0.copy(sh=("F",), cval=None, count_of=None)
            return a0.copy(sh=None if a0.sh not in ((), ("1",)) else a0.sh, cval=None, count_of=None)
        return unk("repeat")
    if fn == "diagonal":
        return a0.copy(sh=None, cval=None) if a0 is not None and a0.is_numlike else unk()
    if fn == "expand_dims" and a0 is not None and a0.is_numlike and a0.sh is not None:
        axv = kw.get("axis", argv[1] if len(argv) > 1 else None)
        if axv is not None and axv.cval is not None:
            n_ = len(a0.sh) + 1
            j = int(axv.cval)
            j = j if j >= 0 else n_ + j
            if 0 <= j < n_:
                sh = list(a0.sh)
                sh.insert(j, "1")
                if tuple(sh) == ("1", "D"):
                    sh[0] = "N"  # a single feature vector given a leading axis: a batch of one sample
                return a0.copy(sh=tuple(sh), cval=None)
    if fn in ("expand_dims", "broadcast_to", "reshape", "squeeze"):
        return a0.copy(sh=None, cval=None) if a0 is not None and a0.is_numlike else unk()
    if fn == "isclose" or fn == "allclose" or fn == "array_equal":
        if fn != "array_equal" and len(argv) >= 2:
            atol = kw.get("atol", argv[3] if len(argv) > 3 else None)
            default_atol = atol is None  # numpy's default is the absolute 1e-8
            literal_atol = atol is not None and atol.is_numlike and atol.wild and atol.cval not in (None, 0, 0.0)
            for d_ in argv[:2]:
                if d_.is_numlike and not d_.wild and not d_.is_unk and d_.k == "num" and d_.u != ZERO and (default_atol or literal_atol):
                    it.violation("DIM.ABS", e, f"`{src(e)[:60]}` tests a quantity of dimension {fmt(d_.copy(sh=None, s=0))} with an absolute tolerance ({'numpy default 1e-8' if default_atol else 'literal'}): the outcome changes when the features are expressed in another unit")
                    break
        return V("bool")
    if fn in ("finfo",):
        return V("func", note="finfo")
    if fn == "unique_labels" or fn == "unique":
        return V("list", axis="L", elem=wild(()))
    if fn == "k_init":
        x = kw.get("X", a0)
        return x.copy(sh=("C", "D"), cval=None) if x is not None and x.is_numlike else unk("k_init")
    if fn in ("check_consistent_length",):
        return V("none")
    return unk(f"unmodelled call {d or fn}")
