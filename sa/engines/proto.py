"""PROTO: training-protocol rules for the Dask paths (DESIGN 3.4): BRANCH, COPYBACK, PURE, CHUNK, COVER."""
from __future__ import annotations

import ast

from ..dataflow import cone, get_defuse, setattr_expansions, stores
from ..frontend import const_value, src, walk_no_nested

SWITCH_CALLS = ("is_input_dask_nested", "check_and_persist_dask_input")


def _dask_type_test(test):
    return any(isinstance(c, ast.Call) and isinstance(c.func, ast.Name) and c.func.id == "isinstance" and len(c.args) == 2 and any(isinstance(x, ast.Name) and x.id in ("dask", "da") for x in ast.walk(c.args[1])) for c in ast.walk(test))


def is_switch(test, P=None, f=None, _depth=0):
    """Is this `if` test the "is the input a Dask collection?" switch?  Decided by where the tested value comes from
    (the repository's two detection helpers, or a flag set under an isinstance-dask test), not by its name."""
    if isinstance(test, ast.Call) and isinstance(test.func, ast.Name) and test.func.id == "is_input_dask_nested":
        return True
    if isinstance(test, ast.UnaryOp) and isinstance(test.op, ast.Not):
        return is_switch(test.operand, P, f, _depth)
    if isinstance(test, ast.Constant) and isinstance(test.value, bool) and f is not None:
        # a literal flag (`return True, data`): it is the switch when the path it stands on is decided by an isinstance-dask test
        st_ = test
        while st_ is not None and not isinstance(st_, ast.stmt):
            st_ = getattr(st_, "_parent", None)
        if st_ is None:
            return False
        from ..cfg import guards_of

        pol_ = None
        for t_, p_ in guards_of(st_):
            neg = False
            while isinstance(t_, ast.UnaryOp) and isinstance(t_.op, ast.Not):
                t_, neg = t_.operand, not neg
            if _dask_type_test(t_):
                pol_ = p_ != neg
        return pol_ is not None and pol_ == test.value
    if not isinstance(test, ast.Name) or f is None:
        return False
    du = get_defuse(f, P)
    st = du.stmt_of(test)
    rd = [d for d in du.reaching(st, test.id)]
    if not rd:
        return False
    flag_true = flag = 0
    for d in rd:
        v = d.value
        if d.how == "param" and d.var == "input_is_dask":
            continue  # interface name of utils.array_to_delayed_list
        if isinstance(v, ast.Call) and isinstance(v.func, ast.Name) and v.func.id == "is_input_dask_nested" and d.how == "assign":
            continue
        if isinstance(v, ast.Call) and d.how in ("assign", "unpack") and P is not None and _depth < 3:
            # a repository helper that returns the switch (possibly as one component of a tuple)
            tg = [t[1] for t in P.resolve_callee(v.func, f) if t[0] == "repo"]
            if tg:
                rets = [r for r in walk_no_nested(tg[0].node) if isinstance(r, ast.Return) and r.value is not None]
                okc = bool(rets)
                for r in rets:
                    rv = r.value
                    if d.how == "unpack":
                        if not (isinstance(rv, ast.Tuple) and d.index is not None and d.index < len(rv.elts)):
                            okc = False
                            break
                        rv = rv.elts[d.index]
                    if not is_switch(rv, P, tg[0], _depth + 1):
                        okc = False
                        break
                if okc:
                    continue
        if d.how == "assign" and v is not None and _dask_type_test(v) and isinstance(v, ast.Call):
            continue  # flag = isinstance(X, dask...)
        if d.how == "assign" and isinstance(v, ast.Constant) and isinstance(v.value, bool):
            flag += 1
            if v.value:
                from ..cfg import guards_of

                if any(pol and _dask_type_test(t) for t, pol in guards_of(d.stmt)):
                    flag_true += 1
                else:
                    return False
            continue
        return False
    return flag == 0 or flag_true > 0


def switch_sites(P, f):
    """The two-armed Dask / in-memory switches of f.  `if <switch>: A` whose arm ends in return / raise, followed by B, is the same
    switch with B as the other arm: it is returned as a synthetic If (attribute _orig = the real statement, for CFG queries)."""
    out = []
    for n in walk_no_nested(f.node):
        if not (isinstance(n, ast.If) and is_switch(n.test, P, f)):
            continue
        if n.orelse:
            out.append(n)
            continue
        if n.body and isinstance(n.body[-1], (ast.Return, ast.Raise)):
            par = getattr(n, "_parent", None)
            rest = []
            for fld in ("body", "orelse", "finalbody"):
                blk = getattr(par, fld, None)
                if isinstance(blk, list) and n in blk:
                    rest = blk[blk.index(n) + 1:]
            if rest:
                t_, body_, rest_ = n.test, n.body, rest
                if isinstance(t_, ast.UnaryOp) and isinstance(t_.op, ast.Not):
                    t_, body_, rest_ = t_.operand, rest, n.body  # `if not dask: <in-memory>; return` + <dask part>
                syn = ast.If(test=t_, body=body_, orelse=rest_)
                ast.copy_location(syn, n)
                syn._parent = par
                syn._orig = n
                syn._members = {id(x) for st in n.body + rest for x in ast.walk(st)} | {id(n)}
                out.append(syn)
    # canonical orientation: the first arm is the Dask arm (sa/canon.py already turned `if not c: A else: B` around)
    return out


def task_mapper(P, g):
    """Name of the parameter of helper g that g wraps in dask.delayed and calls (a 'one task per element' mapper), else None."""
    ps = set(g.params)
    for c in walk_no_nested(g.node):
        if isinstance(c, ast.Call) and isinstance(c.func, ast.Call) and (P.dotted(c.func.func, g) or "").endswith("delayed") and c.func.args and isinstance(c.func.args[0], ast.Name) and c.func.args[0].id in ps:
            return c.func.args[0].id
    return None


def mapped_tasks(P, f, c):
    """[(kernel Func, bound args)] when call c hands a function of the package to a task mapper helper."""
    out = []
    for t_ in P.resolve_callee(c.func, f):
        if t_[0] != "repo":
            continue
        g = t_[1]
        fp = task_mapper(P, g)
        if fp is None:
            continue
        b = P.bind_args(g, c.args, c.keywords)
        if fp not in b:
            continue
        for h_ in P.resolve_callee(b[fp], f):
            if h_[0] == "repo":
                h = h_[1]
                # arguments: what the helper forwards by keyword (**kwargs of the call) plus the caller's arguments it maps over
                bound = {k.arg: k.value for k in c.keywords if k.arg and k.arg not in g.params}
                for p_, a_ in b.items():
                    if p_ != fp and p_ in h.params:
                        bound.setdefault(p_, a_)
                out.append((h, bound))
    return out


def kernel_calls(P, f, stmts):
    """Repository callees invoked in a statement list, wrappers peeled: [(callee Func, call node, bound args, is_task)]"""
    out = []
    for st in stmts:
        for c in walk_no_nested(st):
            if not isinstance(c, ast.Call):
                continue
            kind, fexpr, args, kws = P.peel_call(c, f)
            if kind == "plain" and isinstance(c.func, ast.Call):
                continue
            d = P.dotted(fexpr, f) or ""
            if d in ("dask.delayed", "dask.compute", "dask.optimize"):
                continue
            mt = mapped_tasks(P, f, c) if kind == "plain" else []
            if mt:
                for h, bound in mt:
                    out.append((h, c, bound, True))  # one task of h per element: the helper itself is plumbing
                continue
            if kind == "plain" and isinstance(getattr(c, "_parent", None), ast.Call) and c._parent.func is c:
                continue  # dask.delayed(f) itself
            tg = [t[1] for t in P.resolve_callee(fexpr, f) if t[0] == "repo"]
            if not tg and d in ("operator.add", "operator.iadd"):
                out.append((d, c, {}, kind == "task"))
                continue
            for callee in tg[:1]:
                out.append((callee, c, P.bind_args(callee, args, kws), kind == "task"))
    return out


PLUMBING_CALLS = {"len", "range", "list", "tuple", "zip", "iter", "next", "enumerate", "reversed", "delayed", "add", "iadd", "reduce", "append", "extend", "pop", "isinstance", "TypeError", "ValueError"}


def is_fold_helper(P, f):
    """A helper that only rearranges / sums its arguments: every call in it is list plumbing or operator.add / iadd (possibly as a
    Dask task), and it does no array arithmetic of its own (index arithmetic on lengths aside).  Such a helper is not a kernel:
    the in-memory arm, which has a single partial result, needs no counterpart."""
    for n in walk_no_nested(f.node):
        if isinstance(n, ast.Call):
            fn = n.func
            while isinstance(fn, ast.Call):  # dask.delayed(operator.add)(a, b)
                fn = fn.func
            name = fn.attr if isinstance(fn, ast.Attribute) else (fn.id if isinstance(fn, ast.Name) else None)
            if name not in PLUMBING_CALLS:
                tg = [t for t in P.resolve_callee(n.func, f) if t[0] == "repo"]
                if not (tg and all(is_fold_helper(P, t[1]) for t in tg if t[1] is not f)):
                    return False
        if isinstance(n, ast.Attribute) and n.attr not in ("append", "extend", "pop", "delayed", "add", "iadd", "reduce", "shape") and not isinstance(getattr(n, "_parent", None), ast.Call):
            return False
    return True


def stable_roots(P, f, du, expr, site, stmt=None, depth=0):
    """What an argument derives from, expressed in names that exist before the switch: parameters, self attributes,
    locals defined before the site.  Locals defined inside the arm and comprehension variables are resolved."""
    stmt = stmt or du.stmt_of(expr)
    out = set()
    scope = {}

    def inside(st):
        p = st
        while p is not None:
            if p is site or id(p) in getattr(site, "_members", ()):
                return True
            p = getattr(p, "_parent", None)
        return False

    def comp_bind(node):
        p = getattr(node, "_parent", None)
        child = node
        while p is not None and not isinstance(p, (ast.FunctionDef, ast.AsyncFunctionDef, ast.Lambda)):
            gens = []
            if isinstance(p, (ast.ListComp, ast.GeneratorExp, ast.SetComp, ast.DictComp)):
                gens = [(g.iter, g.target) for g in p.generators]
            elif isinstance(p, (ast.For, ast.AsyncFor)) and child is not p.iter and child is not p.target and inside(p):
                gens = [(p.iter, p.target)]  # a for statement inside the arm binds its target like a comprehension does
            for it, tg in gens:
                if isinstance(it, ast.Call) and isinstance(it.func, ast.Name) and it.func.id == "enumerate" and isinstance(tg, ast.Tuple) and len(tg.elts) == 2 and it.args:
                    if isinstance(tg.elts[0], ast.Name):
                        scope.setdefault(tg.elts[0].id, None)  # a position
                    it, tg = it.args[0], tg.elts[1]
                if isinstance(it, ast.Call) and isinstance(it.func, ast.Name) and it.func.id == "zip" and isinstance(tg, ast.Tuple) and len(tg.elts) == len(it.args):
                    for el, a in zip(tg.elts, it.args):
                        for n in ast.walk(el):
                            if isinstance(n, ast.Name):
                                scope.setdefault(n.id, a)
                    continue
                # a loop over the class ids (label values in the in-memory arm, positions of the per-class split in the Dask arm)
                # binds an index, not data: both arms then address "the element of the current class"
                is_ids = isinstance(it, ast.Call) and src(it.func).split(".")[-1] in ("unique_labels", "unique", "range", "set", "sorted")
                for n in ast.walk(tg):
                    if isinstance(n, ast.Name):
                        scope.setdefault(n.id, None if is_ids else it)
            child = p
            p = getattr(p, "_parent", None)

    def visit(e, st, d):
        if d > 8 or e is None:
            return
        # selecting one class's statistics by label is the in-memory counterpart of the pre-split per-class list
        if isinstance(e, ast.Call) and isinstance(e.func, ast.Attribute) and e.func.attr == "_get_statistics_by_class_id" and e.args:
            visit(e.args[0], st, d + 1)
            return
        for n in ast.walk(e):
            if isinstance(n, ast.Attribute) and isinstance(n.value, ast.Name) and n.value.id == f.self_name:
                par = getattr(n, "_parent", None)
                if isinstance(par, ast.Call) and par.func is n:
                    continue  # a method being called, not data
                if f.cls is not None and P.lookup_method(f.cls, n.attr) is not None:
                    continue  # a bound method handed to dask.delayed
                out.add(f"{f.self_name}.{n.attr}")
        for n in ast.walk(e):
            if not (isinstance(n, ast.Name) and isinstance(n.ctx, ast.Load)):
                continue
            if n.id == f.self_name:
                continue
            comp_bind(n)
            if n.id in scope:
                it = scope[n.id]
                if it is not None:
                    saved = scope.pop(n.id)
                    visit(it, st, d + 1)
                    scope[n.id] = saved
                continue
            rd = du.reaching(st, n.id)
            if not rd:
                if not du.all_defs(n.id):
                    continue  # global / builtin
                rd = du.all_defs(n.id)
            for df in rd:
                if df.how == "param":
                    out.add(n.id)
                elif df.stmt is not None and df.stmt not in ("<entry>",) and inside(df.stmt) and df.value is not None:
                    visit(df.value, df.stmt, d + 1)
                else:
                    out.add(n.id)

    visit(expr, stmt, depth)
    return out


def site_func(P, key):
    """The function that holds the Dask / in-memory switch of a training entry point: the entry point itself, or - when one EM
    iteration was factored out - the helper it calls with the machine.  The helper is returned as a view in which the parameter
    that receives the machine plays the role of `self`."""
    import copy as _copy

    f = P.func(key)
    if switch_sites(P, f):
        return f
    for c in walk_no_nested(f.node):
        if not isinstance(c, ast.Call):
            continue
        for t_ in P.resolve_callee(P.peel_call(c, f)[1], f):
            if t_[0] != "repo" or t_[1] is f:
                continue
            g = t_[1]
            if not switch_sites(P, g):
                continue
            b = P.bind_args(g, c.args, c.keywords)
            pn = next((p_ for p_, a_ in b.items() if isinstance(a_, ast.Name) and a_.id == f.self_name), None)
            g2 = _copy.copy(g)
            if pn is not None and pn != g.self_name:
                g2._self_override = pn
            g2.cls = g.cls if g.cls is not None else f.cls
            return g2
    return f


def _site(P, key):
    f = key if not isinstance(key, str) else P.func(key)
    return f, f.key


def check_branch(P, R, key, rule="BRANCH"):
    """The two arms of every Dask switch call the same kernels with the same argument sources."""
    f, key = _site(P, key)
    R.analysed(f)
    du = get_defuse(f, P)
    sites = switch_sites(P, f)
    n = 0
    for site in sites:
        n += 1
        da_ = kernel_calls(P, f, site.body)
        np_ = kernel_calls(P, f, site.orelse)
        kd = {(c.key if hasattr(c, "key") else c) for c, *_ in da_}
        kn = {(c.key if hasattr(c, "key") else c) for c, *_ in np_}
        # reducers that exist only because the Dask arm has several blocks are not kernels
        aux = {"operator.add", "operator.iadd", "factor_analysis:reduce_iadd", "builtins.list", "utils:array_to_delayed_list"}
        only_d, only_n = kd - kn - aux, kn - kd - aux
        # helper that selects a class's statistics in the in-memory arm
        only_n = {k for k in only_n if not k.endswith("_get_statistics_by_class_id")}
        # fold helpers (pure list plumbing + operator.add) are not kernels
        only_d = {k for k in only_d if not (P.func(k, required=False) is not None and is_fold_helper(P, P.func(k)))}
        only_n = {k for k in only_n if not (P.func(k, required=False) is not None and is_fold_helper(P, P.func(k)))}
        # builders of a stand-in for the estimator are not kernels either: what they must carry is COPY.complete's business
        only_d = {k for k in only_d if not (P.func(k, required=False) is not None and standin_builder(P, P.func(k)) is not None)}
        only_n = {k for k in only_n if not (P.func(k, required=False) is not None and standin_builder(P, P.func(k)) is not None)}
        what = f"switch `{src(site.test)}`: kernels {sorted(x.split(':')[-1] for x in (kd | kn) - aux)}"
        if only_d or only_n:
            R.violation(rule + ".kernels", key, what, f"kernel(s) {sorted(only_d)} only in the Dask arm / {sorted(only_n)} only in the in-memory arm: the two arms do not run the same computation", site.lineno)
            continue
        R.ok(rule + ".kernels", key, what, "same kernels in both arms", site.lineno)
        for callee, call, b, is_task in da_:
            if not hasattr(callee, "key"):
                continue
            twins = [(c2, call2, b2) for c2, call2, b2, _t in np_ if hasattr(c2, "key") and c2.key == callee.key]
            if not twins:
                continue
            c2, call2, b2 = twins[0]
            for prm in sorted(set(b) | set(b2)):
                a1, a2 = b.get(prm), b2.get(prm)
                w = f"{callee.qualname.split('.')[-1]}({prm}=...) Dask `{src(a1) if a1 is not None else '<default>'}` / in-memory `{src(a2) if a2 is not None else '<default>'}`"
                if a1 is None or a2 is None:
                    R.violation(rule + ".args", key, w, f"parameter {prm} is passed in one arm only: the other arm uses the callee's default", call.lineno)
                    continue
                if src(a1) == src(a2):
                    R.ok(rule + ".args", key, w, "identical", call.lineno)
                    continue
                flags = {x.id for x in ast.walk(site.test) if isinstance(x, ast.Name)}  # the switch itself is not an input of the computation
                r1 = stable_roots(P, f, du, a1, site) - flags
                r2 = stable_roots(P, f, du, a2, site) - flags
                if r2 <= r1 and r1 - r2 <= {"y"}:
                    r1 = r2  # the Dask arm may additionally use the labels: it works on per-class splits of the same data
                elif r1 <= r2 and r2 - r1 <= {"y"}:
                    r2 = r1  # ... and so may the in-memory arm, when it groups the sessions by class itself
                if isinstance(a1, ast.Subscript) and isinstance(a2, ast.Subscript) and src(a1.value) == src(a2.value):
                    c1, c2 = const_value(a1.slice), const_value(a2.slice)
                    if (c1 is None) != (c2 is None):
                        R.violation(rule + ".args", key, w, f"one arm selects element `{src(a1.slice)}` and the other `{src(a2.slice)}` of `{src(a1.value)}`: a fixed element in one arm, the class's own element in the other", call.lineno)
                        continue
                R.check(r1 == r2, rule + ".args", key, w, f"same sources {sorted(r1)}", f"parameter {prm} derives from {sorted(r1)} in the Dask arm but from {sorted(r2)} in the in-memory arm: the arms compute with different inputs", call.lineno)
        # names bound in one arm and used afterwards must be bound in the other
        def bound(stmts):
            out = set()
            for st in stmts:
                for s_, t, v, k in stores(st):
                    base = t
                    while isinstance(base, ast.Subscript):
                        base = base.value
                    if isinstance(base, ast.Name) and base.id != "_":
                        out.add(base.id)
            return out
        bd, bn = bound(site.body), bound(site.orelse)
        for name in sorted(bd ^ bn):
            if du.reaching(getattr(site, "_orig", site), name):
                continue  # the name already holds a value before the switch (a parameter or an earlier local)
            used_after = False
            for s2 in du.cfg.nodes():
                if du.cfg.reach_avoiding(getattr(site, "_orig", site), s2) and not any(s2 is x for x in walk_no_nested(site)):
                    for d_ in du.reaching(s2, name):
                        if d_.stmt is not None and any(d_.stmt is x for x in walk_no_nested(site)):
                            from ..dataflow import header_exprs
                            if any(isinstance(x, ast.Name) and x.id == name and isinstance(x.ctx, ast.Load) for e in header_exprs(s2) for x in ast.walk(e)):
                                used_after = True
            if used_after:
                R.violation(rule + ".names", key, f"`{name}` bound in one arm only and used after the switch", "the other arm leaves it stale/undefined", site.lineno)
    return n


def mstep_writes(P, own, callee, machine_param):
    """Private/public attributes the M-step sink writes on its machine."""
    s = own.sums[callee.key]
    return {attr for (o, attr), v in s.stores.items() if o[1] == machine_param and not o[2]}


def setter_expansion(P, own, ci, name):
    """Attributes written when `obj.name = v` runs (through the property setter if there is one)."""
    pr = P.lookup_prop(ci, name)
    if pr and "set" in pr:
        s = own.sums[pr["set"].key]
        return {attr for (o, attr), v in s.stores.items() if o[1] == pr["set"].self_name}
    return {name}


def check_copyback(P, R, own, key, sinks, rule="COPYBACK"):
    """In the Dask arm everything the M-step sink writes on the (serialised copy of the) machine is stored back on self
    from the computed result."""
    f, key = _site(P, key)
    du = get_defuse(f, P)
    n = 0
    for site in switch_sites(P, f):
        calls = kernel_calls(P, f, site.body)
        for callee, call, b, is_task in calls:
            if not hasattr(callee, "key") or callee.qualname.split(".")[-1] not in sinks or not is_task:
                continue
            n += 1
            # which parameter of the sink is the machine?
            if callee.self_name:
                mp = callee.self_name
            else:
                mp = next((p for p, a in b.items() if isinstance(a, ast.Name) and a.id == f.self_name), None)
            W = mstep_writes(P, own, callee, mp) if mp else set()
            # attributes stored on self in this arm
            back = set()
            exp, unk_ = setattr_expansions(f)
            for st, tgt, name, srcobj, val in exp:
                if any(st is x for s_ in site.body for x in walk_no_nested(s_)) and isinstance(tgt, ast.Name) and tgt.id == f.self_name:
                    ok_src = srcobj is not None
                    if ok_src:
                        c = cone(du, srcobj, du.stmt_of(st), interproc=False)
                        ok_src = any(isinstance(x, ast.Call) and ((P.dotted(x.func, f) or "").endswith("compute") or (isinstance(x.func, ast.Attribute) and x.func.attr == "compute")) for x in c.nodes)
                    if ok_src:
                        back |= setter_expansion(P, own, f.cls, name)
                    else:
                        R.violation(rule + ".source", key, f"setattr(self, {name!r}, ...)", "the copied value does not come from the computed M-step result", st.lineno)
            for s_ in site.body:
                for st, t, v, k in stores(s_):
                    if isinstance(t, ast.Attribute) and isinstance(t.value, ast.Name) and t.value.id == f.self_name and v is not None:
                        c = cone(du, v, du.stmt_of(st), interproc=False)
                        if any(isinstance(x, ast.Call) and ((P.dotted(x.func, f) or "").endswith("compute") or (isinstance(x.func, ast.Attribute) and x.func.attr == "compute")) for x in c.nodes):
                            back |= setter_expansion(P, own, f.cls, t.attr)
            for st in unk_:
                R.undecided(rule, key, src(st)[:60], "dynamic setattr outside the literal-list idiom")
            missing = W - back
            what = f"{callee.qualname.split('.')[-1]} writes {sorted(W)}; Dask arm stores back {sorted(back)}"
            R.check(not missing, rule, key, what, "every written attribute is copied back", f"the M-step updates {sorted(missing)} on the worker's copy of the machine but the Dask arm never stores them back on self: with serialised task inputs the trained values are lost", call.lineno)
    return n


def check_tasks_pure(P, R, own, key, sinks, allow=(), rule="PURE.task"):
    """Every block task other than an M-step sink leaves its arguments and the machine untouched."""
    f, key = _site(P, key)
    n = 0
    for c in walk_no_nested(f.node):
        if not isinstance(c, ast.Call):
            continue
        kind, fexpr, args, kws = P.peel_call(c, f)
        if kind != "task":
            tg = [h for h, _b in mapped_tasks(P, f, c)] if kind == "plain" else []
            if not tg:
                continue
        else:
            tg = [t[1] for t in P.resolve_callee(fexpr, f) if t[0] == "repo"]
        for callee in tg:
            nm = callee.qualname.split(".")[-1]
            if nm in sinks:
                continue
            n += 1
            s = own.sums[callee.key]
            bad = {o: w for o, w in s.mutates.items() if (callee.key, o[1]) not in allow}
            from .own import fmt_org
            R.check(not bad, rule, key, f"task {callee.qualname}", "no in-place effect on its inputs or on the machine", "; ".join(f"{fmt_org(o)} ({w})" for o, w in list(bad.items())[:2]) + ": with shared memory other tasks see the change, with serialised inputs it is lost - the result depends on the executor", c.lineno)
    return n


def check_chunk(P, R, key="utils:array_to_delayed_list", rule="CHUNK"):
    """A Dask array is only split into delayed blocks after its feature axis has been made a single chunk."""
    f = P.func(key)
    R.analysed(f)
    du = get_defuse(f, P)
    n = 0
    for c in walk_no_nested(f.node):
        if isinstance(c, ast.Call) and isinstance(c.func, ast.Attribute) and c.func.attr == "to_delayed":
            n += 1
            recv = c.func.value
            st = du.stmt_of(c)
            ok = _rechunked(du, recv, st)
            R.check(ok, rule, key, src(c)[:70], "feature axis rechunked to one block before the split", "`to_delayed()` is applied to an array whose feature axis may be chunked: the 2-D block grid is flattened into a list of column-slices, so every 'block' holds incomplete samples (k-means raises, the GMM silently fits a model with the wrong number of features)", c.lineno)
    if n == 0:
        R.error(f"{key}: no to_delayed() split found")
    return n


def _single_feature_chunk(arg):
    if isinstance(arg, ast.Dict):
        for k, v in zip(arg.keys, arg.values):
            if const_value(k) in (1, -1) and const_value(v) == -1:
                return True
        return False
    if isinstance(arg, (ast.Tuple, ast.List)) and len(arg.elts) >= 2:
        last = arg.elts[-1]
        return const_value(last) == -1 or "shape" in src(last)
    return False


def _rechunked(du, recv, stmt, depth=0):
    if depth > 4:
        return False
    if isinstance(recv, ast.Call) and isinstance(recv.func, ast.Attribute) and recv.func.attr == "rechunk":
        arg = recv.args[0] if recv.args else next((k.value for k in recv.keywords if k.arg == "chunks"), None)
        return arg is not None and _single_feature_chunk(arg)
    if isinstance(recv, ast.IfExp):
        # data.rechunk(...) if data.ndim > 1 else data
        return _rechunked(du, recv.body, stmt, depth + 1) or _rechunked(du, recv.orelse, stmt, depth + 1)
    if isinstance(recv, ast.Name):
        rd = du.reaching(stmt, recv.id)
        if not rd:
            return False
        good = [d for d in rd if d.value is not None and d.how == "assign" and _rechunked(du, d.value, d.stmt, depth + 1)]
        rest = [d for d in rd if d not in good]
        if not good:
            return False
        if not rest:
            return True
        # the un-rechunked definition may only reach the split for arrays without a feature axis:
        # `if data.ndim > 1: data = data.rechunk(...)` dominating the split
        for g in good:
            p = getattr(g.stmt, "_parent", None)
            if isinstance(p, ast.If) and g.stmt in p.body and not p.orelse:
                t = src(p.test).replace(" ", "")
                if t in (f"{recv.id}.ndim>1", f"{recv.id}.ndim>=2", f"{recv.id}.ndim==2", f"len({recv.id}.shape)>1") and du.cfg.dominates(p, stmt):
                    return True
        return False
    return False


def check_cover_tasks(P, R, key, rule="COVER.tasks"):
    """Per-block task lists are built over the whole block list and handed whole to the reducer."""
    f, key = _site(P, key)
    du = get_defuse(f, P)
    n = 0
    for site in switch_sites(P, f):
        for s_ in site.body:
            for st, t, v, k in stores(s_):
                if isinstance(t, ast.Name) and isinstance(v, ast.ListComp):
                    inner = [c for c in ast.walk(v.elt) if isinstance(c, ast.Call) and P.peel_call(c, f)[0] == "task"]
                    if not inner:
                        continue
                    n += 1
                    g = v.generators[0]
                    whole = not g.ifs and len(v.generators) == 1 and not any(isinstance(x, ast.Subscript) and isinstance(x.slice, ast.Slice) for x in ast.walk(g.iter))
                    R.check(whole, rule, key, f"{t.id} = [... for {src(g.target)} in {src(g.iter)}]", "one task per block, no filter, no slice", "the per-block task list skips blocks (filter or slice on the block list)", st.lineno)
                    # the list is passed whole to a later task
                    uses = [c for c in walk_no_nested(site) if isinstance(c, ast.Call) and P.peel_call(c, f)[0] == "task" and any(isinstance(a, ast.Name) and a.id == t.id for a in P.peel_call(c, f)[2])]
                    sliced = [x for x in walk_no_nested(site) if isinstance(x, ast.Subscript) and isinstance(x.value, ast.Name) and x.value.id == t.id and isinstance(x.slice, ast.Slice) and any(isinstance(getattr(x, "_parent", None), ast.Call) for _ in [0])]
                    bad_slice = [x for x in sliced if not (x.slice.lower is None and x.slice.upper is None)]
                    R.check(not bad_slice, rule + "-whole", key, f"{t.id} reaches the reducer", "passed whole", f"a slice of the task list `{src(bad_slice[0]) if bad_slice else ''}` is reduced: some blocks never reach the M-step", st.lineno)
    return n


SORTED_LABEL_SOURCES = ("unique_labels", "unique", "sorted", "range")


def check_class_split(P, R, key="factor_analysis:FactorAnalysisBase.fit_using_array", rule="PARTITION.by-class"):
    """In the Dask arm the array is split into one partition per class: a list built by appending X[y == c] for c running over
    the *sorted* distinct labels (the position of a partition is its class id downstream: `enumerate(X)`), and nothing else."""
    f = P.func(key)
    R.analysed(f)
    du = get_defuse(f, P)
    sites = switch_sites(P, f) or [n for n in walk_no_nested(f.node) if isinstance(n, ast.If) and is_switch(n.test, P, f)]
    n = 0
    for site in sites:
        # the task comprehension over the partitions
        comps = []
        for s_ in site.body:
            for st, t, v, k in stores(s_):
                if isinstance(v, ast.ListComp) and any(isinstance(c, ast.Call) and P.peel_call(c, f)[0] == "task" for c in ast.walk(v.elt)):
                    comps.append((st, v))
        for st, lc in comps:
            it = lc.generators[0].iter
            if not isinstance(it, ast.Name):
                continue
            # resolve the partition list through plain copies / tuple assignments
            lists = set()
            todo = [(it.id, du.stmt_of(st))]
            seen = set()
            while todo:
                name, at = todo.pop()
                for d in du.reaching(at, name):
                    if id(d) in seen:
                        continue
                    seen.add(id(d))
                    if d.how == "param":
                        continue
                    v = d.value
                    if d.how == "assign" and isinstance(v, ast.Name):
                        todo.append((v.id, d.stmt))
                    elif d.how in ("assign", "unpack") and isinstance(v, ast.Tuple) and d.index is not None and d.index < len(v.elts) and isinstance(v.elts[d.index], ast.Name):
                        todo.append((v.elts[d.index].id, d.stmt))
                    elif d.how == "substore":
                        lists.add(name)
                        for pd in du.reaching(d.stmt, name):
                            if id(pd) not in seen:
                                todo.append((name, d.stmt))
                                break
                    else:
                        lists.add(name)
            for lname in sorted(lists):
                # every definition of the list: `[]`, or append inside a loop over the sorted labels
                for d in du.all_defs(lname):
                    if d.how in ("param", "del") or not any(d.stmt is x for x in walk_no_nested(site)):
                        continue
                    n += 1
                    what = f"{lname}: `{src(d.stmt)[:70]}`"
                    if d.how == "assign" and isinstance(d.value, ast.List) and not d.value.elts:
                        R.ok(rule, key, what, "starts empty", d.stmt.lineno)
                        continue
                    if d.how == "assign" and isinstance(d.value, ast.Tuple) and all(isinstance(e, ast.List) and not e.elts for e in d.value.elts):
                        R.ok(rule, key, what, "starts empty", d.stmt.lineno)
                        continue
                    if d.how == "substore" and isinstance(d.stmt, ast.Expr) and isinstance(d.stmt.value, ast.Call) and d.stmt.value.func.attr == "append":
                        call = d.stmt.value
                        lp = getattr(d.stmt, "_parent", None)
                        while lp is not None and not isinstance(lp, ast.For):
                            lp = getattr(lp, "_parent", None)
                        if lp is None or not isinstance(lp.target, ast.Name):
                            R.violation(rule, key, what, "a partition is appended outside a loop over the class labels", d.stmt.lineno)
                            continue
                        cv = lp.target.id
                        itx = lp.iter
                        fn = src(itx.func).split(".")[-1] if isinstance(itx, ast.Call) else None
                        sorted_src = fn in SORTED_LABEL_SOURCES and not any(k_.arg in ("return_index", "return_inverse") for k_ in getattr(itx, "keywords", []))
                        R.check(sorted_src, rule + "-order", key, f"for {cv} in {src(itx)[:50]}", "classes in sorted label order (position = class id)", f"the classes are visited in the order given by `{src(itx)[:50]}`, which is not the sorted label order: downstream code addresses the partitions by position as class id (enumerate), so classes are crossed when the labels do not appear in sorted order", lp.lineno)
                        # the labels are split alongside: another list is appended a selection of y by the same mask in the same loop
                        sib = [c2 for c2 in walk_no_nested(lp) if isinstance(c2, ast.Call) and isinstance(c2.func, ast.Attribute) and c2.func.attr == "append" and c2 is not call and c2.args and isinstance(c2.args[0], ast.Subscript) and src(c2.args[0].value) in ("y",)]
                        R.check(bool(sib), rule + "-labels", key, f"labels of class {cv} appended alongside", "", "the per-class label list is not filled alongside the per-class data list: zip(X, y) then drops classes", lp.lineno)
                        a = call.args[0] if call.args else None
                        ok_sel = False
                        if isinstance(a, ast.Subscript):
                            c = cone(du, a.slice, d.stmt, interproc=False)
                            ok_sel = any(isinstance(x, ast.Compare) and isinstance(x.ops[0], ast.Eq) and cv in {n_.id for n_ in ast.walk(x) if isinstance(n_, ast.Name)} for x in c.nodes)
                        R.check(ok_sel, rule + "-select", key, f"{lname}.append({src(a)[:40] if a is not None else ''})", "all samples whose label equals the class", "a partition is not selected by `label == class`", d.stmt.lineno)
                        continue
                    R.violation(rule, key, what, "the per-class partition list is (also) built by something else than appending `X[y == c]` for every class c: a partition may then hold only part of a class (e.g. one row block), and the per-class E-step estimates the latent variables from partial sessions", d.stmt.lineno)
    return n


# ---------------------------------------------------------------------------------------------------------------------
# COVER.pairs: pairwise (tree) folds that lose the unpaired last element of an odd-length level
_PAIRS_EXAMPLE = '''
def tree(parts, combine):
    parts = list(parts)
    while len(parts) > 1:
        parts = [combine(a, b) for a, b in zip(parts[0::2], parts[1::2])]
    return parts[0]

def tree2(items):
    while len(items) > 1:
        items = [items[i] + items[i + 1] for i in range(0, len(items) - 1, 2)]
    return items[0]

def tree_ok(parts, combine):
    parts = list(parts)
    while len(parts) > 1:
        nxt = [combine(a, b) for a, b in zip(parts[0::2], parts[1::2])]
        if len(parts) % 2:
            nxt.append(parts[-1])
        parts = nxt
    return parts[0]
'''


def _stride2(sub):
    """X[a::2] -> (X name, a) ; else None"""
    if isinstance(sub, ast.Subscript) and isinstance(sub.slice, ast.Slice) and isinstance(sub.value, ast.Name) and const_value(sub.slice.step) == 2 and sub.slice.upper is None:
        lo = const_value(sub.slice.lower) if sub.slice.lower is not None else 0
        return sub.value.id, lo
    return None


def pair_sites(fnode):
    """[(node, list name, description)] of pairings of neighbours X[2k], X[2k+1] inside one function."""
    out = []
    for n in ast.walk(fnode):
        if isinstance(n, ast.Call) and isinstance(n.func, ast.Name) and n.func.id == "zip" and len(n.args) == 2:
            a, b = _stride2(n.args[0]), _stride2(n.args[1])
            if a and b and a[0] == b[0] and {a[1], b[1]} == {0, 1}:
                out.append((n, a[0], src(n)))
        if isinstance(n, ast.Call) and isinstance(n.func, ast.Name) and n.func.id == "range" and len(n.args) == 3 and const_value(n.args[2]) == 2:
            up = n.args[1]
            # range(0, len(X) - 1, 2) / range(0, len(X) // 2 * 2, 2)
            names = [x for x in ast.walk(up) if isinstance(x, ast.Call) and isinstance(x.func, ast.Name) and x.func.id == "len" and x.args and isinstance(x.args[0], ast.Name)]
            if names and not (isinstance(up, ast.Call)):
                out.append((n, names[0].args[0].id, src(n)))
    return out


def odd_tail_handled(fnode, lst):
    """Evidence that the unpaired element of an odd-length list is kept: a parity test on the length together with a use of
    the last element (X[-1] / a name bound to it), or itertools.zip_longest."""
    parity = any(isinstance(n, ast.BinOp) and isinstance(n.op, ast.Mod) and const_value(n.right) == 2 for n in ast.walk(fnode))
    last = any(isinstance(n, ast.Subscript) and isinstance(n.value, ast.Name) and isinstance(n.slice, ast.UnaryOp) and isinstance(n.slice.op, ast.USub) and const_value(n.slice.operand) == 1 for n in ast.walk(fnode))
    longest = any(isinstance(n, (ast.Name, ast.Attribute)) and src(n).endswith("zip_longest") for n in ast.walk(fnode))
    return (parity and last) or longest


def check_pairwise_folds(P, R, modules, rule="COVER.pairs"):
    """Every neighbour-pairing reduction in `modules` keeps the unpaired last element.  Expected count on today's tree is
    zero sites of this shape (the i-vector tree pairs stats[i] with stats[len//2+i] and is checked by COVER.tree), so the
    matcher is exercised on an embedded example on every run."""
    ex = ast.parse(_PAIRS_EXAMPLE)
    got = {fn.name: (len(pair_sites(fn)), odd_tail_handled(fn, None)) for fn in ex.body if isinstance(fn, ast.FunctionDef)}
    if got != {"tree": (1, False), "tree2": (1, False), "tree_ok": (1, True)}:
        R.error(f"COVER.pairs matcher self-check failed: {got}")
    n = 0
    for f in P.all_funcs(modules):
        for node, lst, txt in pair_sites(f.node):
            n += 1
            R.check(odd_tail_handled(f.node, lst), rule, f.key, txt[:70], "the unpaired last element of an odd-length level is carried over", f"`{lst}` is reduced by pairing neighbours, and nothing keeps the last element when its length is odd: with 3, 5, 6, 7 ... partial results some of them never reach the result (exact only for powers of two)", node.lineno)
    R.ok(rule, "package", f"{n} neighbour-pairing reductions in {', '.join(modules)}; matcher exercised on the embedded example", "")
    from . import cover as _cover
    n += _cover.check_module_trees(P, R, modules)
    return n


def fold_whole(P, f, name, depth=0):
    """How is the list `name` consumed inside f?  'whole' (a recognised fold over every element), 'partial' (an explicit
    slice / single element that drops the rest), or 'unknown'."""
    verdicts = []
    for n in walk_no_nested(f.node):
        if isinstance(n, ast.Call):
            fn = src(n.func).split(".")[-1]
            args = list(n.args)
            if fn == "reduce" and len(args) >= 2 and isinstance(args[1], ast.Name) and args[1].id == name:
                verdicts.append("whole")
            elif fn in ("sum", "fsum") and args and isinstance(args[0], ast.Name) and args[0].id == name:
                verdicts.append("whole")
            elif fn == "sum" and len(args) == 2 and src(args[0]) == f"{name}[1:]" and src(args[1]) == f"{name}[0]":
                verdicts.append("whole")
            elif any(isinstance(a, ast.Name) and a.id == name for a in args) and depth < 2:
                tg = [t[1] for t in P.resolve_callee(n.func, f) if t[0] == "repo"]
                if tg:
                    bound = P.bind_args(tg[0], n.args, n.keywords)
                    pn = next((p_ for p_, a_ in bound.items() if isinstance(a_, ast.Name) and a_.id == name), None)
                    if pn:
                        sub = fold_whole(P, tg[0], pn, depth + 1)
                        if sub == "unknown" and pair_sites(tg[0].node):
                            sub = "whole-if-pairs-ok"  # a pairing tree: COVER.pairs decides whether the odd tail survives
                        verdicts.append(sub)
                elif fn in ("list", "tuple"):
                    pass
        if isinstance(n, ast.For) and isinstance(n.iter, ast.Name) and n.iter.id == name:
            verdicts.append("whole")
        if isinstance(n, ast.For) and src(n.iter) == f"{name}[1:]":
            first = any(isinstance(x, ast.Subscript) and isinstance(x.value, ast.Name) and x.value.id == name and const_value(x.slice) == 0 for x in walk_no_nested(f.node))
            verdicts.append("whole" if first else "partial")
        if isinstance(n, ast.Subscript) and isinstance(n.value, ast.Name) and n.value.id == name and isinstance(n.slice, ast.Slice):
            par = getattr(n, "_parent", None)
            if not (isinstance(par, ast.For) and src(n) == f"{name}[1:]") and not (isinstance(par, ast.Call) and src(par.func).split(".")[-1] == "sum") and not _stride2(n):
                verdicts.append("partial")
    if any(lst == name for _n, lst, _t in pair_sites(f.node)):
        verdicts.append("whole-if-pairs-ok")  # a pairing tree over this very list: COVER.pairs decides about the odd tail
    # `x = list(name)` aliases
    for st, t, v, k in stores(f):
        if isinstance(t, ast.Name) and t.id != name and isinstance(v, ast.Call) and src(v.func) in ("list", "tuple", "iter") and v.args and isinstance(v.args[0], ast.Name) and v.args[0].id == name and depth < 3:
            verdicts.append(fold_whole(P, f, t.id, depth + 1))
    # tree reductions over this list (or a copy of it): the COVER engine decides whether every element is covered
    from . import cover as _cover
    for kind, node, lst, v_, why in _cover.tree_sites(P, f):
        if name in _cover.alias_roots(f, lst):
            verdicts.append("whole" if v_ == "ok" else ("partial" if v_ == "violation" else "unknown"))
    if "partial" in verdicts:
        return "partial"
    if any(v in ("whole", "whole-if-pairs-ok") for v in verdicts):
        return "whole"
    return "unknown"


def check_block_sums(P, R, key, rule="ACC.sum"):
    """A reducer that loops over the per-block partial results adds them up: every in-place update inside the loop over the block list
    is `+=`, and the accumulators start from zero (a literal 0 / zeros(...) / the first partial result)."""
    f, key = _site(P, key)
    du = get_defuse(f, P)
    prm = f.value_params[0] if f.value_params else None
    n = 0
    for lp in [x for x in walk_no_nested(f.node) if isinstance(x, ast.For) and isinstance(x.iter, ast.Name) and x.iter.id == prm]:
        for st in walk_no_nested(lp):
            if not isinstance(st, ast.AugAssign):
                continue
            b = st.target
            while isinstance(b, ast.Subscript):
                b = b.value
            if not isinstance(b, ast.Name):
                continue
            n += 1
            R.check(isinstance(st.op, ast.Add), rule, key, src(st)[:60], "partial results are added", f"`{src(st)[:50]}` combines the per-block partial results with `{type(st.op).__name__}`: the reduced statistic is not the sum over the blocks", st.lineno)
            # initial value: the definitions that reach the loop from outside it
            for d in du.reaching(lp, b.id):
                if d.how in ("param", "aug") or any(x is d.stmt for x in ast.walk(lp)):
                    continue
                v = d.value
                if isinstance(v, ast.Tuple) and d.index is not None and d.index < len(v.elts):
                    v = v.elts[d.index]
                zero = (isinstance(v, ast.Constant) and v.value in (0, 0.0)) or (isinstance(v, ast.Call) and src(v.func).split(".")[-1] in ("zeros", "zeros_like")) or (isinstance(v, ast.Subscript) and isinstance(v.value, ast.Name) and v.value.id == prm and const_value(v.slice) == 0)
                R.check(zero, rule + "-init", key, f"{b.id} starts from `{src(v)[:30] if v is not None else None}`", "accumulation starts from zero", f"the accumulator {b.id} starts from `{src(v)[:30] if v is not None else None}`, not from zero: the reduced statistic is offset", getattr(d.stmt, "lineno", None))
    return n


def check_block_additive(P, R, key, rule="ACC.additive"):
    """What a per-block task returns is pooled by adding it to the other blocks' results, so it must be a plain sum over the block's
    samples.  A statistic that is clamped / floored / rounded *before* it leaves the block (`np.maximum(count, 1)`, `np.clip`, `np.where`
    on its own value, `round`) is not additive: max(a, 1) + max(b, 1) != max(a + b, 1) as soon as one block has nothing for a class.
    Decided on the returned expressions (tuple elements, fields stored on a returned statistics object), named steps followed."""
    from ..dataflow import resolve_name
    f, key = _site(P, key)
    du = get_defuse(f, P)
    CL = ("maximum", "minimum", "clip", "fmax", "fmin", "nan_to_num", "round", "rint", "around", "floor", "ceil", "where")
    n = 0
    vals = []
    rets = [r for r in walk_no_nested(f.node) if isinstance(r, ast.Return) and r.value is not None]
    for r in rets:
        v = r.value
        elts = list(v.elts) if isinstance(v, ast.Tuple) else [v]
        for e in elts:
            if isinstance(e, ast.Name):
                # fields stored on the returned object
                for st, t, val, k in stores(f):
                    if isinstance(t, ast.Attribute) and isinstance(t.value, ast.Name) and t.value.id == e.id and val is not None and k == "assign":
                        vals.append((t.attr, val, du.stmt_of(st)))
            vals.append((src(e)[:30], e, r))
    seen = set()
    for nm, e, st in vals:
        e2, st2 = resolve_name(du, e, st)
        if id(e2) in seen:
            continue
        seen.add(id(e2))
        n += 1
        if isinstance(e2, ast.Call) and (e2.func.attr if isinstance(e2.func, ast.Attribute) else getattr(e2.func, "id", "")) in CL:
            fn = e2.func.attr if isinstance(e2.func, ast.Attribute) else e2.func.id
            # np.where(c, a, b) selecting between two sums by a data-independent condition is not this; a constant arm is
            if fn == "where" and not any(isinstance(a, ast.Constant) for a in e2.args[1:]):
                R.ok(rule, key, f"{nm} = {src(e2)[:50]}", "selection between two computed values", getattr(e2, "lineno", None), nontrivial=False)
                continue
            R.violation(rule, key, f"{nm} = {src(e2)[:60]}", f"the per-block statistic `{nm}` is passed through `{fn}` before it is returned: the blocks' results are pooled by addition, and a clamped / rounded partial result is not additive (a block that holds nothing of a class contributes the clamp value instead of zero), so the pooled statistic depends on how the samples are split into blocks", getattr(e2, "lineno", None))
        else:
            R.ok(rule, key, f"{nm} = {src(e2)[:50]}", "returned as computed (no clamp between the sum and the pooling)", getattr(e2, "lineno", None), nontrivial=False)
    return n


def check_accumulation_signs(P, R, key, rule="ACC.sum"):
    """Inside the loops of a function that builds sums (statistic sums, accumulators), every in-place update of a local that was
    allocated with zeros adds: `acc[...] += x`, never `-=` / `*=` / `/=`."""
    f, key = _site(P, key)
    du = get_defuse(f, P)
    n = 0
    zero_locals = set()
    for st, t, v, k in stores(f):
        if isinstance(t, ast.Name) and isinstance(v, ast.Call) and src(v.func).split(".")[-1] in ("zeros", "zeros_like"):
            zero_locals.add(t.id)
        if isinstance(t, ast.Name) and isinstance(v, ast.Constant) and v.value in (0, 0.0):
            zero_locals.add(t.id)
    for st in walk_no_nested(f.node):
        if not isinstance(st, ast.AugAssign):
            continue
        b = st.target
        while isinstance(b, ast.Subscript):
            b = b.value
        if isinstance(b, ast.Name) and b.id in zero_locals and any(isinstance(p_, (ast.For, ast.While)) for p_ in _parents_of(st)):
            n += 1
            R.check(isinstance(st.op, ast.Add), rule, key, src(st)[:60], "summed", f"`{src(st)[:50]}` updates the zero-initialised accumulator `{b.id}` with `{type(st.op).__name__}` instead of adding to it", st.lineno)
    # the same sums written without a loop: acc[:] = <grouped sum>, np.add.at(acc, labels, values)
    from . import pol as _pol
    pp = None
    for st in walk_no_nested(f.node):
        if isinstance(st, ast.Assign) and len(st.targets) == 1 and isinstance(st.targets[0], ast.Subscript) and isinstance(st.targets[0].value, ast.Name) and st.targets[0].value.id in zero_locals:
            sl = st.targets[0].slice
            full = (isinstance(sl, ast.Slice) and sl.lower is None and sl.upper is None and sl.step is None) or (isinstance(sl, ast.Constant) and sl.value is Ellipsis)
            if not full:
                continue
            n += 1
            pp = pp or _pol.Pol(P, f)
            ts = list(dict.fromkeys(pp.terms(st.value, st)))
            neg = [t for t in ts if t[0] < 0]
            R.check(not neg, rule, key, src(st)[:60], "summed", f"`{src(st)[:50]}` stores the sums with a minus sign ({_pol.fmt_terms(neg)[:60]})", st.lineno)
        if isinstance(st, ast.Expr) and isinstance(st.value, ast.Call) and isinstance(st.value.func, ast.Attribute) and st.value.func.attr == "at" and isinstance(st.value.func.value, ast.Attribute) and st.value.args and isinstance(st.value.args[0], ast.Name) and st.value.args[0].id in zero_locals:
            n += 1
            uf = st.value.func.value.attr
            R.check(uf == "add", rule, key, src(st)[:60], "summed", f"`{src(st)[:50]}` updates the zero-initialised accumulator with `{uf}.at` instead of adding to it", st.lineno)
    return n


def _parents_of(n):
    p = getattr(n, "_parent", None)
    while p is not None:
        yield p
        p = getattr(p, "_parent", None)


def check_label_compares(P, R, key, labels=("y",), rule="IDX.class-eq"):
    """In a function that sums statistics per class, a comparison between class ids and the labels of the samples (a one-hot
    membership matrix, a mask) selects the members of the class only when it is an equality."""
    from ..dataflow import cone as _cone
    f, key = _site(P, key)
    du = get_defuse(f, P)
    n = 0
    for c in walk_no_nested(f.node):
        if isinstance(c, ast.Compare) and len(c.ops) == 1 and not isinstance(c.ops[0], (ast.Is, ast.IsNot, ast.In, ast.NotIn)):
            st = du.stmt_of(c)
            if isinstance(st, (ast.If, ast.While, ast.Assert)) and any(c is x for x in ast.walk(st.test)):
                continue  # a control-flow test, not a mask
            sides = [_cone(du, x, st, interproc=False) for x in (c.left, c.comparators[0])]
            if any(set(labels) & s_.params for s_ in sides):
                n += 1
                R.check(isinstance(c.ops[0], ast.Eq), rule, key, src(c)[:60], "membership by equality of label and class", f"`{src(c)[:50]}` does not select the samples whose label *is* the class: the class sums mix the classes", c.lineno)
    return n


def check_return_deps(P, R, key, pattern=r"^(latent_|X$|X_|x_|n_acc|f_acc|data$|stats$|statistics$|means$)", rule="DEP.fast-path"):
    """Every way out of a kernel uses the same inputs: an early return (a fast path, a special case) whose value does not depend on
    an input that the general path's value depends on - and whose guards do not say that input is absent - computes something
    else for the inputs that take it.  Returns of a constant / None / a bare parameter (base cases, empty input) are exempt."""
    import re
    from ..cfg import guards_of
    from ..dataflow import cone as _cone

    f, key = _site(P, key)
    du = get_defuse(f, P)
    rets = sorted([r for r in walk_no_nested(f.node) if isinstance(r, ast.Return) and r.value is not None], key=lambda r: (r.lineno, r.col_offset))
    if len(rets) < 2:
        return 0
    main = rets[-1]
    cm = _cone(du, main.value, main, interproc=True)
    want = {p_ for p_ in cm.params if re.search(pattern, p_) and p_ in f.params}
    n = 0
    for r in rets[:-1]:
        v = r.value
        if isinstance(v, ast.Constant) or (isinstance(v, ast.Name) and v.id in f.params) or (isinstance(v, ast.Tuple) and all(isinstance(x, ast.Constant) for x in v.elts)):
            continue
        n += 1
        cr = _cone(du, v, r, interproc=True)
        tested = set()
        for t_, pol_ in guards_of(r):
            for x in ast.walk(t_):
                if isinstance(x, ast.Compare) and len(x.ops) == 1 and isinstance(x.ops[0], (ast.Is, ast.IsNot)) and isinstance(x.left, ast.Name) and isinstance(x.comparators[0], ast.Constant) and x.comparators[0].value is None:
                    absent = (isinstance(x.ops[0], ast.Is) and pol_) or (isinstance(x.ops[0], ast.IsNot) and not pol_)
                    if absent:
                        tested.add(x.left.id)
        missing = sorted(want - cr.params - tested)
        R.check(not missing, rule, key, f"return {src(v)[:50]}", "uses the inputs the general path uses", f"this way out (`return {src(v)[:40]}`) does not use {missing}, which the general path's result depends on: for the inputs that take it the function computes something else", r.lineno)
    return n


# ---------------------------------------------------------------------------------------------------------------------------
# stand-ins for the estimator that are handed to the kernels (snapshots, worker copies)
# ---------------------------------------------------------------------------------------------------------------------------
class StandIn:
    """What a builder of a stand-in for the estimator carries: `source` (the name of the object it copies: self or a parameter),
    `carried` (attribute names, or None for "everything": copy.copy / deepcopy), `dropped` (attributes overwritten afterwards
    with something that is not the source's value), `ctor` (constructor call for form F1)."""
    def __init__(self, kind, source, carried=None, dropped=(), ctor=None, local=None):
        self.kind, self.source, self.carried, self.dropped, self.ctor, self.local = kind, source, carried, set(dropped), ctor, local


_NS_CTORS = ("SimpleNamespace", "Namespace", "dict", "AttrDict", "Bunch")


def standin_builder(P, g):
    """g builds and returns a stand-in for an estimator (its own object for a method, its first parameter for a module function):
      F1  t = Cls(...) [+ t.a = ...]; return t                       (same class, through the constructor)
      F2  t = copy.copy(src) / copy.deepcopy(src) [+ t.a = ...]; return t   (everything, minus what is overwritten)
      F3  return SimpleNamespace(a=src.a, ...) / <namedtuple>(a=src.a, ...) / dict(a=...)   (the named attributes)
      F4  t = object.__new__(type(src)); for name in ("a", "b"): setattr(t, name, ...); return t
    Returns a StandIn or None."""
    srcname = g.self_name if g.self_name else (g.posparams[0] if g.posparams else None)
    if srcname is None:
        return None
    rets = [r for r in walk_no_nested(g.node) if isinstance(r, ast.Return) and r.value is not None]
    if not rets:
        return None
    cn = g.cls.name if g.cls is not None else None

    def reads_src_attr(v, attr=None):
        return any(isinstance(x, ast.Attribute) and isinstance(x.value, ast.Name) and x.value.id == srcname and (attr is None or x.attr.lstrip("_") == attr.lstrip("_")) for x in ast.walk(v))
    # F3: every return is a keyword-only constructor of a namespace-like object
    if all(isinstance(r.value, ast.Call) and not r.value.args and r.value.keywords and all(k.arg for k in r.value.keywords) for r in rets):
        c0 = rets[0].value
        fn = src(c0.func).split(".")[-1]
        is_nt = False
        if isinstance(c0.func, ast.Name):
            for st in g.module.tree.body if hasattr(g.module, "tree") else []:
                if isinstance(st, ast.Assign) and any(isinstance(t_, ast.Name) and t_.id == c0.func.id for t_ in st.targets) and isinstance(st.value, ast.Call) and src(st.value.func).split(".")[-1] in ("namedtuple", "make_dataclass", "NamedTuple"):
                    is_nt = True
        if (fn in _NS_CTORS or is_nt) and any(reads_src_attr(k.value) for k in c0.keywords):
            return StandIn("F3", srcname, carried={k.arg for k in c0.keywords})
    for st, t, v, k in stores(g):
        if not (isinstance(t, ast.Name) and isinstance(v, ast.Call)):
            continue
        if not all(isinstance(r.value, ast.Name) and r.value.id == t.id for r in rets):
            continue
        fn = src(v.func)
        over = {}
        for st2, t2, v2, k2 in stores(g):
            if isinstance(t2, ast.Attribute) and isinstance(t2.value, ast.Name) and t2.value.id == t.id:
                over[t2.attr] = v2
        if fn in ("copy.copy", "copy.deepcopy", "copy", "deepcopy") and v.args and isinstance(v.args[0], ast.Name) and v.args[0].id == srcname:
            dropped = {a for a, v2 in over.items() if v2 is None or not reads_src_attr(v2, a)}
            return StandIn("F2", srcname, carried=None, dropped=dropped, local=t.id)
        if cn is not None and ((isinstance(v.func, ast.Name) and v.func.id in (cn, "cls")) or (isinstance(v.func, ast.Attribute) and v.func.attr == "__class__") or fn == f"type({srcname})"):
            return StandIn("F1", srcname, carried=set(over), ctor=v, local=t.id)
        if fn in ("object.__new__",) or (isinstance(v.func, ast.Attribute) and v.func.attr == "__new__"):
            carried = set(over)
            for n in walk_no_nested(g.node):
                if isinstance(n, ast.For) and isinstance(n.iter, (ast.Tuple, ast.List)) and all(isinstance(x, ast.Constant) and isinstance(x.value, str) for x in n.iter.elts):
                    if any(isinstance(c, ast.Call) and isinstance(c.func, ast.Name) and c.func.id == "setattr" and c.args and isinstance(c.args[0], ast.Name) and c.args[0].id == t.id for c in ast.walk(n)):
                        carried |= {x.value for x in n.iter.elts}
            for c in walk_no_nested(g.node):
                if isinstance(c, ast.Call) and isinstance(c.func, ast.Name) and c.func.id == "setattr" and len(c.args) >= 2 and isinstance(c.args[0], ast.Name) and c.args[0].id == t.id and isinstance(c.args[1], ast.Constant):
                    carried.add(c.args[1].value)
            return StandIn("F4", srcname, carried=carried, local=t.id)
    return None


def _attrs_read_from(P, k, prm, depth=0, seen=None):
    """attribute names read from the parameter `prm` of function k, following calls that pass it on and its own methods"""
    seen = seen if seen is not None else set()
    if (k.key, prm) in seen or depth > 3:
        return set()
    seen.add((k.key, prm))
    out = set()
    for n in walk_no_nested(k.node):
        if isinstance(n, ast.Attribute) and isinstance(n.value, ast.Name) and n.value.id == prm and isinstance(n.ctx, ast.Load):
            par = getattr(n, "_parent", None)
            if isinstance(par, ast.Call) and par.func is n:
                # a method of the object: what it reads of self
                for t_ in P.resolve_callee(n, k):
                    if t_[0] == "repo" and t_[1].self_name:
                        out |= _attrs_read_from(P, t_[1], t_[1].self_name, depth + 1, seen)
                continue
            # a derived property (no attribute of its own): what its getter reads
            pr_ = P.lookup_prop(k.cls, n.attr) if (k.cls is not None and prm == k.self_name) else None
            if pr_ and "get" in pr_ and pr_["get"].self_name:
                out |= _attrs_read_from(P, pr_["get"], pr_["get"].self_name, depth + 1, seen)
                if "set" not in pr_:
                    continue
            out.add(n.attr)
        if isinstance(n, ast.Call):
            kind, fexpr, args, kws = P.peel_call(n, k)
            for t_ in P.resolve_callee(fexpr, k):
                if t_[0] != "repo":
                    continue
                b = P.bind_args(t_[1], args, kws)
                for p2, a2 in b.items():
                    if isinstance(a2, ast.Name) and a2.id == prm:
                        out |= _attrs_read_from(P, t_[1], p2, depth + 1, seen)
    # property getters: reading machine.means reads _means
    return out


def _standin_of(P, f, du, e, st):
    """Resolve an expression to (builder function, StandIn) when it is (a name bound to) the result of a stand-in builder called
    on the estimator - `self._copy()`, `_snapshot(self)`, possibly wrapped in dask.delayed / persist."""
    hops = 0
    while hops < 5:
        if isinstance(e, ast.Name) and e.id != f.self_name:
            rd = du.reaching(st, e.id)
            vals = [d for d in rd if d.how == "assign" and d.value is not None and not (isinstance(d.value, ast.Constant) and d.value.value is None)]
            if len(vals) >= 1 and all(src(d.value) == src(vals[0].value) for d in vals):
                e, st, hops = vals[0].value, vals[0].stmt, hops + 1
                continue
        if isinstance(e, ast.Call) and src(e.func).split(".")[-1] in ("delayed", "persist", "scatter") and e.args:
            e, hops = e.args[0], hops + 1
            continue
        break
    if not isinstance(e, ast.Call):
        return None
    on_self = isinstance(e.func, ast.Attribute) and isinstance(e.func.value, ast.Name) and e.func.value.id == f.self_name
    with_self = any(isinstance(a, ast.Name) and a.id == f.self_name for a in e.args) if f.self_name else False
    if not (on_self or with_self):
        return None
    for t_ in P.resolve_callee(e.func, f):
        if t_[0] != "repo":
            continue
        sb = standin_builder(P, t_[1])
        if sb is not None:
            return t_[1], sb
    return None


def check_standins(P, R, key, kernels=("e_step", "m_step"), rule="COPY.complete"):
    """When the kernels are given a stand-in for the estimator (a snapshot / worker copy / frozen view built by a helper) instead
    of the estimator itself - as an argument, or as the receiver of the bound method that is the task -, the stand-in carries every
    attribute the kernels read: one that is left out or at the constructor's default (a configured floor, a ratio, a flag) makes
    the arm that uses the stand-in compute with another configuration."""
    f, key = _site(P, key)
    du = get_defuse(f, P)
    n = 0
    for c in walk_no_nested(f.node):
        if not isinstance(c, ast.Call):
            continue
        kind, fexpr, args, kws = P.peel_call(c, f)
        cst = du.stmt_of(c)
        cands = []  # (kernel function, parameter that receives the stand-in, builder, StandIn, text)
        tg = [t_[1] for t_ in P.resolve_callee(fexpr, f) if t_[0] == "repo"]
        if isinstance(fexpr, ast.Attribute) and isinstance(fexpr.value, ast.Name) and fexpr.value.id != f.self_name:
            # a bound method of a stand-in as the task: view.kernel(...)
            got = _standin_of(P, f, du, fexpr.value, cst)
            if got is not None:
                bf, sb = got
                cls_ = f.cls
                m = P.lookup_method(cls_, fexpr.attr) if cls_ is not None else None
                if m is not None and m.self_name:
                    cands.append((m, m.self_name, bf, sb, src(fexpr)))
        if tg and (src(fexpr).split(".")[-1] in kernels or True):
            b = P.bind_args(tg[0], args, kws)
            for prm, a in b.items():
                got = _standin_of(P, f, du, a, cst)
                if got is not None:
                    cands.append((tg[0], prm, got[0], got[1], f"{prm}={src(a)[:30]}"))
        for kf, prm, bf, sb, txt in cands:
            n += 1
            need = _attrs_read_from(P, kf, prm)
            # only data attributes of the class (set in __init__ or by property setters), not methods
            ci = bf.cls if bf.cls is not None else f.cls
            known = set()
            for m_ in (P.mro(ci) if ci is not None else []):
                fns_ = list(m_.methods.values()) + [fx_ for pr_ in m_.props.values() for fx_ in pr_.values()]
                for fn_ in fns_:
                    for st3, t3, v3, k3 in stores(fn_):
                        if isinstance(t3, ast.Attribute) and isinstance(t3.value, ast.Name) and t3.value.id == fn_.self_name:
                            known.add(t3.attr)
            norm = lambda x: x.lstrip("_")
            need = {norm(x) for x in need}
            known = {norm(x) for x in known}
            sb_dropped = {norm(x) for x in sb.dropped}
            if sb.kind == "F2":
                missing = sorted(x for x in need & known if x in sb_dropped)
            else:
                carried = set(sb.carried or ())
                if sb.kind == "F1" and ci is not None:
                    init = P.lookup_method(ci, "__init__")
                    if init is not None:
                        ctor = sb.ctor
                        passed = {k_.arg for k_ in ctor.keywords if k_.arg} | set(list(init.posparams[1:])[:len(ctor.args)])
                        idu = get_defuse(init, P)
                        from ..dataflow import cone as _cone
                        for st2, t2, v2, k2 in stores(init):
                            if isinstance(t2, ast.Attribute) and isinstance(t2.value, ast.Name) and t2.value.id == init.self_name and v2 is not None:
                                cn_ = _cone(idu, v2, idu.stmt_of(st2), interproc=False)
                                ps = {p_ for p_ in cn_.params if p_ != init.self_name}
                                if ps and ps <= passed:
                                    carried.add(t2.attr)
                # a store through a property setter also fills what the setter derives (variances -> g_norms, weights -> log_weights)
                for nm_ in (list(carried) if sb.kind != "F3" else []):  # a namespace / namedtuple runs no setter
                    pr_ = P.lookup_prop(ci, nm_) if ci is not None else None
                    if pr_ and "set" in pr_:
                        for st4, t4, v4, k4 in stores(pr_["set"]):
                            if isinstance(t4, ast.Attribute) and isinstance(t4.value, ast.Name) and t4.value.id == pr_["set"].self_name:
                                carried.add(t4.attr)
                carried = {norm(x) for x in carried}
                missing = sorted(x for x in need & known if x not in carried)
            R.check(not missing, rule, key, f"{kf.qualname}({txt}) <- {bf.qualname}", f"the stand-in carries the {len(need & known)} attributes the kernel reads", f"the stand-in built by {bf.qualname} does not carry {missing}, which {kf.qualname} reads from its `{prm}`: they are missing or stay at the constructor's defaults, so this arm does not compute with the estimator's configuration", c.lineno)
    return n


def check_reduction_siblings(P, R, modules, rule="LOGDOM.combine"):
    """`da.reduction(chunk=, combine=, aggregate=)`: combine and aggregate both merge per-block states, combine for the
    intermediate levels of the tree (only when there are more blocks than split_every), aggregate for the last.  When the aggregate
    step rescales what it adds (sum(s_i * exp(m_i - m)): states relative to a per-block maximum), the combine step must do the
    same; adding the scaled sums as they are is exact only while no intermediate level exists."""
    from ..dataflow import cone as _cone
    n = 0
    for f in P.all_funcs(modules):
        for c in walk_no_nested(f.node):
            if not (isinstance(c, ast.Call) and src(c.func).split(".")[-1] == "reduction"):
                continue
            kw = {k.arg: k.value for k in c.keywords if k.arg}
            if "combine" not in kw or "aggregate" not in kw:
                continue
            fns = {}
            for role in ("combine", "aggregate"):
                while isinstance(kw[role], ast.Call) and src(kw[role].func).split(".")[-1] == "partial" and kw[role].args:
                    kw[role] = kw[role].args[0]
                tg = [t_[1] for t_ in P.resolve_callee(kw[role], f) if t_[0] == "repo"] if isinstance(kw[role], (ast.Name, ast.Attribute)) else []
                fns[role] = tg[0] if tg else None
            if fns["combine"] is None or fns["aggregate"] is None:
                continue
            n += 1
            if fns["combine"].key == fns["aggregate"].key:
                R.ok(rule, f.key, src(c)[:60], "combine and aggregate are the same function", c.lineno)
                continue
            def sums(g):
                gdu = get_defuse(g, P)
                out = []
                for x in walk_no_nested(g.node):
                    if isinstance(x, ast.Call) and src(x.func).split(".")[-1] in ("sum", "nansum") and x.args:
                        cn = _cone(gdu, x.args[0], gdu.stmt_of(x), interproc=False)
                        out.append((x, any(isinstance(y, ast.Call) and src(y.func).split(".")[-1] in ("exp", "exp2", "expm1") for y in cn.nodes)))
                return out
            sa_, sc_ = sums(fns["aggregate"]), sums(fns["combine"])
            if any(e for _, e in sa_) and sc_ and not any(e for _, e in sc_):
                bad = sc_[0][0]
                R.violation(rule, fns["combine"].key, src(bad)[:60], f"the aggregate step {fns['aggregate'].qualname} rescales the per-block sums to a common reference (sum of s_i * exp(m_i - m)) before adding them, the combine step adds them as they are: as soon as the reduction has an intermediate level (more blocks than split_every, i.e. more than 4 components) the result is wrong by up to the log of the fan-in", bad.lineno)
            else:
                R.ok(rule, f.key, src(c)[:60], "combine and aggregate merge the block states alike", c.lineno)
    return n
