"""Loop-carried values (added after the sixth seeding round).

Two rules over the statement CFG and the reaching definitions of one function.

BLOCK.carried   A loop that produces one result per iteration - a store `out[..., f(i)] = v`, `out.append(v)` - computes each
                result from that iteration's inputs and from loop-invariant values.  A local in the value cone of `v` that may
                still hold what an *earlier iteration* assigned (`center = center + offsets`: the use is reached from the top of
                the body without passing a definition of this iteration) makes the k-th result depend on k - on how the work was
                cut into blocks.  Position counters (uses inside a subscript) are exempt: `out[pos:pos + n]` with `pos += n` is how
                a running offset is written.

STALE.derived   A local derived from fields of the model (`p = f(self.T, self.sigma)`) is valid until one of those fields is
                written.  If the loop body writes such a field (directly, through setattr, or in a callee that receives the
                object) and the local - a pure precomputation: a computed value in which no argument of the function (the data)
                takes part; criterion histories and latent estimates are snapshots by design - can then be *used* without having been recomputed - there is a path from the write to the use
                that passes no definition of the local - the use sees a value that belongs to the previous model.
"""
from __future__ import annotations

import ast

from ..dataflow import cone, get_defuse, stores
from ..frontend import src, walk_no_nested


def _body_nodes(loop):
    out = []
    for b in loop.body:
        out.extend(walk_no_nested(b))
    return out


def _stmts_in(loop, cfg):
    ids = set()
    for n in _body_nodes(loop):
        if n in cfg.succ:
            ids.add(n)
    return ids


def _defs_of(du, name, inside):
    return [d for d in du.all_defs(name) if d.stmt in inside and d.how != "param"]


def carried(du, loop, name, use_stmt, inside):
    """`name` read at `use_stmt` (inside the loop) may hold a value assigned by an earlier iteration."""
    ds = _defs_of(du, name, inside)
    if not ds:
        return False
    avoid = {d.stmt for d in ds} | {loop}
    return du.cfg.reach_avoiding(loop, use_stmt, avoid - {use_stmt}, skip_labels=("F",)) if use_stmt in avoid else du.cfg.reach_avoiding(loop, use_stmt, avoid, skip_labels=("F",))


def _names_outside_subscripts(e):
    """Name loads in e that are not part of a subscript's index."""
    out = []

    def go(n, in_idx):
        if isinstance(n, ast.Name) and isinstance(n.ctx, ast.Load):
            if not in_idx:
                out.append(n)
            return
        if isinstance(n, ast.Subscript):
            go(n.value, in_idx)
            go(n.slice, True)
            return
        if isinstance(n, (ast.Lambda, ast.ListComp, ast.GeneratorExp, ast.SetComp, ast.DictComp)):
            bound = {x.id for g in getattr(n, "generators", []) for x in ast.walk(g.target) if isinstance(x, ast.Name)}
            for c in ast.walk(n):
                if isinstance(c, ast.Name) and isinstance(c.ctx, ast.Load) and c.id not in bound and not in_idx:
                    out.append(c)
            return
        for c in ast.iter_child_nodes(n):
            go(c, in_idx)

    go(e, False)
    return out


def per_iteration_outputs(loop):
    """[(statement, value expression)] for the stores of the loop body that keep one result per iteration."""
    lv = {x.id for x in ast.walk(loop.target) if isinstance(x, ast.Name)}
    out = []
    for st in _body_nodes(loop):
        if isinstance(st, ast.Assign) and len(st.targets) == 1 and isinstance(st.targets[0], ast.Subscript):
            t = st.targets[0]
            if lv & {x.id for x in ast.walk(t.slice) if isinstance(x, ast.Name)}:
                out.append((st, st.value))
        elif isinstance(st, ast.Expr) and isinstance(st.value, ast.Call) and isinstance(st.value.func, ast.Attribute) and st.value.func.attr in ("append", "extend") and st.value.args:
            out.append((st, st.value.args[0]))
    return out


def check_blocked_loops(P, R, modules, scope=None, rule="BLOCK.carried"):
    import re

    n = 0
    nf = 0
    if "carry_example" not in P.modules:
        selfcheck(R)
    for f in P.all_funcs(modules):
        if scope is not None and not re.search(scope, f.key):
            continue
        nf += 1
        du = None
        for loop in [x for x in walk_no_nested(f.node) if isinstance(x, ast.For)]:
            outs = per_iteration_outputs(loop)
            if not outs:
                continue
            du = du or get_defuse(f, P)
            inside = _stmts_in(loop, du.cfg)
            # values that hold this iteration's piece of a running index are exempt (see _names_outside_subscripts)
            for st, val in outs:
                if st not in inside:
                    continue
                n += 1
                seen = set()
                todo = [(nm, st) for nm in _names_outside_subscripts(val)]
                bad = None
                while todo and bad is None:
                    nm, s = todo.pop()
                    k = (nm.id, id(s))
                    if k in seen:
                        continue
                    seen.add(k)
                    if carried(du, loop, nm.id, s, inside):
                        # an accumulator of results (list that is appended to, array filled per iteration) is not a value
                        ds = _defs_of(du, nm.id, inside)
                        if all(d.how in ("substore",) for d in ds):
                            continue
                        bad = (nm, s)
                        break
                    for d in du.reaching(s, nm.id):
                        if d.stmt in inside and d.value is not None and d.how in ("assign", "unpack", "aug"):
                            todo.extend((x, d.stmt) for x in _names_outside_subscripts(d.value))
                if bad is not None:
                    nm, s = bad
                    R.violation(rule, f.key, f"{nm.id} in `{src(s).splitlines()[0][:60]}`", f"the result kept for each iteration (`{src(st).splitlines()[0][:50]}`) is computed from `{nm.id}`, which may still hold what an earlier iteration assigned (no definition of this iteration lies on every path to the use): the k-th block's result depends on the blocks before it, so the output changes with the number and size of the blocks", s.lineno)
                else:
                    R.ok(rule, f.key, src(st).splitlines()[0][:60], "each iteration's result is computed from this iteration's values and loop-invariant ones", st.lineno, nontrivial=False)
    return n


def _written_attrs(P, f, du, loop, obj_names):
    """{attr: [statement]} for the fields of the objects named `obj_names` that the loop body writes - directly, or in a callee of
    the package that receives the object (one level)."""
    out = {}
    body = _body_nodes(loop)
    for st in body:
        tg = []
        if isinstance(st, ast.Assign):
            tg = [x for t in st.targets for x in (t.elts if isinstance(t, ast.Tuple) else [t])]
        elif isinstance(st, (ast.AugAssign, ast.AnnAssign)):
            tg = [st.target]
        for t in tg:
            b = t
            while isinstance(b, ast.Subscript):
                b = b.value
            if isinstance(b, ast.Attribute) and isinstance(b.value, ast.Name) and b.value.id in obj_names:
                out.setdefault(b.attr.lstrip("_"), []).append(st)
        if isinstance(st, ast.Call):
            if isinstance(st.func, ast.Name) and st.func.id == "setattr" and len(st.args) >= 2 and isinstance(st.args[0], ast.Name) and st.args[0].id in obj_names and isinstance(st.args[1], ast.Constant):
                out.setdefault(str(st.args[1].value).lstrip("_"), []).append(du.stmt_of(st))
                continue
            try:
                kind_, fexpr, args, kws = P.peel_call(st, f)
                cal = [t[1] for t in P.resolve_callee(fexpr, f) if t[0] == "repo"]
            except Exception:
                cal = []
            for callee in cal[:1]:
                try:
                    b = P.bind_args(callee, args, kws)
                except Exception:
                    continue
                if callee.self_name and isinstance(fexpr, ast.Attribute) and isinstance(fexpr.value, ast.Name):
                    b[callee.self_name] = fexpr.value
                prm = [p_ for p_, a_ in b.items() if isinstance(a_, ast.Name) and a_.id in obj_names]
                for cs, ct, cv, ck in stores(callee):
                    bb = ct
                    while isinstance(bb, ast.Subscript):
                        bb = bb.value
                    if isinstance(bb, ast.Attribute) and isinstance(bb.value, ast.Name) and bb.value.id in prm:
                        s_ = du.stmt_of(st)
                        if s_ is not None:
                            out.setdefault(bb.attr.lstrip("_"), []).append(s_)
    return out


def check_stale_derived(P, R, key, rule="STALE.derived"):
    """STALE.derived on the loops of one training entry point."""
    f = key if not isinstance(key, str) else P.func(key)
    if "carry_example" not in P.modules:
        selfcheck(R)
        R.analysed(f)
    du = get_defuse(f, P)
    objs = {f.self_name} if f.self_name else set(f.value_params[:1])
    n = 0
    for loop in [x for x in walk_no_nested(f.node) if isinstance(x, (ast.For, ast.While))]:
        inside = _stmts_in(loop, du.cfg)
        W = _written_attrs(P, f, du, loop, objs)
        if not W:
            continue
        # uses of locals inside the loop
        checked = set()
        for nm in [x for x in _body_nodes(loop) if isinstance(x, ast.Name) and isinstance(x.ctx, ast.Load)]:
            if nm.id in objs or nm.id in f.params:
                continue
            s = du.stmt_of(nm)
            if s is None or s not in inside:
                continue
            par = getattr(nm, "_parent", None)
            if isinstance(par, ast.Compare) and all(isinstance(o, (ast.Is, ast.IsNot)) for o in par.ops):
                continue  # `p is None`: asks whether there is a value, does not use it
            ds = [d for d in du.all_defs(nm.id) if d.how in ("assign", "unpack") and d.value is not None and not (isinstance(d.value, ast.Constant) and d.value.value is None)]
            if not ds or (nm.id, id(s)) in checked:
                continue
            checked.add((nm.id, id(s)))
            deps = set()
            # only pure precomputations of the model: a computation (not a plain copy `prev = self.criterion`, which is a snapshot
            # taken on purpose) in which no argument of the function - the data - takes part
            if not all(any(isinstance(x, (ast.Call, ast.BinOp)) for x in ast.walk(d.value)) for d in ds):
                continue
            data_dep = False
            for d in ds:
                # the value, not what it is tested against: `if p is None or self.flag: p = f(self.T)` derives p from T only
                for x in ast.walk(d.value):
                    if isinstance(x, ast.Name) and isinstance(x.ctx, ast.Load) and x.id not in objs and (x.id in f.params or du.all_defs(x.id)):
                        data_dep = True  # another local or an argument takes part: not a function of the model alone
                    if isinstance(x, ast.Attribute) and isinstance(x.value, ast.Name) and x.value.id in objs:
                        deps.add(x.attr.lstrip("_"))
            hit = sorted(deps & set(W))
            if not hit or data_dep:
                continue
            n += 1
            defstmts = {d.stmt for d in du.all_defs(nm.id) if d.how != "param"}
            stale = None
            for a in hit:
                for w in W[a]:
                    if w in defstmts:
                        continue  # the statement that updates the field also (re)defines the local
                    if w is not s and any(isinstance(x, ast.Name) and x.id == nm.id for x in ast.walk(w)) and not du.cfg.reach_avoiding(w, w, defstmts):
                        continue  # the update is computed from the local itself (the result is stored back) and the local is recomputed before the update runs again: consuming it, not outdating it
                    if du.cfg.reach_avoiding(w, s, defstmts - {s}):
                        stale = (a, w)
                        break
                if stale:
                    break
            if stale is not None:
                a, w = stale
                R.violation(rule, f.key, f"{nm.id} in `{src(s).splitlines()[0][:50]}`", f"`{nm.id}` is computed from the model's `{a}`, which `{src(w).splitlines()[0][:50]}` updates inside the loop; the use can be reached from that update without recomputing `{nm.id}` (it is computed before the loop, or only under a condition), so from the second iteration on it belongs to the previous model", s.lineno)
            else:
                R.ok(rule, f.key, f"{nm.id} in `{src(s).splitlines()[0][:50]}`", f"recomputed after every update of {', '.join(hit)}", s.lineno, nontrivial=False)
    return n


_EXAMPLE = '''
import numpy as np


def prod(t, s):
    return t.T @ (t / s)


def step(machine, stats):
    machine.T = stats
    return machine


class M:
    def fit_stale(self, X):
        p = None
        for i in range(3):
            if p is None or self.flag:
                p = prod(self.T, self.sigma)
            stats = X @ p
            step(self, stats)
        return self

    def fit_fresh(self, X):
        for i in range(3):
            p = prod(self.T, self.sigma)
            stats = X @ p
            step(self, stats)
        return self


def blocked_bad(xs, off, B):
    out = np.empty((len(xs),))
    c = 0.0
    for s in range(0, len(xs), B):
        c = c + off
        out[s : s + B] = xs[s : s + B] - c
    return out


def blocked_good(xs, off, B):
    out = np.empty((len(xs),))
    pos = 0
    for s in range(0, len(xs), B):
        c = 0.0 + off
        out[s : s + B] = xs[pos : pos + B] - c
        pos += B
    return out
'''


def selfcheck(R):
    """The matchers are exercised on an embedded example on every run (both rules have no instance to fire on in a correct tree)."""
    from ..frontend import Program
    from ..report import Report

    P = Program(sources={"carry_example": _EXAMPLE})
    got = {}
    for k in ("carry_example:M.fit_stale", "carry_example:M.fit_fresh"):
        r = Report("C00", "quick", quiet=True)
        check_stale_derived(P, r, k)
        got[k.split(".")[-1]] = len([o for o in r.obs if o.verdict == "violation"])
    r = Report("C00", "quick", quiet=True)
    check_blocked_loops(P, r, ["carry_example"])
    got["blocked"] = sorted(o.where.split(":")[-1] for o in r.obs if o.verdict == "violation")
    if got != {"fit_stale": 1, "fit_fresh": 0, "blocked": ["blocked_bad"]}:
        R.error(f"CARRY matcher self-check failed: {got}")
