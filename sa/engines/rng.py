"""RNG: provenance of randomness (DESIGN 3.8).

The generator behind every draw must be determined by the estimator's configuration:
seeded by data flow from self.random_state (or a constant), or a global draw dominated
in its function by np.random.seed(<self.random_state>) on every path on which the
random_state is not None.
"""
from __future__ import annotations

import ast

from ..cfg import ENTRY
from ..dataflow import cone, get_defuse
from ..frontend import ClassInfo, Func, const_value, src, walk_no_nested
from .cache import _reach_cut

GLOBAL_PREFIXES = ("numpy.random.", "random.", "dask.array.random.")
GEN_CTORS = ("numpy.random.RandomState", "numpy.random.default_rng", "numpy.random.Generator", "random.Random", "dask.array.random.RandomState")
NONDRAW = ("seed", "get_state", "set_state", "RandomState", "default_rng", "Generator", "SeedSequence", "Random")
# library initialisers taking random_state and their default (read from the library's signature)
LIB_RANDOM_STATE_DEFAULT = {"dask_ml.cluster.k_means.k_init": None, "sklearn.cluster.KMeans": None, "sklearn.cluster.kmeans_plusplus": None}
OTHER_NONDET = ("time.time", "time.time_ns", "os.urandom", "uuid.uuid4", "uuid.uuid1", "secrets.token_bytes", "os.getpid")


def scan(P, R, modules, rule="RNG"):
    n_sites = 0
    for f in P.all_funcs(modules):
        calls = [c for c in walk_no_nested(f.node) if isinstance(c, ast.Call)]
        if not calls:
            continue
        du = None
        seeds = []
        for c in calls:
            d = P.dotted(c.func, f) or ""
            if d in ("numpy.random.seed", "random.seed"):
                seeds.append(c)
        for c in calls:
            d = P.dotted(c.func, f) or ""
            last = d.split(".")[-1]
            # ---- seed statements -------------------------------------------------
            if d in ("numpy.random.seed", "random.seed"):
                n_sites += 1
                du = du or get_defuse(f, P)
                arg = c.args[0] if c.args else None
                if arg is None:
                    R.violation(rule + ".seed", f.key, src(c), "seed() without argument re-seeds from the OS entropy pool", c.lineno)
                    continue
                cc = cone(du, arg, du.stmt_of(c), interproc=False)
                ok = cc.has_attr("random_state") or "random_state" in cc.params or (isinstance(arg, ast.Constant) and arg.value is not None)
                R.check(ok, rule + ".seed", f.key, src(c), "seeded from the configured random_state", "the seed does not come from the estimator's random_state (nor a constant)", c.lineno)
                continue
            # ---- global draws ----------------------------------------------------
            if d.startswith(GLOBAL_PREFIXES) and last not in NONDRAW and d not in GEN_CTORS:
                n_sites += 1
                du = du or get_defuse(f, P)
                st = du.stmt_of(c)
                cut = []
                for n in du.cfg.nodes():
                    if isinstance(n, ast.If):
                        t = src(n.test).replace(" ", "")
                        if t.endswith("random_stateisnotNone"):
                            cut.append((n, "F"))
                        elif t.endswith("random_stateisNone"):
                            cut.append((n, "T"))
                seed_stmts = {du.stmt_of(s) for s in seeds}
                seeded = bool(seed_stmts) and not _reach_cut(du.cfg, ENTRY, st, seed_stmts, cut) and st not in seed_stmts
                if seeded:
                    # no draw between? (irrelevant: any sequence after a seed is deterministic)
                    R.ok(rule + ".draw", f.key, src(c)[:60], "global draw dominated by np.random.seed(random_state)", c.lineno)
                else:
                    R.violation(
                        rule + ".draw", f.key, src(c)[:60],
                        "draw from the process-global generator that is not preceded (on every path with an integer random_state) by a seed call: "
                        "the result depends on the global RNG state and on what was trained before", c.lineno,
                    )
                continue
            # ---- generator constructors ---------------------------------------------
            if d in GEN_CTORS:
                n_sites += 1
                du = du or get_defuse(f, P)
                arg = c.args[0] if c.args else next((k.value for k in c.keywords if k.arg == "seed"), None)
                if arg is None or (isinstance(arg, ast.Constant) and arg.value is None):
                    R.violation(rule + ".gen", f.key, src(c), "generator constructed without a seed", c.lineno)
                else:
                    cc = cone(du, arg, du.stmt_of(c), interproc=False)
                    ok = cc.has_attr("random_state") or "random_state" in cc.params or isinstance(arg, ast.Constant)
                    R.check(ok, rule + ".gen", f.key, src(c), "generator seeded from random_state", "generator seed does not come from random_state", c.lineno)
                continue
            if d in OTHER_NONDET:
                n_sites += 1
                R.violation(rule + ".nondet", f.key, src(c), f"{d} is a source of non-determinism in a training path", c.lineno)
                continue
            # ---- initialisers taking random_state ------------------------------------------
            tg = P.resolve_callee(c.func, f)
            target = None
            default = "<none>"
            for t in tg:
                if t[0] == "ctor" and t[2] is not None and "random_state" in t[2].params:
                    target = f"{t[1].name}(...)"
                    dflt = t[2].defaults.get("random_state")
                    default = const_value(dflt) if dflt is not None else None
                elif t[0] == "repo" and "random_state" in t[1].params:
                    target = t[1].key
                    dflt = t[1].defaults.get("random_state")
                    default = const_value(dflt) if dflt is not None else None
                elif t[0] == "lib" and t[1] in LIB_RANDOM_STATE_DEFAULT:
                    target = t[1]
                    default = LIB_RANDOM_STATE_DEFAULT[t[1]]
            if target is None:
                continue
            if any(t[0] == "ctor" and f.cls is not None and t[1] in P.mro(f.cls) and t[1] is not f.cls for t in tg) or (isinstance(c.func, ast.Attribute) and c.func.attr == "__init__"):
                continue  # super().__init__ forwarding is checked as an attribute store
            n_sites += 1
            du = du or get_defuse(f, P)
            kw = next((k.value for k in c.keywords if k.arg == "random_state"), None)
            what = f"{target} in `{src(c)[:50]}`"
            if kw is None:
                if default is None:
                    R.violation(rule + ".init", f.key, what, "random_state is not passed and the callee's default is None (fresh OS entropy on every call)", c.lineno)
                else:
                    R.ok(rule + ".init", f.key, what, f"callee default random_state={default!r} is a constant (reproducible)", c.lineno)
            elif isinstance(kw, ast.Constant) and kw.value is None:
                R.violation(rule + ".init", f.key, what, "random_state=None: unseeded initialisation", c.lineno)
            else:
                cc = cone(du, kw, du.stmt_of(c), interproc=False)
                ok = cc.has_attr("random_state") or "random_state" in cc.params or isinstance(kw, ast.Constant)
                R.check(ok, rule + ".init", f.key, what, "seeded from the configured random_state", "random_state argument does not come from the estimator's configuration", c.lineno)
    return n_sites


def check_random_state_stored(P, R, classes, rule="RNG.config"):
    """Each estimator keeps the random_state it was configured with."""
    for cn in classes:
        ci = P.cls(cn)
        init = ci.methods.get("__init__")
        if init is None or "random_state" not in init.params:
            continue
        stored = False
        forwarded = False
        for n in walk_no_nested(init.node):
            if isinstance(n, ast.Assign) and any(isinstance(t, ast.Attribute) and t.attr == "random_state" for t in n.targets):
                stored = isinstance(n.value, ast.Name) and n.value.id == "random_state"
            if isinstance(n, ast.Call) and isinstance(n.func, ast.Attribute) and n.func.attr == "__init__":
                forwarded = any(k.arg == "random_state" and isinstance(k.value, ast.Name) and k.value.id == "random_state" for k in n.keywords)
        R.check(stored or forwarded, rule, init.key, "self.random_state = random_state", "configured seed kept", "the configured random_state is dropped by the constructor (every instance trains with the base default)")
