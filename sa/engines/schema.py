"""SCHEMA: HDF5 writer/reader agreement (DESIGN 3.5, C18 rules S1-S8).

writer map   key -> attribute(s) of self the stored value derives from        (from `save`)
reader map   attribute <- keys in the def-use cone of the value it receives   (from `from_hdf5`;
             constructor parameters are traced to attributes through __init__)
"""
from __future__ import annotations

import ast

from ..cfg import ENTRY, guards_of
from ..dataflow import cone, get_defuse, stores
from ..frontend import const_value, src, walk_no_nested

DEREF_CALLS = ("array", "asarray", "reshape", "squeeze", "atleast_1d", "atleast_2d", "ravel")
DECODE_MARKS = ("decode", "asstr", "astype", "str")


class WEntry:
    def __init__(self, key, value, attrs, stmt, guards):
        self.key, self.value, self.attrs, self.stmt, self.guards = key, value, attrs, stmt, guards


def _h5_roots(func, du):
    """Names that denote the file (the hdf5 parameter) or a group of it: name -> key prefix."""
    roots = {}
    h = [p for p in func.value_params if p in ("hdf5", "h5", "hdf5_file", "file")]
    for p in h:
        roots[p] = ""
    changed = True
    while changed:
        changed = False
        # with <something opened from the file parameter> as f:
        for w in walk_no_nested(func.node):
            if isinstance(w, (ast.With, ast.AsyncWith)):
                for it in w.items:
                    if isinstance(it.optional_vars, ast.Name) and it.optional_vars.id not in roots and isinstance(it.context_expr, ast.Call) and any(isinstance(a, ast.Name) and a.id in roots and roots[a.id] == "" for a in it.context_expr.args):
                        roots[it.optional_vars.id] = ""
                        changed = True
        for st, t, v, k in stores(func):
            if not isinstance(t, ast.Name) or t.id in roots or v is None:
                continue
            # g = hdf5.create_group("x") | hdf5["x"] | hdf5.require_group("x")
            if isinstance(v, ast.Call) and isinstance(v.func, ast.Attribute) and v.func.attr in ("create_group", "require_group") and isinstance(v.func.value, ast.Name) and v.func.value.id in roots and v.args and isinstance(const_value(v.args[0]), str):
                roots[t.id] = roots[v.func.value.id] + const_value(v.args[0]) + "/"
                changed = True
            elif isinstance(v, ast.Subscript) and isinstance(v.value, ast.Name) and v.value.id in roots and _group_like(v, func):
                roots[t.id] = roots[v.value.id] + _keytext(v.slice) + "/"
                changed = True
            elif isinstance(v, ast.ListComp) and isinstance(v.elt, ast.Subscript) and isinstance(v.elt.value, ast.Name) and v.elt.value.id in roots and _keytext(v.elt.slice) is not None and _group_like(v.elt, func):
                # groups = [hdf5[f"g{i}"] for i in range(n)]: every variable that iterates over the list denotes one such group
                prefix = roots[v.elt.value.id] + _keytext(v.elt.slice) + "/"
                roots[t.id] = prefix  # the list itself (marks the comprehension's subscript as a group binding)
                for n in walk_no_nested(func.node):
                    if isinstance(n, ast.For) and isinstance(n.iter, ast.Name) and n.iter.id == t.id and isinstance(n.target, ast.Name):
                        roots[n.target.id] = prefix
                    if isinstance(n, (ast.ListComp, ast.GeneratorExp, ast.SetComp, ast.DictComp)):
                        for g in n.generators:
                            if isinstance(g.iter, ast.Name) and g.iter.id == t.id and isinstance(g.target, ast.Name):
                                roots[g.target.id] = prefix
                changed = True
            elif isinstance(v, ast.Call) and (src(v.func).endswith("HDF5File") or src(v.func).endswith("File")) and isinstance(t, ast.Name):
                # hdf5 = HDF5File(hdf5, "r")
                if any(isinstance(a, ast.Name) and a.id in roots for a in v.args):
                    roots[t.id] = ""
                    changed = True
    return roots


def _keytext(s):
    v = const_value(s)
    if isinstance(v, str):
        return v
    if isinstance(s, ast.JoinedStr):
        return "".join(p.value if isinstance(p, ast.Constant) else "{}" for p in s.values)
    if isinstance(s, ast.BinOp) and isinstance(s.op, ast.Add):
        # "prefix" + str(i)  /  "prefix%d" % i  are the same key family as f"prefix{i}"
        l, r = _keytext(s.left), _keytext(s.right)
        if l is not None or r is not None:
            return (l if l is not None else "{}") + (r if r is not None else "{}")
    if isinstance(s, ast.BinOp) and isinstance(s.op, ast.Mod) and isinstance(const_value(s.left), str):
        import re

        return re.sub(r"%[0-9]*[ds]", "{}", const_value(s.left))
    if isinstance(s, ast.Call) and isinstance(s.func, ast.Attribute) and s.func.attr == "format" and isinstance(const_value(s.func.value), str):
        import re

        return re.sub(r"\{[^}]*\}", "{}", const_value(s.func.value))
    return None


def _group_like(sub, func):
    """hdf5["x"] bound to a name that is later subscripted with a string key is a group."""
    st = sub
    while st is not None and not isinstance(st, ast.stmt):
        st = getattr(st, "_parent", None)
    if not isinstance(st, ast.Assign) or not isinstance(st.targets[0], ast.Name):
        return False
    if st.value is not sub and not (isinstance(st.value, ast.ListComp) and st.value.elt is sub):
        return False
    name = st.targets[0].id
    for n in walk_no_nested(func.node):
        if isinstance(n, ast.Subscript) and isinstance(n.value, ast.Name) and n.value.id == name and _keytext(n.slice) is not None:
            return True
    # a list of group handles: names = [h5[f"g{i}"] for i in ...] ; later `for g in names: g["key"]` / `[g["key"] for g in names]`
    if isinstance(st.value, (ast.ListComp, ast.List, ast.Tuple)):
        elem_vars = set()
        for n in walk_no_nested(func.node):
            if isinstance(n, ast.For) and isinstance(n.iter, ast.Name) and n.iter.id == name and isinstance(n.target, ast.Name):
                elem_vars.add(n.target.id)
            if isinstance(n, (ast.ListComp, ast.GeneratorExp, ast.SetComp, ast.DictComp)):
                for g in n.generators:
                    if isinstance(g.iter, ast.Name) and g.iter.id == name and isinstance(g.target, ast.Name):
                        elem_vars.add(g.target.id)
        for n in walk_no_nested(func.node):
            if isinstance(n, ast.Subscript) and isinstance(n.value, ast.Name) and n.value.id in elem_vars and _keytext(n.slice) is not None:
                return True
    return False


def writer_map(P, func):
    du = get_defuse(func, P)
    roots = _h5_roots(func, du)
    out = []
    me = func.self_name
    for st, t, v, k in stores(func):
        if isinstance(t, ast.Subscript) and isinstance(t.value, ast.Name) and t.value.id in roots and k == "assign":
            key = _keytext(t.slice)
            if key is None:
                # hdf5[key] = getattr(self, key) inside `for key in ("a", "b", ...)`: one entry per literal name
                if isinstance(t.slice, ast.Name):
                    lp = getattr(st, "_parent", None)
                    while lp is not None and not (isinstance(lp, ast.For) and isinstance(lp.target, ast.Name) and lp.target.id == t.slice.id):
                        lp = getattr(lp, "_parent", None)
                    lits = [const_value(e) for e in lp.iter.elts] if lp is not None and isinstance(lp.iter, (ast.Tuple, ast.List)) else []
                    if lits and all(isinstance(x, str) for x in lits):
                        c = cone(du, v, du.stmt_of(st), interproc=False)
                        via_getattr = any(isinstance(n, ast.Call) and isinstance(n.func, ast.Name) and n.func.id == "getattr" and len(n.args) >= 2 and isinstance(n.args[0], ast.Name) and n.args[0].id == me and isinstance(n.args[1], ast.Name) and n.args[1].id == t.slice.id for n in c.nodes)
                        for lit in lits:
                            out.append(WEntry(roots[t.value.id] + lit, v, {lit} if via_getattr else set(), st, guards_of(st)))
                continue
            c = cone(du, v, du.stmt_of(st), interproc=False)
            attrs = {a.split(".")[1] for a in c.attrs if a.split(".")[0] == me and len(a.split(".")) >= 2}
            out.append(WEntry(roots[t.value.id] + key, v, attrs, st, guards_of(st)))
    return out, roots


def version_arms(func):
    """(current_arm_stmts, legacy_arm_stmts, if_node): the If whose test reads the file version."""
    def rest_after(n):
        """An arm that ends in return / raise and has no else: the other arm is what follows the `if`."""
        par = getattr(n, "_parent", None)
        for fld in ("body", "orelse", "finalbody"):
            blk = getattr(par, fld, None)
            if isinstance(blk, list) and n in blk:
                return blk[blk.index(n) + 1:]
        return []

    for n in walk_no_nested(func.node):
        if isinstance(n, ast.If) and "version" in src(n.test):
            t = src(n.test).replace(" ", "")
            other = n.orelse
            if not other and n.body and isinstance(n.body[-1], (ast.Return, ast.Raise)):
                other = rest_after(n)
            if ">=1" in t or ">0" in t:
                return n.body, other, n
            if "<1" in t or "==0" in t:
                return other, n.body, n
    return None, None, None


def key_reads(expr_nodes, roots):
    """Subscript nodes root["key"] among the given nodes: [(node, fullkey)]."""
    out = []
    for n in expr_nodes:
        if isinstance(n, ast.Subscript) and isinstance(n.value, ast.Name) and n.value.id in roots:
            k = _keytext(n.slice)
            if k is not None:
                out.append((n, roots[n.value.id] + k))
    return out


def ctor_param_attrs(P, ci):
    """param -> attributes of self whose stored value (in __init__) depends on it."""
    init = P.lookup_method(ci, "__init__")
    out = {}
    if init is None:
        return out, None
    du = get_defuse(init, P)
    for st, t, v, k in stores(init):
        if isinstance(t, ast.Attribute) and isinstance(t.value, ast.Name) and t.value.id == init.self_name and v is not None:
            c = cone(du, v, du.stmt_of(st), interproc=False)
            direct = {n.id for n in ast.walk(v) if isinstance(n, ast.Name)} & set(init.value_params)
            for p in direct:
                out.setdefault(p, set()).add(t.attr)
    return out, init


def reader_sources(P, func, arm, roots):
    """attribute -> ordered list of (expr, stmt, via) for the object built in this arm.

    An arm may also only read the file into locals and leave the construction to statements shared by both arms after the version
    switch (`self = cls(**kwargs)` / `self.n = n`): the shared tail is then analysed with every name resolved to its definition in
    *this* arm."""
    du = get_defuse(func, P)
    ci = func.cls
    p2a, init = ctor_param_attrs(P, ci)
    srcs = {}
    order = 0
    objname = None
    arm = list(arm or [])
    # the statements that follow the version switch in its block
    tail = []
    if arm and not isinstance(arm[-1], (ast.Return, ast.Raise)):  # an arm that returns never reaches the statements after the switch
        sw = getattr(arm[0], "_parent", None)
        par = getattr(sw, "_parent", None)
        for fld in ("body", "orelse", "finalbody"):
            blk = getattr(par, fld, None)
            if isinstance(blk, list) and sw in blk and not any(sw_st is arm[0] for sw_st in blk):
                tail = blk[blk.index(sw) + 1:]
    arm_defs = {}
    for st in arm:
        for n in walk_no_nested(st):
            if isinstance(n, ast.Assign) and len(n.targets) == 1 and isinstance(n.targets[0], ast.Name):
                arm_defs[n.targets[0].id] = (n.value, n)

    def in_arm(expr, stmt, from_tail):
        """(expression, statement) with a name of the shared tail replaced by its definition in this arm"""
        if from_tail and isinstance(expr, ast.Name) and expr.id in arm_defs:
            return arm_defs[expr.id]
        return expr, stmt

    for st, from_tail in [(x, False) for x in arm] + [(x, True) for x in tail]:
        for n in walk_no_nested(st):
            if isinstance(n, ast.Assign) and isinstance(n.value, ast.Call) and isinstance(n.targets[0], ast.Name):
                tg = P.resolve_callee(n.value.func, func)
                if any(t[0] == "ctor" and t[1] is ci for t in tg):
                    objname = n.targets[0].id
                    args, kws = list(n.value.args), list(n.value.keywords)
                    # cls(**kwargs) with kwargs a dict literal of this arm
                    extra = []
                    for kw in list(kws):
                        if kw.arg is None:
                            dv, dst = in_arm(kw.value, n, True)
                            if isinstance(dv, ast.Dict) and all(isinstance(k_, ast.Constant) and isinstance(k_.value, str) for k_ in dv.keys):
                                extra += [ast.keyword(arg=k_.value, value=v_) for k_, v_ in zip(dv.keys, dv.values)]
                                kws.remove(kw)
                    bound = P.bind_args(init, args, kws + extra) if init else {}
                    for p, a in bound.items():
                        a2, st2 = in_arm(a, n, from_tail)
                        for attr in p2a.get(p, ()):  # via the constructor
                            order += 1
                            srcs.setdefault(attr, []).append((order, a2, st2 if st2 is not None else n, f"constructor parameter {p}"))
                    # parameters not passed: attribute gets the constructor default
                    if init:
                        for p in init.value_params:
                            if p not in bound:
                                for attr in p2a.get(p, ()):
                                    order += 1
                                    srcs.setdefault(attr, []).append((order, None, n, f"constructor default of {p}"))
            elif isinstance(n, (ast.Assign,)) and objname:
                for t in n.targets:
                    if isinstance(t, ast.Attribute) and isinstance(t.value, ast.Name) and t.value.id == objname:
                        order += 1
                        v2, st2 = in_arm(n.value, n, from_tail)
                        srcs.setdefault(t.attr, []).append((order, v2, st2, "attribute store"))
    return srcs, objname, du


def is_dereferenced(sub):
    """hdf5["k"] used as a value: must be indexed again ([()], [...], slice) or passed to an array constructor."""
    p = getattr(sub, "_parent", None)
    if isinstance(p, ast.Subscript) and p.value is sub:
        return True
    if isinstance(p, ast.Call) and p.args and p.args[0] is sub and src(p.func).split(".")[-1] in DEREF_CALLS:
        return True
    if isinstance(p, ast.Attribute) and p.value is sub and p.attr in ("asstr", "astype", "shape", "dtype", "attrs", "keys", "items"):
        return True
    return False
