"""GUARD: zero-count guards of divisions (DESIGN 3.9 / 4 C13).

Every division met by the DIM engine is classified by the abstract type and provenance of its denominator
(a per-component/per-cluster *count* is a pure number, extensive, with a component axis), and a count
denominator must match one of the accepted idioms:
  G1 np.clip(n, thr, None)         G2 np.where(n < thr, thr, n)       G2' np.maximum(n, thr)
  G3 the quotient is only consumed as the non-selected arm of np.where on `n < thr`
  G4 n + <positive configuration scalar>
"""
from __future__ import annotations

import ast

from ..dataflow import cone, get_defuse
from ..frontend import canon_text, const_value, src, walk_no_nested
from . import dimrun
from .dim import ZERO, fmt

COUNT_ATTRS = ("n", "nij")
VAR_ATTRS = ("variances", "_variances", "sigma", "variance_supervector")
SIZE_ATTRS = ("t",)


def _strip(e):
    while isinstance(e, ast.Subscript):
        e = e.value
    return e


def resolve(du, e, stmt, hops=6):
    """Follow subscripts and single-definition local names to the defining expression."""
    e = _strip(e)
    while isinstance(e, ast.Name) and hops > 0:
        rd = du.reaching(stmt, e.id)
        rd = [d for d in rd if d.how in ("assign",)]
        allrd = du.reaching(stmt, e.id)
        if len(rd) != 1 or len(allrd) != 1 or rd[0].value is None:
            break
        stmt, e = rd[0].stmt, _strip(rd[0].value)
        hops -= 1
    return e, stmt


def _is_count_expr(P, f, du, e, stmt):
    c = cone(du, e, stmt, interproc=False)
    if any(a.split(".")[-1] in COUNT_ATTRS for a in c.attrs):
        return True
    if c.calls_any("bincount"):
        return True
    return False


def classify(P, f, du, node, den_v, track_s):
    """-> (class, detail)"""
    den = node.right if isinstance(node, ast.BinOp) else (node.args[1] if isinstance(node, ast.Call) and len(node.args) >= 2 else getattr(node, "value", node))
    stmt = du.stmt_of(node)
    e, est = resolve(du, den, stmt)
    txt = src(e)
    # ---- floors --------------------------------------------------------------------------------
    if isinstance(e, ast.Call):
        fn = src(e.func).split(".")[-1]
        if fn == "clip":
            lo = e.args[1] if len(e.args) > 1 else next((k.value for k in e.keywords if k.arg in ("a_min", "min")), None)
            if lo is not None and not (isinstance(lo, ast.Constant) and lo.value is None):
                return "floored", f"G1 np.clip lower bound `{src(lo)}`"
        if fn in ("maximum", "fmax") and len(e.args) == 2:
            return "floored", "G2' np.maximum with a floor"
        if fn == "where" and len(e.args) == 3 and isinstance(e.args[0], ast.Compare):
            cmp_ = e.args[0]
            if isinstance(cmp_.ops[0], (ast.Lt, ast.LtE)) and src(e.args[1]) == src(cmp_.comparators[0]) and src(_strip(e.args[2])) == src(_strip(cmp_.left)):
                return "floored", "G2 np.where(n < thr, thr, n)"
            if isinstance(cmp_.ops[0], (ast.Gt, ast.GtE)) and src(e.args[2]) == src(cmp_.comparators[0]) and src(_strip(e.args[1])) == src(_strip(cmp_.left)):
                return "floored", "G2 np.where(n > thr, n, thr)"
        if fn == "sum" or (isinstance(e.func, ast.Attribute) and e.func.attr == "sum"):
            return "own-sum/data-size", "sum of counts or weights (positive for non-empty data)"
        if fn == "len":
            return "data-size", "len()"
    if isinstance(e, ast.BinOp) and isinstance(e.op, ast.Add):
        for cnt, other in ((e.left, e.right), (e.right, e.left)):
            if _is_count_expr(P, f, du, cnt, est):
                oc = cone(du, other, est, interproc=False)
                ob = _strip(other)
                # a configuration scalar: a positive literal, a parameter of the function, or an attribute of one - never a value
                # computed from the data inside the function (another count, a bincount, a sum)
                is_cfg = (isinstance(ob, ast.Constant) and isinstance(ob.value, (int, float)) and ob.value > 0) or (isinstance(ob, ast.Name) and ob.id in f.params and all(d.how == "param" for d in du.reaching(est, ob.id))) or (isinstance(ob, ast.Attribute) and not oc.calls)
                if is_cfg and not any(a.split(".")[-1] in COUNT_ATTRS + SIZE_ATTRS for a in oc.attrs) and (oc.params or oc.consts) and not oc.calls_any("bincount", "sum", "count_nonzero", "len"):
                    return "floored", f"G4 count + configuration scalar `{src(other)}`"
    # ---- by abstract type -------------------------------------------------------------------------
    c = cone(du, den, stmt, interproc=False)
    last = {a.split(".")[-1] for a in c.attrs}
    if den_v is not None and den_v.is_numlike and not den_v.is_unk:
        if den_v.wild:
            return "constant/config", fmt(den_v)
        if den_v.u != ZERO and not (last & set(COUNT_ATTRS)):
            return "dimensioned", fmt(den_v)
        if track_s and den_v.u == ZERO and den_v.s == 1:
            if den_v.sh is not None and "C" in den_v.sh:
                return "count", fmt(den_v)
            if den_v.sh is not None and "C" not in den_v.sh:
                return "data-size", fmt(den_v)
    if last & set(COUNT_ATTRS) or c.calls_any("bincount"):
        if last & set(SIZE_ATTRS) and not (last & set(COUNT_ATTRS)):
            return "data-size", txt
        return "count", txt
    if last & set(SIZE_ATTRS) or "n_samples" in c.params:
        return "data-size", txt
    if last & set(VAR_ATTRS):
        return "variance", txt
    return "other", txt


def masked_by_where(P, f, du, node):
    """G3: the quotient (or the local it is assigned to) is only consumed as the non-selected arm of an
    np.where whose condition tests a count against a threshold."""
    def arm_of_guard(n):
        p = getattr(n, "_parent", None)
        child = n
        while p is not None and not isinstance(p, ast.stmt):
            if isinstance(p, ast.Call) and src(p.func).split(".")[-1] == "where" and len(p.args) == 3 and child in p.args[1:]:
                cond = p.args[0]
                if isinstance(cond, ast.Compare) and len(cond.ops) == 1:
                    cc = cone(du, cond, du.stmt_of(p), interproc=False)
                    on_count = any(a.split(".")[-1] in COUNT_ATTRS + SIZE_ATTRS for a in cc.attrs) or cc.calls_any("abs")
                    small_true = isinstance(cond.ops[0], (ast.Lt, ast.LtE, ast.Eq))
                    if on_count and ((small_true and child is p.args[2]) or (not small_true and child is p.args[1])):
                        return True
            child = p
            p = getattr(p, "_parent", None)
        return False

    if arm_of_guard(node):
        return True
    st = du.stmt_of(node)
    if isinstance(st, ast.Assign) and len(st.targets) == 1 and isinstance(st.targets[0], ast.Name):
        name = st.targets[0].id
        uses = []
        for n in walk_no_nested(f.node):
            if isinstance(n, ast.Name) and n.id == name and isinstance(n.ctx, ast.Load):
                ust = du.stmt_of(n)
                if any(d.stmt is st for d in du.reaching(ust, name)):
                    uses.append(n)
        if uses and all(arm_of_guard(u) for u in uses):
            return True
    return False


def type_canon(num_v, den_v):
    """The construct as `<abstract type of the numerator> / <abstract type of the denominator>` (unit, extent, axes): the same for
    every spelling of the same quotient (renamed locals, temporaries, np.divide, reshape instead of [:, None])."""
    def t(v):
        if v is None or not getattr(v, "is_numlike", False) or v.is_unk:
            return "?"
        return fmt(v.copy(cval=None, sh=None))
    return f"{t(num_v)} / {t(den_v)}"


def check_divisions(P, R, roots, modules, rule="GUARD.div"):
    obs, rets = dimrun.run_roots(P, roots)
    seen = {}
    for n in roots:
        key, params, track_s, modes, expect = dimrun.ROOTS[n]
        for mode in modes:
            _o, _r, ctx = dimrun._CACHE[(id(P), n, mode)]
            for fkey, node, num_v, den_v in ctx.facts.get("divs", []):
                if fkey.split(":")[0] not in modules:
                    continue
                k = (fkey, src(node))
                if k in seen:
                    continue
                seen[k] = (fkey, node, den_v, track_s, num_v)
    n_sites = 0
    # alternatives: count divisions of one function with the same type form that sit in mutually exclusive arms of a test
    from ..cfg import guards_of
    alt_of = {}
    by_fn = {}
    for k_, (fk, node, den_v, track_s, num_v) in seen.items():
        by_fn.setdefault((fk, type_canon(num_v, den_v)), []).append((k_, node))
    for (fk, cn), sites in by_fn.items():
        if len(sites) < 2:
            continue
        f_ = P.func(fk)
        du_ = get_defuse(f_, P)
        gs = {}
        for k_, node in sites:
            try:
                gs[k_] = {(id(t_), p_) for t_, p_ in guards_of(du_.stmt_of(node))}
            except Exception:
                gs[k_] = set()
        for i, (k1, n1) in enumerate(sites):
            for k2, n2 in sites[i + 1:]:
                if any((t_, not p_) in gs[k2] for t_, p_ in gs[k1]):
                    root = alt_of.get(k1) or alt_of.get(k2) or f"{fk}#{cn}#{min(n1.lineno, n2.lineno)}"
                    alt_of[k1] = alt_of[k2] = root
    for (fkey, txt), (fk, node, den_v, track_s, num_v) in sorted(seen.items()):
        f = P.func(fk)
        du = get_defuse(f, P)
        cls, detail = classify(P, f, du, node, den_v, track_s)
        n_sites += 1
        what = txt[:80]
        if cls == "count":
            if masked_by_where(P, f, du, node):
                R.ok(rule, fk, what, "count denominator; G3: quotient only used as the non-selected arm of np.where on the same test", node.lineno)
            else:
                R.violation(rule, fk, what, f"division by a per-component/per-cluster count ({detail}) that is neither floored (np.clip / np.where / np.maximum / + positive scalar) nor masked: a component or cluster that receives no data gives 0/0 = NaN parameters", node.lineno, canon=type_canon(num_v, den_v), alt=alt_of.get((fkey, txt)))
        else:
            R.ok(rule, fk, what, f"denominator class: {cls} ({detail})", node.lineno, nontrivial=cls in ("floored",))
    return n_sites
