"""LOOP: skeleton of an iterate-until-converged training loop (DESIGN 4 C03, rules L1-L6).

Two instances, cross-checked as siblings: GMMMachine.fit and KMeansMachine.fit.
"""
from __future__ import annotations

import ast

from ..cfg import ENTRY, EXIT, guards_of
from ..dataflow import cone, get_defuse, stores
from ..frontend import const_value, src, walk_no_nested


class LoopFacts:
    pass


def _self_attr(e, selfname):
    return isinstance(e, ast.Attribute) and isinstance(e.value, ast.Name) and e.value.id == selfname


def calls_mstep(P, f, call, mstep_names, depth=0):
    """Does this call invoke an M-step, directly or through a helper of the package (one EM iteration factored out)?"""
    fexpr = P.peel_call(call, f)[1]
    if src(fexpr).split(".")[-1] in mstep_names:
        return True
    if depth >= 2:
        return False
    for t_ in P.resolve_callee(fexpr, f):
        if t_[0] == "repo" and t_[1].qualname.split(".")[-1] not in ("fit", "initialize", "initialize_gaussians"):
            g = t_[1]
            if any(isinstance(c, ast.Call) and calls_mstep(P, g, c, mstep_names, depth + 1) for c in walk_no_nested(g.node)):
                return True
    return False


def analyse(P, R, key, cap_attr, thr_attr, mstep_names, rule="LOOP"):
    f = P.func(key)
    R.analysed(f)
    du = get_defuse(f, P)
    cfg = du.cfg
    me = f.self_name
    F = LoopFacts()
    F.func, F.du = f, du
    # ---- L1: the loop, its cap and its counter -------------------------------------------------
    loops = [n for n in cfg.nodes() if isinstance(n, (ast.While, ast.For)) and any(isinstance(c, ast.Call) and calls_mstep(P, f, c, mstep_names) for c in walk_no_nested(n))]
    # keep the outermost loops only
    loops = [l for l in loops if not any(l is not o and any(x is l for x in walk_no_nested(o)) for o in loops)]
    if len(loops) != 1:
        R.violation(rule + ".L1", key, "single training loop", f"{len(loops)} loops contain the M-step (expected exactly one)")
        return None
    loop = loops[0]
    F.loop = loop
    step = None
    init = None
    passes_expr = None
    def _is_cap(e, depth=0):
        """`self.<cap>` itself, or a local bound once to it / to `self.<cap> if <test on it> else None` (a normalised cap)"""
        if _self_attr(e, me) and e.attr == cap_attr:
            return True
        if isinstance(e, ast.Name) and depth < 3:
            rd_ = [d for d in du.reaching(loop, e.id) if not _inside(d.stmt, loop)]
            if len(rd_) == 1 and rd_[0].how == "assign" and rd_[0].value is not None:
                v_ = rd_[0].value
                if isinstance(v_, ast.IfExp):
                    arms = [v_.body, v_.orelse]
                    caps = [a_ for a_ in arms if _is_cap(a_, depth + 1)]
                    nones = [a_ for a_ in arms if isinstance(a_, ast.Constant) and a_.value is None]
                    return len(caps) == 1 and len(nones) == 1 and any(_self_attr(x, me) and x.attr == cap_attr for x in ast.walk(v_.test))
                return _is_cap(v_, depth + 1)
        return False

    if isinstance(loop, ast.While):
        t = loop.test
        cmp_ = None
        none_ok = False
        parts = t.values if isinstance(t, ast.BoolOp) and isinstance(t.op, ast.Or) else [t]
        for p_ in parts:
            if isinstance(p_, ast.Compare) and len(p_.ops) == 1 and isinstance(p_.ops[0], ast.Is) and const_value(p_.comparators[0]) is None and p_.comparators[0].value is None and _is_cap(p_.left):
                none_ok = True
            elif isinstance(p_, ast.Compare) and len(p_.ops) == 1:
                cmp_ = p_
        if isinstance(t, ast.BoolOp) and isinstance(t.op, ast.And):
            R.violation(rule + ".L1", key, f"while {src(t)}", "continuation is a conjunction: training with no iteration cap never starts or stops early", loop.lineno)
            return None
        if cmp_ is None:
            R.violation(rule + ".L1", key, f"while {src(t)}", f"loop condition does not compare the step counter with self.{cap_attr}: the iteration cap is not enforced", loop.lineno)
            return None
        l, op, r = cmp_.left, cmp_.ops[0], cmp_.comparators[0]
        if _is_cap(l) and isinstance(r, ast.Name) and not _is_cap(r):
            # cap > step
            l, r = r, l
            op = {ast.Gt: ast.Lt(), ast.GtE: ast.LtE()}.get(type(op), op)
        if not (isinstance(l, ast.Name) and _is_cap(r)):
            R.violation(rule + ".L1", key, f"while {src(t)}", f"loop condition is not `step < self.{cap_attr}`: `{src(cmp_)}`", loop.lineno)
            return None
        R.check(none_ok, rule + ".L1-nocap", key, f"while {src(t)}", "runs unbounded when the cap is None", f"`self.{cap_attr} is None or ...` is missing: a machine configured without iteration cap fails or never trains", loop.lineno)
        step = l.id
        rd = [d for d in du.reaching(loop, step) if not _inside(d.stmt, loop)]
        inits = {const_value(d.value) for d in rd if d.how == "assign"}
        if len(inits) != 1 or None in inits:
            R.undecided(rule + ".L1", key, f"initial value of {step}", "not a single literal")
            return None
        init = inits.pop()
        if isinstance(op, ast.Lt):
            n_extra = -init  # passes = cap - init
        elif isinstance(op, ast.LtE):
            n_extra = 1 - init
        else:
            R.violation(rule + ".L1", key, f"while {src(t)}", "loop condition is not an upper bound on the step counter", loop.lineno)
            return None
        R.check(n_extra == 0, rule + ".L1-cap", key, f"{step} = {init}; while {src(cmp_)}", "exactly max iterations passes",
                f"the loop runs cap{n_extra:+d} passes instead of exactly the configured maximum", loop.lineno)
        incs = [s for s in walk_no_nested(loop) if isinstance(s, ast.AugAssign) and isinstance(s.target, ast.Name) and s.target.id == step]
        other = [s for s in walk_no_nested(loop) if isinstance(s, ast.Assign) and any(isinstance(t_, ast.Name) and t_.id == step for t_ in s.targets)]
        ok_inc = len(incs) == 1 and not other and isinstance(incs[0].op, ast.Add) and const_value(incs[0].value) == 1 and incs[0] in loop.body
        R.check(ok_inc, rule + ".L1-inc", key, f"{step} += 1 once per pass", "", f"the step counter is not incremented by exactly one, unconditionally, once per pass ({[src(s) for s in incs + other]})", loop.lineno)
        if not ok_inc:
            return None
        F.inc = incs[0]
    else:
        # for step in range(1, cap + 1)  /  range(cap)  /  a name bound to such a range, or to itertools.count(k) when the cap is None
        it = loop.iter
        forms = [it]
        if isinstance(it, ast.Name):
            rd_ = [d for d in du.reaching(loop, it.id) if not _inside(d.stmt, loop)]
            forms = [d.value for d in rd_ if d.how == "assign" and d.value is not None]
            if not forms or len(forms) != len(rd_):
                R.undecided(rule + ".L1", key, f"for {src(loop.target)} in {src(it)}", "loop form not recognised")
                return None
            form_stmts = {id(d.value): d.stmt for d in rd_}
        if not isinstance(loop.target, ast.Name) or not all(isinstance(x, ast.Call) and src(x.func).split(".")[-1] in ("range", "count") for x in forms):
            R.undecided(rule + ".L1", key, f"for {src(loop.target)} in {src(it)}", "loop form not recognised")
            return None
        step = loop.target.id

        def _cap_expr(e):
            if isinstance(e, ast.Call) and isinstance(e.func, ast.Name) and e.func.id == "int" and len(e.args) == 1:
                e = e.args[0]
            return _is_cap(e)
        inits = set()
        ok = True
        n_range = 0
        for fx in forms:
            fn_ = src(fx.func).split(".")[-1]
            args = fx.args
            if fn_ == "count":
                # unbounded: only for a machine configured without a cap
                from ..cfg import guards_of as _gof
                st_ = form_stmts.get(id(fx)) if isinstance(it, ast.Name) else None
                gs_ = _gof(st_) if st_ is not None else []
                nocap = any(isinstance(t_, ast.Compare) and len(t_.ops) == 1 and isinstance(t_.ops[0], ast.Is) and isinstance(t_.comparators[0], ast.Constant) and t_.comparators[0].value is None and _is_cap(t_.left) and pol_ for t_, pol_ in gs_)
                R.check(nocap, rule + ".L1-nocap", key, f"{src(fx)}", "unbounded only when the cap is None", "an unbounded counter is used although an iteration cap may be configured", loop.lineno)
                ok = ok and nocap
                inits.add((const_value(args[0]) if args else 0) - 1)
                continue
            n_range += 1
            if len(args) == 1:
                init_, hi = 0, args[0]
            else:
                init_, hi = const_value(args[0]), args[1]
            if _cap_expr(hi) and init_ == 0:
                inits.add(-1)  # passes = cap
            elif isinstance(hi, ast.BinOp) and isinstance(hi.op, ast.Add) and _cap_expr(hi.left) and const_value(hi.right) == 1 and init_ == 1:
                inits.add(0)
            else:
                ok = False
        ok = ok and n_range >= 1 and len(inits) == 1
        init = (inits.pop() + 1) if len(inits) == 1 else None
        R.check(ok, rule + ".L1-cap", key, f"for {step} in {src(it)}", "exactly max iterations passes", "the for-range does not run exactly the configured maximum number of passes", loop.lineno)
        if not ok:
            return None
        F.inc = None
    F.step, F.init = step, init
    # ---- L2: the single early exit -----------------------------------------------------------------
    brks = [s for s in walk_no_nested(loop) if isinstance(s, ast.Break)]
    rets_in = [s for s in walk_no_nested(loop) if isinstance(s, (ast.Return, ast.Raise))]
    if len(brks) != 1 or rets_in:
        R.violation(rule + ".L2", key, "single early exit", f"{len(brks)} break(s) and {len(rets_in)} return/raise inside the loop: the stopping rule is not the stated one (expected exactly one break)")
        return None
    brk = brks[0]
    g = [(t, pol) for t, pol in guards_of(brk, stop=loop) if pol is True or pol is False]
    conds = []

    def _is_thr(e, depth=0):
        """`self.<threshold>` itself, or a local bound once (outside the loop) to it"""
        if _self_attr(e, me) and e.attr == thr_attr:
            return True
        if isinstance(e, ast.Name) and depth < 3:
            rd_ = [d for d in du.reaching(loop, e.id) if not _inside(d.stmt, loop)]
            inner_ = [d for d in du.all_defs(e.id) if _inside(d.stmt, loop)] if hasattr(du, "all_defs") else []
            return len(rd_) == 1 and not inner_ and rd_[0].how == "assign" and rd_[0].value is not None and _is_thr(rd_[0].value, depth + 1)
        return False

    from ..dataflow import resolve_name as _rn_loop
    for t, pol in g:
        if t is loop.test if isinstance(loop, ast.While) else False:
            continue
        if isinstance(t, ast.Name):
            t = _rn_loop(du, t, du.stmt_of(brk) if False else [s_ for s_ in walk_no_nested(loop) if isinstance(s_, ast.If) and s_.test is t][0] if any(isinstance(s_, ast.If) and s_.test is t for s_ in walk_no_nested(loop)) else brk)[0]  # `converged = ...; if converged: break`
        parts = t.values if isinstance(t, ast.BoolOp) and isinstance(t.op, ast.And) and pol else [t]
        for p_ in parts:
            conds.append((p_, pol))
    thr_notnone = False
    thr_cmp = None
    step_guard = None
    for c, pol in conds:
        if isinstance(c, ast.Compare) and len(c.ops) == 1:
            l, op, r = c.left, c.ops[0], c.comparators[0]
            if _is_thr(l) and isinstance(op, ast.IsNot) and const_value(r) is None and pol:
                thr_notnone = True
            elif _is_thr(r) and pol:
                thr_cmp = (c, l, op)
            elif _is_thr(l) and pol:
                # thr >= value
                flip = {ast.GtE: ast.LtE(), ast.Gt: ast.Lt(), ast.LtE: ast.GtE(), ast.Lt: ast.Gt()}
                thr_cmp = (c, r, flip.get(type(op), op))
            elif isinstance(l, ast.Name) and l.id == step and pol:
                step_guard = (c, op, const_value(r))
            elif isinstance(l, ast.Name) and l.id == step and pol is False:
                # `if step <= 1: continue` before the test: the test runs when step > 1 (the counter is an integer)
                neg = {ast.LtE: ast.Gt(), ast.Lt: ast.GtE(), ast.Gt: ast.LtE(), ast.GtE: ast.Lt()}
                if type(op) in neg:
                    step_guard = (c, neg[type(op)], const_value(r))
    if thr_cmp is None:
        R.violation(rule + ".L2", key, "break guarded by value <= threshold", f"the early exit is not guarded by a comparison with self.{thr_attr}", brk.lineno)
        return None
    R.check(thr_notnone, rule + ".L2-nothr", key, f"self.{thr_attr} is not None and ...", "no early stop without threshold", f"the early exit does not test `self.{thr_attr} is not None`: training with no threshold raises or stops wrongly", brk.lineno)
    c, val, op = thr_cmp
    R.check(isinstance(op, ast.LtE), rule + ".L2-op", key, src(c), "stops when the change is at or below the threshold",
            f"comparison `{src(c)}` is not `<=`: training does not stop exactly when the relative change is at or below the threshold", c.lineno)
    F.value = val
    F.brk = brk
    # ---- L3: relative change -----------------------------------------------------------------------
    vdef = None
    vexpr = val
    vstmt = du.stmt_of(c)
    if isinstance(val, ast.Name):
        rd = du.reaching(vstmt, val.id)
        if len(rd) == 1 and rd[0].value is not None:
            vexpr, vstmt = rd[0].value, rd[0].stmt
        else:
            R.undecided(rule + ".L3", key, f"definition of {val.id}", "not a single definition")
            return None
    rel = _relative_change(vexpr)
    if rel is None:
        R.violation(rule + ".L3", key, src(vexpr)[:70], "the convergence value is not abs((previous - current) / previous): not the relative change of the criterion", vstmt.lineno)
        return None
    a, b, den = rel
    F.prev = den if den in (a, b) else None
    names = {a, b}
    R.check(den in names, rule + ".L3", key, src(vexpr)[:70], "relative change of two criteria", "the difference is not divided by one of the two criteria", vstmt.lineno)
    # ---- L4: prev receives cur before cur is redefined; cur is the M-step's second result ----------
    # identify prev: the one whose reaching definition at the value statement is a plain copy made inside the loop
    prev = cur = None
    for cand in (a, b):
        rd = du.reaching(vstmt, cand)
        if len(rd) == 1 and rd[0].how == "assign" and isinstance(rd[0].value, ast.Name) and rd[0].value.id in names - {cand} and _inside(rd[0].stmt, loop):
            prev, cur = cand, (names - {cand}).pop()
            pstmt = rd[0].stmt
    if prev is None:
        R.violation(rule + ".L4", key, f"previous criterion among {sorted(names)}", "neither operand of the relative change is a copy of the other taken inside the loop: the comparison is not between consecutive iterations", vstmt.lineno)
        return None
    F.prev, F.cur, F.pstmt, F.vstmt = prev, cur, pstmt, vstmt
    # cur definitions reaching the value statement
    cur_defs = du.reaching(vstmt, cur)
    in_loop_defs = [d for d in cur_defs if _inside(d.stmt, loop)]
    R.check(bool(in_loop_defs) and len(in_loop_defs) == len(cur_defs), rule + ".L4-cur", key, f"{cur} at the test is this pass's criterion", "", f"the current criterion `{cur}` may still hold a value from before this pass when it is tested", vstmt.lineno)
    # prev = cur runs before cur is redefined in the pass
    for d in in_loop_defs:
        ok = cfg.reach_avoiding(pstmt, d.stmt, {loop}) and not cfg.reach_avoiding(d.stmt, pstmt, {loop})
        R.check(ok, rule + ".L4-order", key, f"`{src(pstmt)}` before `{src(d.stmt)[:50]}`", "previous criterion saved before the update", f"`{prev} = {cur}` is executed after the criterion is updated: previous and current are the same value and training stops at the second iteration", pstmt.lineno)
    # initial previous criterion / step guard
    outer = [d for d in du.reaching(pstmt, cur) if not _inside(d.stmt, loop)]
    init_vals = [d.value for d in outer if d.how == "assign"]
    F.init_prev = init_vals[0] if init_vals else None
    inf_init = bool(init_vals) and all(src(v) in ("np.inf", "numpy.inf", "float('inf')", "math.inf") for v in init_vals)
    inc_before = True
    if F.inc is not None:
        inc_before = cfg.reach_avoiding(F.inc, vstmt, {loop}) and not cfg.reach_avoiding(vstmt, F.inc, {loop})
    # value of step at the test in pass k: init + k (increment first) or init + k - 1; for-range: init + k - 1
    base = init + (0 if (F.inc is not None and inc_before) else -1)
    none_init = bool(init_vals) and all(isinstance(v, ast.Constant) and v.value is None for v in init_vals)
    none_guard = False
    if step_guard is None and none_init:
        # `prev = None` before the loop and the test guarded by `prev is not None`: skipped on the first pass, where prev still is
        # the initial None, run from the second pass on (the criterion the M-step returns is a number, never None)
        from ..cfg import enclosing_guards as _eg_l2
        for test_, pol_ in _eg_l2(du.stmt_of(c)) + _eg_l2(brk):
            for x_ in ast.walk(test_):
                if isinstance(x_, ast.Compare) and len(x_.ops) == 1 and isinstance(x_.ops[0], ast.IsNot) and isinstance(x_.left, ast.Name) and x_.left.id == prev and isinstance(x_.comparators[0], ast.Constant) and x_.comparators[0].value is None and pol_:
                    none_guard = True
    if step_guard is None and none_guard:
        R.ok(rule + ".L2-second", key, f"`{prev} is not None` guards the test, `{cur} = None` before the loop", "test first reachable on the second pass", brk.lineno)
    elif step_guard is None:
        if inf_init:
            R.ok(rule + ".L2-second", key, "no step guard, initial previous criterion is inf", "first comparison is nan <= thr (false): behaviour unchanged")
        else:
            R.violation(rule + ".L2-second", key, "step guard of the early exit", f"the convergence test also runs on the first iteration, where the previous criterion is the initial literal `{src(init_vals[0]) if init_vals else '?'}` (division by it / spurious stop)", brk.lineno)
    else:
        gc, gop, gval = step_guard
        if gval is None or not isinstance(gop, (ast.Gt, ast.GtE)):
            R.undecided(rule + ".L2-second", key, src(gc), "step guard form not recognised")
        else:
            first_k = (gval + 1 if isinstance(gop, ast.Gt) else gval) - base  # smallest k with step_k > g
            first_k = max(first_k, 1)
            if first_k == 2:
                R.ok(rule + ".L2-second", key, src(gc), "test first reachable on the second pass", gc.lineno)
            elif first_k < 2 and inf_init:
                R.ok(rule + ".L2-second", key, src(gc), "reachable on the first pass but the initial previous criterion is inf (vacuous)", gc.lineno)
            else:
                R.violation(rule + ".L2-second", key, src(gc), f"the convergence test is first evaluated on pass {first_k}, not on the second: training stops {'later' if first_k > 2 else 'on a meaningless first comparison'}", gc.lineno)
    # ---- L6: nothing is trained after the exit -----------------------------------------------------
    after = [s for s in cfg.nodes() if not _inside(s, loop) and s is not loop and cfg.reach_avoiding(loop, s) and not cfg.reach_avoiding(s, loop)]
    after += [s for s in walk_no_nested(loop) if isinstance(s, ast.stmt) and any(s is x or _inside(s, x) for x in loop.orelse)]
    for s in after:
        for st, t, v, k in stores(s) if not isinstance(s, (ast.Return, ast.Expr)) else []:
            if isinstance(t, ast.Attribute) and isinstance(t.value, ast.Name) and t.value.id == me:
                R.violation(rule + ".L6", key, src(st)[:60], "a model attribute is written after the training loop has stopped: the returned model is not the one produced by the last executed M-step", st.lineno)
        if isinstance(s, ast.Expr) and isinstance(s.value, ast.Call):
            nm = src(s.value.func)
            if not (nm.startswith("logger.") or nm.startswith("logging.") or nm == "print"):
                R.violation(rule + ".L6", key, src(s)[:60], "a call after the training loop may change the model", s.lineno)
    rets = [r for r in walk_no_nested(f.node) if isinstance(r, ast.Return)]
    for r in rets:
        R.check(isinstance(r.value, ast.Name) and r.value.id == me, rule + ".L6-ret", key, f"return {src(r.value) if r.value else None}", "returns the trained machine", "fit does not return the machine it trained", r.lineno)
    return F


def _inside(st, loop):
    p = st
    while p is not None:
        if p is loop:
            return st is not loop
        p = getattr(p, "_parent", None)
    return False


def _is_abs(e):
    return isinstance(e, ast.Call) and src(e.func) in ("abs", "np.abs", "numpy.abs", "np.absolute", "np.fabs", "math.fabs") and len(e.args) == 1


def _relative_change(e):
    """abs((a - b) / c)  |  abs(a - b) / abs(c)  |  abs(a - b) / c  -> (a, b, c) names"""
    def names_sub(x):
        if isinstance(x, ast.BinOp) and isinstance(x.op, ast.Sub) and isinstance(x.left, ast.Name) and isinstance(x.right, ast.Name):
            return x.left.id, x.right.id
        return None
    if _is_abs(e):
        inner = e.args[0]
        if isinstance(inner, ast.BinOp) and isinstance(inner.op, ast.Div):
            ns = names_sub(inner.left)
            den = inner.right
            if _is_abs(den):
                den = den.args[0]
            if ns and isinstance(den, ast.Name):
                return ns[0], ns[1], den.id
        return None
    if isinstance(e, ast.BinOp) and isinstance(e.op, ast.Div) and _is_abs(e.left):
        ns = names_sub(e.left.args[0])
        den = e.right
        if _is_abs(den):
            den = den.args[0]
            if ns and isinstance(den, ast.Name):
                return ns[0], ns[1], den.id
        # abs(a-b)/c with c possibly negative (log-likelihood): not a magnitude
        return None
    return None


def check_criterion_source(P, R, F, key, mstep_names, rule="LOOP.L4-mstep"):
    """In both arms the current criterion is the second component of the M-step's return."""
    f, du, loop = F.func, F.du, F.loop
    cur = F.cur
    n = 0

    def second_of_mstep(d, depth=0, f=f, du=du):
        """Does definition d carry component 1 of an M-step call (possibly through dask.compute(...)[0], an attribute copy, or a
        helper of the package that returns it)?"""
        if depth > 6 or d.value is None:
            return False
        v = d.value
        idx = d.index
        if d.how == "assign" and isinstance(v, ast.Call):
            # criterion = _em_iteration(...): every return of the helper carries the M-step's second result
            for t_ in P.resolve_callee(P.peel_call(v, f)[1], f):
                if t_[0] == "repo" and t_[1].qualname.split(".")[-1] not in mstep_names:
                    g = t_[1]
                    gdu = get_defuse(g, P)
                    rets = [r for r in walk_no_nested(g.node) if isinstance(r, ast.Return) and r.value is not None]
                    if rets and all(isinstance(r.value, ast.Name) and gdu.reaching(r, r.value.id) and all(second_of_mstep(x, depth + 1, g, gdu) for x in gdu.reaching(r, r.value.id)) for r in rets):
                        return True
        if d.how == "assign" and isinstance(v, ast.Attribute):
            # distance = self.average_min_distance : follow the access path
            path = src(v)
            rd = du.reaching(d.stmt, path)
            return bool(rd) and all(second_of_mstep(x, depth + 1, f, du) for x in rd)
        if d.how == "assign" and isinstance(v, ast.Name):
            rd = du.reaching(d.stmt, v.id)
            return bool(rd) and all(second_of_mstep(x, depth + 1, f, du) for x in rd)
        if d.how == "unpack" and idx == 1:
            # peel dask.compute(X)[0]
            e = v
            if isinstance(e, ast.Subscript) and const_value(e.slice) == 0 and isinstance(e.value, ast.Call) and (P.dotted(e.value.func, f) or "").endswith("compute") and e.value.args:
                e = e.value.args[0]
            elif isinstance(e, ast.Call) and isinstance(e.func, ast.Attribute) and e.func.attr == "compute" and not e.args:
                e = e.func.value  # <Delayed>.compute()
            # the Delayed may have been bound to a name first
            from ..dataflow import resolve_name as _rn
            e = _rn(du, e, d.stmt)[0]
            if isinstance(e, ast.Call):
                kind, fexpr, args, kws = P.peel_call(e, f)
                return src(fexpr).split(".")[-1] in mstep_names
        return False

    vst = F.vstmt
    for d in du.reaching(vst, cur):
        if not _inside(d.stmt, loop):
            continue
        n += 1
        R.check(second_of_mstep(d), rule, key, f"{cur} <- `{src(d.stmt)[:60]}`", "second component of the M-step's result", f"the criterion tested for convergence is not the value returned by the M-step (`{src(d.stmt)[:60]}`)", d.stmt.lineno)
    return n
