"""SEQ: update order and freshest-argument rule in block-coordinate loops; ARGROLE: argument/parameter
role agreement at calls of the per-class kernels (DESIGN 3.4 SEQ, 4 C07/C09)."""
from __future__ import annotations

import ast

from ..cfg import ENTRY, EXIT
from ..dataflow import cone, get_defuse, stores
from ..frontend import src, walk_no_nested

BLOCK_UPDATERS = {"x": ("compute_latent_x",), "y": ("update_y",), "z": ("update_z",)}
BLOCK_PARAM = {"x": "latent_x", "y": "latent_y", "z": "latent_z"}


def _update_calls(P, f):
    """Assignments `name = self.<updater>(...)` in f: [(stmt, block, call, target name)]."""
    out = []
    for st, t, v, k in stores(f):
        if k != "assign" or not isinstance(v, ast.Call) or not isinstance(v.func, ast.Attribute):
            continue
        for b, names in BLOCK_UPDATERS.items():
            if v.func.attr in names and isinstance(t, ast.Name):
                out.append((st, b, v, t.id))
    return out


def _origins(du, name, stmt, depth=0):
    """Resolve a local through plain copies (a = b, a = b[0]) to the statements that produced the value."""
    out = set()
    for d in du.reaching(stmt, name):
        if d.how == "param":
            out.add(("param", name))
        elif d.how in ("assign", "unpack") and isinstance(d.value, ast.Name) and depth < 6:
            out |= _origins(du, d.value.id, d.stmt, depth + 1)
        else:
            out.add(("stmt", d.stmt))
    return out


def _inplace_updater(P, callee, param):
    """The callee fills its `param` in place and returns that same object on every path."""
    rets = [r for r in walk_no_nested(callee.node) if isinstance(r, ast.Return)]
    if not rets or not all(isinstance(r.value, ast.Name) and r.value.id == param for r in rets):
        return False
    rebinds = [st for st, t, v, k in stores(callee) if isinstance(t, ast.Name) and t.id == param]
    fills = [st for st, t, v, k in stores(callee) if isinstance(t, ast.Subscript) and isinstance(t.value, ast.Name) and t.value.id == param]
    return bool(fills) and not rebinds


def _same_object_updated(P, f, du, org, fr, ups, block):
    """Every freshest update missing from the argument's origins mutated the argument's object in place."""
    missing = fr - org
    if org - fr or not missing:
        return False  # the argument may hold a value older than every freshest update
    for m in missing:
        if m[0] != "stmt":
            return False
        ent = next((u for u in ups if u[0] is m[1]), None)
        if ent is None:
            return False
        st, b, c, t = ent
        callee = next((x[1] for x in P.resolve_callee(c.func, f) if x[0] == "repo"), None)
        if callee is None or not _inplace_updater(P, callee, BLOCK_PARAM[b]):
            return False
        a = P.bind_args(callee, c.args, c.keywords).get(BLOCK_PARAM[b])
        if not isinstance(a, ast.Name):
            return False
        ao = _origins(du, a.id, st)
        upd = {u[0] for u in ups if u[1] == b}
        ao_n = {o if (o[0] == "stmt" and o[1] in upd) else ("init", b) for o in ao}
        if not (ao_n <= org | fr):
            return False
    return True


def check_enroll_loop(P, R, key, blocks, rule="SEQ.enroll"):
    """Every block is updated once per pass with the freshest values of the other blocks; the loop runs
    enroll_iterations times; the returned factors are the last ones computed."""
    f = P.func(key)
    R.analysed(f)
    du = get_defuse(f, P)
    cfg = du.cfg
    ups = _update_calls(P, f)
    loops = [n for n in cfg.nodes() if isinstance(n, (ast.For, ast.While)) and any(cfg.in_loop(st) and _inside(st, n) for st, b, c, t in ups)]
    if not loops:
        R.violation(rule + ".loop", key, "enrolment loop", "no loop around the factor updates: enrolment ignores enroll_iterations")
        return
    loop = loops[0]
    # iteration count
    if isinstance(loop, ast.For):
        c = cone(du, loop.iter, loop, interproc=False)
        ok = c.has_attr("enroll_iterations") and any(isinstance(n, ast.Call) and src(n.func) == "range" for n in c.nodes)
        exact = False
        for n in c.nodes:
            if isinstance(n, ast.Call) and src(n.func) == "range" and len(n.args) == 1:
                a = n.args[0]
                ac = cone(du, a, loop, interproc=False)
                exact = ac.has_attr("enroll_iterations") and not any(isinstance(x, ast.BinOp) for x in ac.nodes)
        R.check(ok and exact, rule + ".count", key, f"for ... in {src(loop.iter)}", "runs enroll_iterations passes", "the enrolment loop does not run exactly enroll_iterations passes", loop.lineno)
    else:
        # a counting loop: `k = 0; while k < N: k += 1; ...` runs N passes (k advanced by exactly one, once, unconditionally)
        t = loop.test
        ctr = bound = None
        if isinstance(t, ast.Compare) and len(t.ops) == 1:
            if isinstance(t.ops[0], ast.Lt) and isinstance(t.left, ast.Name):
                ctr, bound = t.left.id, t.comparators[0]
            elif isinstance(t.ops[0], ast.Gt) and isinstance(t.comparators[0], ast.Name):
                ctr, bound = t.comparators[0].id, t.left
        decided = False
        if ctr is not None:
            incs = [st for st in walk_no_nested(loop) if isinstance(st, ast.AugAssign) and isinstance(st.target, ast.Name) and st.target.id == ctr]
            other = [d for d in du.all_defs(ctr) if _inside(d.stmt, loop) and d.stmt not in incs]
            init = [d for d in du.reaching(loop, ctr) if not _inside(d.stmt, loop)]
            one_inc = len(incs) == 1 and incs[0] in loop.body and isinstance(incs[0].op, ast.Add) and isinstance(incs[0].value, ast.Constant) and incs[0].value.value == 1
            zero = len(init) == 1 and init[0].how == "assign" and isinstance(init[0].value, ast.Constant) and init[0].value.value == 0 and not isinstance(init[0].value.value, bool)
            exits = [x for x in walk_no_nested(loop) if isinstance(x, (ast.Break, ast.Continue, ast.Return))]
            if one_inc and zero and not other and not exits:
                bc = cone(du, bound, loop, interproc=False)
                exact = bc.has_attr("enroll_iterations") and not any(isinstance(x, ast.BinOp) for x in bc.nodes)
                R.check(exact, rule + ".count", key, f"while {src(t)} with {ctr} += 1", "runs enroll_iterations passes", "the enrolment loop does not run exactly enroll_iterations passes", loop.lineno)
                decided = True
        if not decided:
            R.undecided(rule + ".count", key, "while-loop enrolment", "iteration count of this while loop is not modelled (not the counting form `k = 0; while k < N: k += 1`)")
    in_loop = [(st, b, c, t) for st, b, c, t in ups if _inside(st, loop)]
    for b in blocks:
        mine = [x for x in in_loop if x[1] == b]
        R.check(len(mine) >= 1, rule + ".block", key, f"block {b} updated in every pass", "", f"the {BLOCK_PARAM[b]} block is never updated inside the enrolment loop: the iteration is not block-coordinate ascent over all factors", loop.lineno)
        for st, _b, c, t in mine:
            # unconditional within the pass
            uncond = cfg.must_pass_before_exit(loop, [st] + [EXIT]) if False else not _conditional(st, loop)
            R.check(uncond, rule + ".block", key, f"{src(c.func)} runs on every pass", "", f"update of block {b} is conditional inside the loop", st.lineno)
    # freshest-argument rule
    upd_stmts = {b: [st for st, bb, c, t in ups if bb == b] for b in BLOCK_UPDATERS}

    def freshest(b, at):
        out = set()
        for s in upd_stmts[b]:
            if cfg.reach_avoiding(s, at, set(upd_stmts[b]) - {s}) or (s is at and False):
                out.add(("stmt", s))
        if cfg.reach_avoiding(ENTRY, at, set(upd_stmts[b])):
            out.add(("init", b))
        return out

    for st, b, c, t in in_loop:
        tg = P.resolve_callee(c.func, f)
        callee = next((x[1] for x in tg if x[0] == "repo"), None)
        if callee is None:
            R.undecided(rule + ".fresh", key, src(c.func), "updater not resolved")
            continue
        bound = P.bind_args(callee, c.args, c.keywords)
        for ob in blocks:
            p = BLOCK_PARAM[ob]
            if p not in callee.params:
                continue
            a = bound.get(p)
            what = f"{src(c.func)}({p}={src(a) if a is not None else '<default>'})"
            if a is None:
                if ob != b:
                    R.violation(rule + ".fresh", key, what, f"{p} is not passed: the update of block {b} is not conditioned on the current {p}", st.lineno)
                continue
            if not isinstance(a, ast.Name):
                if isinstance(a, ast.Constant) and a.value is None:
                    R.violation(rule + ".fresh", key, what, f"{p}=None: block {ob} is ignored when updating block {b}", st.lineno)
                else:
                    R.undecided(rule + ".fresh", key, what, "argument is not a local name")
                continue
            org = _origins(du, a.id, st)
            fr = freshest(ob, st)
            # initial values: anything that is not an updater assignment counts as init
            org_n = {o if (o[0] == "stmt" and o[1] in upd_stmts[ob]) else ("init", ob) for o in org}
            if ob == b:
                # own previous value: only used as an output buffer; no constraint
                continue
            R.check(
                org_n == fr or _same_object_updated(P, f, du, org_n, fr, ups, ob), rule + ".fresh", key, what,
                "most recent value of the block",
                f"{p} passed to the update of block {b} is not the most recent {p} (stale by an update): Gauss-Seidel becomes Jacobi and ascent of the joint posterior is lost", st.lineno,
            )
    # returned factors
    for r in [n for n in walk_no_nested(f.node) if isinstance(n, ast.Return) and n.value is not None]:
        names = [n for n in ast.walk(r.value) if isinstance(n, ast.Name)]
        for b in blocks:
            if b == "x":
                continue
            cand = [n for n in names if any(("stmt", s) in _origins(du, n.id, r) for s in upd_stmts[b])]
            def _n(n):
                return {o if (o[0] == "stmt" and o[1] in upd_stmts[b]) else ("init", b) for o in _origins(du, n.id, r)}
            ok = bool(cand) and all(_n(n) == freshest(b, r) for n in cand)
            if not ok:
                allb = [n for n in names if _n(n)]
                ok = any(_same_object_updated(P, f, du, _n(n), freshest(b, r), ups, b) for n in allb)
            R.check(ok, rule + ".ret", key, f"return {src(r.value)} carries the last {BLOCK_PARAM[b]}", "", f"the returned {BLOCK_PARAM[b]} is not the one computed by the last update", r.lineno)


def _inside(st, loop):
    p = st
    while p is not None:
        if p is loop:
            return True
        p = getattr(p, "_parent", None)
    return False


def _conditional(st, loop):
    p = getattr(st, "_parent", None)
    while p is not None and p is not loop:
        if isinstance(p, (ast.If, ast.Try, ast.While, ast.For)):
            return True
        p = getattr(p, "_parent", None)
    return False


ROLE = {
    # kernel parameter -> caller value it must derive from (same role, per-class slice)
    "latent_x_i": "latent_x", "latent_y_i": "latent_y", "latent_z_i": "latent_z",
    "n_acc_i": "n_acc", "f_acc_i": "f_acc", "X_i": "X",
    "latent_x": "latent_x", "latent_y": "latent_y", "latent_z": "latent_z", "n_acc": "n_acc", "f_acc": "f_acc",
    "UProd": "UProd", "VProd": "VProd", "X": "X", "y": "y",
}


# The role of a value is fixed by the method that creates or updates it (and the position in its result).  Method names
# are interface, not locals; the table was filled by reading FactorAnalysisBase / ISVMachine / JFAMachine.
ROLE_OF_RESULT = {
    "initialize_XYZ": ("latent_x", "latent_y", "latent_z"),
    "initialize": ("n_acc", "f_acc"),
    "_sum_n_statistics": "n_acc",
    "_sum_f_statistics": "f_acc",
    "_compute_uprod": "UProd",
    "_compute_vprod": ("VProd",),
    "compute_latent_x": "latent_x",
    "update_x": "latent_x",
    "update_y": "latent_y",
    "update_z": "latent_z",
}


def _role_of_param(name):
    r = ROLE.get(name)
    return r if r else (name if name in set(ROLE.values()) else None)


def origin_roles(P, f, du, e, st, index=None, seen=None):
    """(roles, defs): the roles a value is *created* with - a parameter of that role, the result of the method that
    creates / updates that block, an element or alias of such a value - and the definitions that carry no such
    evidence (their role is then decided by consistency between their uses).  Never by the name of a local."""
    seen = seen if seen is not None else set()
    roles, plain = set(), set()
    if isinstance(e, ast.Subscript):
        return origin_roles(P, f, du, e.value, st, index, seen)
    if isinstance(e, ast.Call):
        kind, fexpr, args, kws = P.peel_call(e, f)
        name = fexpr.attr if isinstance(fexpr, ast.Attribute) else (fexpr.id if isinstance(fexpr, ast.Name) else None)
        if name in ROLE_OF_RESULT:
            r = ROLE_OF_RESULT[name]
            if isinstance(r, str):
                return {r}, plain
            if index is not None and index < len(r):
                return {r[index]}, plain
            return (set(r) if len(r) == 1 else set()), plain
        return roles, plain
    if not isinstance(e, ast.Name):
        return roles, plain
    for d in du.reaching(st, e.id):
        k = (id(d.stmt), d.var, d.index)
        if k in seen:
            continue
        seen.add(k)
        if d.how == "param":
            r = _role_of_param(d.var)
            if r:
                roles.add(r)
            continue
        v = d.value
        if v is None:
            continue
        idx = d.index if d.how in ("unpack", "iter") else None
        if d.how == "iter" and isinstance(v, ast.Call) and isinstance(v.func, ast.Name) and v.func.id in ("zip", "enumerate"):
            tgt = None
            if v.func.id == "zip" and idx is not None and idx < len(v.args):
                tgt = v.args[idx]
            elif v.func.id == "enumerate" and idx == 1 and v.args:
                tgt = v.args[0]
            if tgt is not None:
                r2, p2 = origin_roles(P, f, du, tgt, d.stmt, None, seen)
                roles |= r2
                plain |= p2
            continue
        if isinstance(v, (ast.Name, ast.Subscript, ast.Call)):
            r2, p2 = origin_roles(P, f, du, v, d.stmt, idx, seen)
            roles |= r2
            plain |= p2
            if not r2 and not p2:
                plain.add(k)
        else:
            plain.add(k)
    return roles, plain


def check_arg_roles(P, R, caller_keys, rule="ARGROLE"):
    """At calls between factor-analysis kernels, each argument feeds the parameter of the same role."""
    n = 0
    for key in caller_keys:
        f = P.func(key)
        R.analysed(f)
        du = get_defuse(f, P)
        by_def = {}
        for c in [x for x in walk_no_nested(f.node) if isinstance(x, ast.Call)]:
            kind, fexpr, args, kws = P.peel_call(c, f)
            if not (isinstance(fexpr, ast.Attribute) and isinstance(fexpr.value, ast.Name) and fexpr.value.id == f.self_name):
                continue
            tg = [t[1] for t in P.resolve_callee(fexpr, f) if t[0] == "repo"]
            if not tg:
                continue
            callee = tg[0]
            bound = P.bind_args(callee, args, kws)
            for p, a in bound.items():
                want = ROLE.get(p)
                if want is None:
                    continue
                if isinstance(a, ast.Constant) and a.value is None:
                    continue
                role_names, plain = origin_roles(P, f, du, a, du.stmt_of(c))
                what = f"{callee.qualname.split('.')[-1]}({p}={src(a)[:40]})"
                for k in plain:
                    by_def.setdefault(k, []).append((want, what, c.lineno))
                if not role_names:
                    continue  # created from something else entirely: decided by the consistency of its uses (below)
                n += 1
                ok = want in role_names
                R.check(ok, rule, key, what, f"{want} -> {p}", f"parameter {p} receives `{src(a)}` (created as {sorted(role_names)}), expected the {want} of the same class: factors are crossed", c.lineno)
        # values without a role-defining creator: all their uses must agree on one role
        for k, uses in by_def.items():
            wants = {w for w, _, _ in uses}
            if len(uses) < 2:
                continue
            n += 1
            R.check(len(wants) == 1, rule, key, f"{uses[0][1]} and {len(uses) - 1} other use(s) of the same value", f"always passed as {sorted(wants)[0]}", f"the same value is passed as {sorted(wants)} ({'; '.join(u[1] for u in uses[:4])}): factors are crossed", uses[0][2])
    return n
