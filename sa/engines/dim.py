"""DIM: dimension, sample-extent, log-scale and axis-kind inference (DESIGN 3.1).

A units-of-measure type inference over NumPy arithmetic, specialised to this package:

  U   the feature unit (what x -> a*x scales); exponents are linear forms p + q*d in the
      symbolic feature count d (needed for sum_d log var and densities U^-d)
  S   sample extent: +1 for a quantity summed over the sample axis, 0 for per-sample / averaged
  K   class-count extent (WCCN scaling)
  log a value is either linear-domain U^e S^s or log-domain LOG[U^e] S^s
  shape: tuple over axis kinds N C D K M T R F(=C*D flattened) 1 ?  (or None = unknown)

Literals, module constants, zeros/ones/eye, RNG draws and configuration scalars are
polymorphic (wild).  Nothing is executed; no values other than literal constants are tracked.
"""
from __future__ import annotations

import ast
from fractions import Fraction as Fr

from ..frontend import ClassInfo, Func, attr_chain, const_value, src, walk_no_nested

ZERO = (Fr(0), Fr(0))


def lf(p=0, q=0):
    return (Fr(p), Fr(q))


def lf_add(a, b):
    return (a[0] + b[0], a[1] + b[1])


def lf_scale(a, c):
    c = Fr(c).limit_denominator(1000) if not isinstance(c, Fr) else c
    return (a[0] * c, a[1] * c)


def lf_str(a):
    p, q = a
    if q == 0:
        return f"{p}"
    if p == 0:
        return f"{q}d" if q != 1 else "d"
    return f"{p}+{q}d"


class V:
    __slots__ = ("k", "u", "s", "kk", "sh", "wild", "cval", "count_of", "index_of", "elem", "axis", "obj", "tup", "note", "origin", "part", "mconst", "lconst", "dconst", "naive_exp", "sw")

    def __init__(self, k="unk", u=ZERO, s=0, sh=None, wild=False, cval=None, count_of=None, index_of=None, elem=None, axis=None, obj=None, tup=None, note="", kk=0, origin=None):
        self.k, self.u, self.s, self.sh, self.wild, self.cval = k, u, Fr(s), sh, wild, cval
        self.count_of, self.index_of, self.elem, self.axis, self.obj, self.tup, self.note = count_of, index_of, elem, axis, obj, tup, note
        self.kk = Fr(kk)
        self.origin = origin
        self.part = False  # computed from a single block of a block list (not yet folded over the blocks)
        # compile-time constant folding of the Gaussian normaliser (C01 CONST):
        self.mconst = 1.0   # linear value = mconst * (dimensioned part); None = unknown factor
        self.lconst = 0.0   # log value  = log(dimensioned part) + lconst (per element); None = unknown
        self.dconst = 0.0   # log value  = ... + dconst * d (d = feature count); None = unknown
        self.naive_exp = False  # exp() of an un-normalised log-density (a dimensioned linear density)
        # translation weight (TRANSL): how the value moves when data and centroids are shifted by a common offset b:
        # 0 = unchanged by construction, 1 = moves by b, "N" = depends on b unless terms cancel numerically, None = not tracked
        self.sw = None

    def copy(self, **kw):
        v = V(self.k, self.u, self.s, self.sh, self.wild, self.cval, self.count_of, self.index_of, self.elem, self.axis, self.obj, self.tup, self.note, self.kk, self.origin)
        v.part = self.part
        v.mconst, v.lconst, v.dconst, v.naive_exp = self.mconst, self.lconst, self.dconst, self.naive_exp
        v.sw = self.sw
        for a, b in kw.items():
            setattr(v, a, b if a not in ("s", "kk") else Fr(b))
        return v

    @property
    def is_unk(self):
        return self.k == "unk"

    @property
    def is_numlike(self):
        return self.k in ("num", "log")

    def dim_key(self):
        return (self.k, self.u, self.s, self.kk)

    def __repr__(self):
        return fmt(self)


def fmt(v):
    if v is None:
        return "None"
    if v.k == "unk":
        return "?" + (f"({v.note})" if v.note else "")
    if v.k == "obj":
        return f"<{v.obj}>" + ("~block" if v.part else "")
    if v.k == "list":
        return f"list[{v.axis}] of {fmt(v.elem)}"
    if v.k == "tuple":
        return "(" + ", ".join(fmt(x) for x in v.tup) + ")"
    if v.k in ("none", "bool", "str", "func", "set", "range", "blocks"):
        return v.k
    if v.k == "dict":
        return f"dict of {fmt(v.elem)}"
    sh = "" if v.sh is None else "[" + ",".join(v.sh) + "]"
    if v.wild:
        return "*" + sh
    core = f"U^{lf_str(v.u)}" if v.u != ZERO else "1"
    if v.k == "log":
        core = f"LOG[{core}]"
    if v.s != 0:
        core += f"·S^{v.s}"
    if v.kk != 0:
        core += f"·K^{v.kk}"
    return core + sh + ("~block" if v.part else "")


UNK = V("unk")
BLOCK_AXES = ("B", "?1")


def _sw(v):
    """translation weight of an operand: polymorphic constants do not move"""
    if v.sw is not None:
        return v.sw
    if v.wild or v.count_of or v.index_of:
        return 0
    return None


def shift_binop(op, a, b):
    x, y = _sw(a), _sw(b)
    if x is None and y is None:
        return None
    if x is None or y is None:
        # one operand untracked: only a constant factor/offset keeps the information
        return None
    if isinstance(op, (ast.Add, ast.Sub)):
        if x == "N" or y == "N":
            return "N"
        w = x + y if isinstance(op, ast.Add) else x - y
        return w if w in (0, 1) else "N"
    if isinstance(op, (ast.Mult, ast.MatMult, ast.Div, ast.FloorDiv)):
        if x == 0 and y == 0:
            return 0
        if isinstance(op, ast.Mult) and ((a.wild and a.cval == 1) or (b.wild and b.cval == 1)):
            return y if a.wild else x
        return "N"  # a product involving a quantity that moves with the offset depends on the offset
    if isinstance(op, ast.Pow):
        return 0 if x == 0 else "N"
    return None


def mark_part(v, flag=True):
    """A copy of v flagged as computed from one block only (deep for tuples)."""
    if v is None:
        return v
    if v.k == "tuple" and v.tup is not None:
        w = V("tuple", tup=tuple(mark_part(x, flag) for x in v.tup), note=v.note)
        w.part = flag
        return w
    w = v.copy()
    w.part = flag
    return w


def any_part(vals):
    for v in vals:
        if v is None:
            continue
        if v.part:
            return True
        if v.k == "tuple" and v.tup and any_part(v.tup):
            return True
    return False


def unk(note=""):
    return V("unk", note=note)


def num(u=0, s=0, sh=None, qd=0, kk=0, **kw):
    return V("num", lf(u, qd), s, sh, kk=kk, **kw)


def logv(u=0, s=0, sh=None, qd=0):
    return V("log", lf(u, qd), s, sh)


def wild(sh=None, cval=None):
    return V("num", ZERO, 0, sh, wild=True, cval=cval)


def parse_type(t):
    """Declaration mini-language: 'U2 S [C,D]', 'LOG U-d S [N]', '1 [C]', '* ', 'obj:GMMStats', 'list:B:<type>'
    tokens: U<p>, U<q>d (e.g. U-d, U2d), S, S0, K, LOG, 1, *, [axes], count:<axis>"""
    t = t.strip()
    if t.startswith("obj:"):
        return V("obj", obj=t[4:])
    if t.startswith("list:"):
        _, ax, rest = t.split(":", 2)
        return V("list", axis=ax, elem=parse_type(rest))
    if t.startswith("count:"):
        return V("num", count_of=t[6:], wild=False, s=1 if t[6:] == "N" else 0)
    if t.startswith("tuple:"):
        return V("tuple", tup=tuple(parse_type(x) for x in t[6:].split("|")))
    if t == "?":
        return unk("declared unknown")
    if t == "none":
        return V("none")
    if t in ("true", "false"):
        return V("bool", cval=(t == "true"))
    sh = None
    if "[" in t:
        t, shs = t.split("[")
        shs = shs.rstrip("]").strip()
        sh = tuple(x.strip() for x in shs.split(",")) if shs else ()
        t = t.strip()
    k = "num"
    u = ZERO
    s = Fr(0)
    kk = Fr(0)
    w = False
    dconst = 0.0
    sw = None
    for tok in t.split():
        if tok == "LOG":
            k = "log"
        elif tok == "*":
            w = True
        elif tok == "1":
            pass
        elif tok in ("inv", "eqv"):
            sw = 0 if tok == "inv" else 1
        elif tok == "c2pi":
            dconst = 1.8378770664093453  # log(2*pi) per feature
        elif tok == "-halfc2pi":
            dconst = -0.9189385332046727
        elif tok.startswith("S"):
            s = Fr(tok[1:]) if len(tok) > 1 else Fr(1)
        elif tok.startswith("K"):
            kk = Fr(tok[1:]) if len(tok) > 1 else Fr(1)
        elif tok.startswith("U"):
            e = tok[1:] or "1"
            if e.endswith("d"):
                c = e[:-1]
                c = {"": "1", "-": "-1", "+": "1"}.get(c, c)
                u = lf_add(u, lf(0, Fr(c)))
            else:
                u = lf_add(u, lf(Fr(e), 0))
    if k == "log" and u == ZERO:
        k = "num"  # the logarithm of a pure number is a pure number
    v = V(k, u, s, sh, wild=w, kk=kk)
    v.dconst = dconst
    v.sw = sw
    return v


# ---------------------------------------------------------------------------------------------
# shapes
# ---------------------------------------------------------------------------------------------

def bshape(a, b, ctx):
    """Broadcast two shapes; returns (shape, mismatch description or None)."""
    if a is None or b is None:
        return None, None
    return _bshape(a, b)


def vshape(a, b):
    """Broadcast the shapes of two values; a polymorphic value of unknown shape does not constrain the result."""
    if a.sh is None and a.wild:
        return b.sh, None
    if b.sh is None and b.wild:
        return a.sh, None
    return bshape(a.sh, b.sh, None)


def _bshape(a, b):
    n = max(len(a), len(b))
    aa = ("1",) * (n - len(a)) + tuple(a)
    bb = ("1",) * (n - len(b)) + tuple(b)
    out = []
    bad = None
    for x, y in zip(aa, bb):
        if x == y:
            out.append(x)
        elif x == "1":
            out.append(y)
        elif y == "1":
            out.append(x)
        elif x == "?" or y == "?":
            out.append("?")
        else:
            bad = f"axis kinds {x} and {y} are broadcast against each other ({list(a)} with {list(b)})"
            out.append("?")
    return tuple(out), bad


def norm_axis(ax, n):
    if ax is None:
        return None
    if ax < 0:
        ax += n
    return ax if 0 <= ax < n else None


class DimError(Exception):
    pass


class Ctx:
    """One analysis run: obligations are reported through `report` callbacks so that each property decides
    which of them it owns."""

    def __init__(self, P, decls, on_violation, on_ok, on_undecided, track_s=True, max_depth=8, assume_dask=None):
        self.assume_dask = assume_dask  # True / False: specialise array-type switches; None: analyse both arms and join
        self.P = P
        self.decls = decls  # dict with keys 'attrs', 'params', 'returns'
        self.viol = on_violation
        self.okcb = on_ok
        self.undec = on_undecided
        self.track_s = track_s
        self.max_depth = max_depth
        self.memo = {}
        self.stack = []
        self.unknown_constructs = []
        self.fold_sites = []  # (func key, node, value) accumulation over a block list
        self.facts = {}  # free-form facts recorded for property-specific rules

    # -- declared types --------------------------------------------------------------------
    def attr_decl(self, clsname, attr):
        P = self.P
        ci = P.class_index.get(clsname)
        names = [c.name for c in P.mro(ci)] if ci else [clsname]
        for n in names:
            t = self.decls.get("attrs", {}).get(f"{n}.{attr}")
            if t is not None:
                return parse_type(t)
        return None


class Interp:
    def __init__(self, ctx, func, depth=0):
        self.c = ctx
        self.f = func
        self.P = ctx.P
        self.depth = depth
        self.rets = []
        self.loop_axes = []  # stack of axis kinds of enclosing loops over lists/ranges
        self.loop_nodes = []  # the For statements themselves (same depth as loop_axes for `for` loops)

    # -- reporting helpers -----------------------------------------------------------------
    def where(self):
        return self.f.key

    def violation(self, rule, node, msg):
        self.c.viol(rule, self.where(), src(node)[:90] if isinstance(node, ast.AST) else str(node), msg, getattr(node, "lineno", None))

    def ok(self, rule, node, msg=""):
        self.c.okcb(rule, self.where(), src(node)[:90] if isinstance(node, ast.AST) else str(node), msg, getattr(node, "lineno", None))

    def undecided(self, rule, node, msg):
        self.c.undec(rule, self.where(), src(node)[:90] if isinstance(node, ast.AST) else str(node), msg, getattr(node, "lineno", None))

    # -- running ---------------------------------------------------------------------------------
    def run(self, env):
        self.exec_block(self.f.body(), env)
        return self.rets

    def exec_block(self, stmts, env):
        for st in stmts:
            if env.get("<dead>"):
                return
            self.exec_stmt(st, env)

    def exec_stmt(self, st, env):
        if isinstance(st, ast.Assign):
            v = self.ev(st.value, env)
            for t in st.targets:
                self.assign(t, v, env, st)
        elif isinstance(st, ast.AnnAssign):
            if st.value is not None:
                self.assign(st.target, self.ev(st.value, env), env, st)
        elif isinstance(st, ast.AugAssign):
            cur = self.ev(_load(st.target), env)
            inc = self.ev(st.value, env)
            res = self.binop(st.op, cur, inc, st, aug=True)
            # fold over a block list?
            if self.loop_axes and self.loop_axes[-1] in BLOCK_AXES and isinstance(st.op, ast.Add):
                res = mark_part(res, False)
                self.c.fold_sites.append((self.f.key, st, inc))
                # an increment that reads loop-carried state (a running mean / count updated in the same loop) is not a plain
                # per-block partial: the rule below does not apply to such recurrences
                carried = set()
                if self.loop_nodes:
                    written = set()
                    for x in ast.walk(self.loop_nodes[-1]):
                        if isinstance(x, (ast.Assign, ast.AugAssign, ast.AnnAssign)):
                            for t_ in (x.targets if isinstance(x, ast.Assign) else [x.target]):
                                for n_ in ast.walk(t_):
                                    if isinstance(n_, ast.Name):
                                        written.add(n_.id)
                    for n_ in ast.walk(self.loop_nodes[-1].target):
                        if isinstance(n_, ast.Name):
                            written.discard(n_.id)
                    carried = {n_.id for n_ in ast.walk(st.value) if isinstance(n_, ast.Name)} & written
                    # names freshly computed from the block in this iteration do not count: only those that also depend on a
                    # previous iteration, i.e. are read before being written in the body or are augmented in place
                    first_use = {}
                    for x in self.loop_nodes[-1].body:
                        for n_ in ast.walk(x):
                            if isinstance(n_, ast.Name) and n_.id in written and n_.id not in first_use:
                                first_use[n_.id] = "aug" if isinstance(x, ast.AugAssign) and any(n2 is n_ for n2 in ast.walk(x.target)) else ("load" if isinstance(n_.ctx, ast.Load) else "store")
                    state = {k_ for k_, v_ in first_use.items() if v_ in ("load", "aug")}
                    carried = self._depends_on(st.value, state, self.loop_nodes[-1])
                if carried:
                    pass
                elif self.c.track_s and inc.is_numlike and not inc.wild and inc.s == 0 and not inc.is_unk:
                    self.violation("EXT.D4", st, f"`{src(st)}` sums a per-block value of type {fmt(inc)} over the blocks: it is intensive (an average over the block's samples, S^0), so the sum over blocks is chunk-dependent and not the whole-data quantity; block partials must be sums over samples (S^1)")
                elif inc.is_numlike and not inc.wild:
                    self.ok("EXT.D4", st, f"block partial {fmt(inc)} is extensive")
            self.assign(st.target, res, env, st, aug=True)
        elif isinstance(st, ast.Expr):
            self.ev(st.value, env)
            # list.append(x)
            c = st.value
            if isinstance(c, ast.Call) and isinstance(c.func, ast.Attribute) and c.func.attr == "append" and isinstance(c.func.value, ast.Name) and c.args:
                name = c.func.value.id
                lst = env.get(name)
                ev = self.ev(c.args[0], env)
                ax = self.loop_axes[-1] if self.loop_axes else "?"
                if lst is not None and lst.k == "list":
                    el = ev if lst.elem is None else self.join(lst.elem, ev, st)
                    env[name] = V("list", axis=lst.axis if lst.axis not in (None, "empty") else ax, elem=el)
        elif isinstance(st, ast.If):
            self.exec_if(st, env)
        elif isinstance(st, (ast.For, ast.AsyncFor)):
            self.exec_for(st, env)
        elif isinstance(st, ast.While):
            self.ev(st.test, env)
            pre = dict(env)
            for _ in range(2):
                self.exec_block(st.body, env)
                env.pop("<dead>", None)
                self.join_env(env, pre, st)
            self._tree_fold(st, env)
            self.exec_block(st.orelse, env)
        elif isinstance(st, ast.Return):
            v = self.ev(st.value, env) if st.value is not None else V("none")
            self.rets.append((st, v))
            self.c.facts.setdefault("returns", []).append((self.f.key, st, v))
            env["<dead>"] = True
        elif isinstance(st, ast.Raise):
            env["<dead>"] = True
        elif isinstance(st, ast.Try):
            self.exec_block(st.body, env)
            for h in st.handlers:
                e2 = dict(env)
                e2.pop("<dead>", None)
                self.exec_block(h.body, e2)
                self.join_env(env, e2, st)
            self.exec_block(st.orelse, env)
            self.exec_block(st.finalbody, env)
        elif isinstance(st, (ast.With, ast.AsyncWith)):
            self.exec_block(st.body, env)
        elif isinstance(st, (ast.Import, ast.ImportFrom, ast.Pass, ast.Delete, ast.Global, ast.Nonlocal, ast.FunctionDef, ast.ClassDef, ast.Assert, ast.Break, ast.Continue)):
            pass
        else:
            self.c.unknown_constructs.append((self.f.key, type(st).__name__))

    def _tree_fold(self, st, env):
        """`while len(L) > 1:` whose body rebuilds L from sums of its elements leaves the fold of all elements in L[0]
        (that every element is covered is the business of the COVER rules, not of the typing)."""
        t = st.test
        if isinstance(t, ast.NamedExpr):
            return
        if not (isinstance(t, ast.Compare) and len(t.ops) == 1 and isinstance(t.left, ast.Call) and isinstance(t.left.func, ast.Name) and t.left.func.id == "len" and len(t.left.args) == 1 and isinstance(t.left.args[0], ast.Name)):
            return
        k = const_value(t.comparators[0])
        if not ((isinstance(t.ops[0], ast.Gt) and k == 1) or (isinstance(t.ops[0], ast.GtE) and k == 2) or (isinstance(t.ops[0], ast.NotEq) and k == 1)):
            return
        name = t.left.args[0].id
        v = env.get(name)
        if v is None or v.k != "list" or v.elem is None:
            return
        adds = any((isinstance(x, ast.BinOp) and isinstance(x.op, ast.Add)) or (isinstance(x, ast.AugAssign) and isinstance(x.op, ast.Add)) or (isinstance(x, (ast.Attribute, ast.Name)) and src(x).split(".")[-1] in ("add", "iadd")) for b in st.body for x in ast.walk(b))
        rebound = any(isinstance(x, ast.Assign) and any(isinstance(t_, ast.Name) and t_.id == name for t_ in x.targets) for b in st.body for x in ast.walk(b))
        if not (adds and rebound):
            return
        el = v.elem
        if getattr(el, "part", False) or any_part([el]):
            self.c.fold_sites.append((self.f.key, st, el))
            if self.c.track_s and el.is_numlike and not el.wild and not el.is_unk and el.s == 0:
                self.violation("EXT.D4", st, f"per-block values of type {fmt(el)} are summed pairwise over the blocks: they are intensive (S^0)")
        env[name] = V("list", axis="?1", elem=mark_part(el, False))

    def static_test(self, test, env):
        """Truth value of a type/array-kind switch when it is determined by the abstract values or by the run's
        assumption about the input kind; None otherwise."""
        if isinstance(test, ast.UnaryOp) and isinstance(test.op, ast.Not):
            r = self.static_test(test.operand, env)
            return None if r is None else (not r)
        ad = self.c.assume_dask
        t = src(test).replace(" ", "")
        if isinstance(test, ast.Name) and test.id in env and env[test.id].k == "bool" and env[test.id].cval is not None:
            return bool(env[test.id].cval)
        if ad is not None:
            from .proto import is_switch

            if is_switch(test, self.P, self.f):
                return ad
            if t.startswith("isinstance(") and any(x in t for x in ("da.Array", "dask.array.Array", "dask.array.core.Array", "dask.bag.Bag", "Delayed")):
                return ad
            if t.startswith("isinstance(") and "np.ndarray" in t:
                return not ad
        if isinstance(test, ast.Call) and isinstance(test.func, ast.Name) and test.func.id == "isinstance" and len(test.args) == 2:
            v = self.ev(test.args[0], env)
            cn = src(test.args[1])
            if cn in self.P.class_index:
                if v.k == "obj":
                    ci = self.P.class_index.get(v.obj)
                    return ci is not None and any(c.name == cn for c in self.P.mro(ci))
                if v.k in ("list", "tuple", "num", "log", "none", "str"):
                    return False
            if cn == "str" and v.k in ("list", "tuple", "num", "log", "obj"):
                return False
            if cn == "str" and v.k == "str":
                return True
        if isinstance(test, ast.Call) and isinstance(test.func, ast.Name) and test.func.id == "hasattr" and len(test.args) == 2:
            v = self.ev(test.args[0], env)
            a = const_value(test.args[1])
            if a in ("ndim", "shape") and v.k in ("num", "log"):
                return True
            if a in ("ndim", "shape") and v.k in ("list", "tuple"):
                return False
        if isinstance(test, ast.Call) and not getattr(self, "_in_pred", False):
            # a yes/no helper of the package whose answer is a conjunction: it says no as soon as one conjunct that can be
            # decided from the abstract values (rank, kind of array) is false for these arguments
            try:
                tg_ = [t_[1] for t_ in self.P.resolve_callee(test.func, self.f) if t_[0] == "repo"]
            except Exception:
                tg_ = []
            for callee in tg_[:1]:
                rets_ = [r for r in walk_no_nested(callee.node) if isinstance(r, ast.Return) and r.value is not None]
                body_ok = all(isinstance(b_, (ast.Return, ast.Expr)) for b_ in callee.node.body)
                if len(rets_) == 1 and body_ok:
                    rv = rets_[0].value
                    conj_ = rv.values if isinstance(rv, ast.BoolOp) and isinstance(rv.op, ast.And) else [rv]
                    try:
                        b_ = self.P.bind_args(callee, test.args, test.keywords)
                        cenv = {p_: self.ev(a_, env) for p_, a_ in b_.items() if a_ is not None}
                    except Exception:
                        cenv = None
                    if cenv is not None:
                        self._in_pred = True
                        try:
                            for c_ in conj_:
                                if all(isinstance(x_, ast.Name) and x_.id in cenv or not isinstance(x_, ast.Name) or x_.id in ("np", "numpy", "da") for x_ in ast.walk(c_)):
                                    try:
                                        if self.static_test(c_, cenv) is False:
                                            return False
                                    except Exception:
                                        pass
                        finally:
                            self._in_pred = False
        if isinstance(test, ast.Compare) and len(test.ops) == 1 and isinstance(test.left, ast.Attribute) and test.left.attr == "ndim":
            v = self.ev(test.left.value, env)
            k = const_value(test.comparators[0])
            if v.is_numlike and v.sh is not None and isinstance(k, int):
                n = len(v.sh)
                op = test.ops[0]
                return {ast.Eq: n == k, ast.NotEq: n != k, ast.Lt: n < k, ast.LtE: n <= k, ast.Gt: n > k, ast.GtE: n >= k}.get(type(op))
        if isinstance(test, ast.Compare) and len(test.ops) == 1 and isinstance(test.comparators[0], ast.Constant) and isinstance(test.comparators[0].value, int) and not isinstance(test.comparators[0].value, bool) and isinstance(test.left, (ast.Name, ast.Attribute, ast.BinOp)) and type(test.ops[0]) in (ast.Eq, ast.NotEq, ast.Lt, ast.LtE, ast.Gt, ast.GtE):
            v = self.ev(test.left, env)
            k = test.comparators[0].value
            if v.is_numlike and v.wild and v.count_of is None and isinstance(v.cval, (int, float)) and not isinstance(v.cval, bool) and float(v.cval).is_integer() and v.note == "rank":
                n = v.cval
                return {ast.Eq: n == k, ast.NotEq: n != k, ast.Lt: n < k, ast.LtE: n <= k, ast.Gt: n > k, ast.GtE: n >= k}.get(type(test.ops[0]))
        if isinstance(test, ast.Compare) and len(test.ops) == 1 and isinstance(test.ops[0], (ast.Is, ast.IsNot)) and const_value(test.comparators[0]) is None and isinstance(test.comparators[0], ast.Constant) and isinstance(test.left, ast.Name):
            v = self.ev(test.left, env)
            if v.k == "none":
                return isinstance(test.ops[0], ast.Is)
            if v.k in ("num", "log", "obj", "list", "tuple") and not v.is_unk:
                return isinstance(test.ops[0], ast.IsNot)
        return None

    def exec_if(self, st, env):
        tv = self.ev(st.test, env)
        stt = self.static_test(st.test, env)
        if stt is None and isinstance(st.test, ast.BoolOp):
            parts = [self.static_test(x, env) for x in st.test.values]
            if isinstance(st.test.op, ast.And):
                stt = False if any(p is False for p in parts) else (True if all(p is True for p in parts) else None)
            else:
                stt = True if any(p is True for p in parts) else (False if all(p is False for p in parts) else None)
        if stt is True:
            self.exec_block(st.body, env)
            return
        if stt is False:
            self.exec_block(st.orelse, env)
            return
        # constant-truth tests on None-ness of parameters are not resolved: both arms analysed and joined
        e1, e2 = dict(env), dict(env)
        # `if len(L) == 1 [and ...]`: in that arm the list of per-block values has one element, which is then the whole
        conj = st.test.values if isinstance(st.test, ast.BoolOp) and isinstance(st.test.op, ast.And) else [st.test]
        for c_ in conj:
            if isinstance(c_, ast.Compare) and len(c_.ops) == 1 and isinstance(c_.ops[0], ast.Eq) and const_value(c_.comparators[0]) == 1 and isinstance(c_.left, ast.Call) and isinstance(c_.left.func, ast.Name) and c_.left.func.id == "len" and len(c_.left.args) == 1 and isinstance(c_.left.args[0], ast.Name):
                nm_ = c_.left.args[0].id
                lv_ = e1.get(nm_)
                if lv_ is not None and lv_.k == "list" and lv_.elem is not None and lv_.axis in BLOCK_AXES:
                    e1[nm_] = V("list", axis="?1", elem=mark_part(lv_.elem, False))
        self.exec_block(st.body, e1)
        self.exec_block(st.orelse, e2)
        d1, d2 = e1.pop("<dead>", False), e2.pop("<dead>", False)
        if d1 and d2:
            env["<dead>"] = True
            return
        if d1:
            env.clear(); env.update(e2); return
        if d2:
            env.clear(); env.update(e1); return
        arm_switch = "isinstance" in src(st.test) or src(st.test) in ("input_is_dask", "chunky") or "is_input_dask_nested" in src(st.test)
        env.clear()
        for k in set(e1) | set(e2):
            a, b = e1.get(k), e2.get(k)
            if a is None or b is None:
                env[k] = a if b is None else b
            else:
                if not arm_switch and a is not b and a.is_numlike and b.is_numlike and not a.wild and not b.wild and not a.is_unk and not b.is_unk and a.dim_key() != b.dim_key() and not k.startswith("<") and (st.orelse or True):
                    # both arms bind the same name and what follows uses it as one quantity: it cannot have two dimensions
                    both = all(any(isinstance(x, ast.Name) and x.id == k and isinstance(x.ctx, ast.Store) for s_ in arm for x in ast.walk(s_)) for arm in (st.body, st.orelse)) if st.orelse else False
                    if both:
                        self.violation("DIM.ARMS", st, f"the two arms of `if {src(st.test)[:40]}` give `{k}` different dimensions: {fmt(a.copy(sh=None))} vs {fmt(b.copy(sh=None))}; one of them does not compute the quantity the code after the test expects")
                env[k] = self.join(a, b, st, name=k, strict=arm_switch)

    def _depends_on(self, expr, state, loop):
        """Names of loop-carried `state` that `expr` depends on, following the assignments in the loop body."""
        defs = {}
        for x in ast.walk(loop):
            if isinstance(x, ast.Assign) and len(x.targets) == 1 and isinstance(x.targets[0], ast.Name):
                defs.setdefault(x.targets[0].id, []).append(x.value)
        out, seen, todo = set(), set(), [expr]
        while todo:
            e = todo.pop()
            for n_ in ast.walk(e):
                if isinstance(n_, ast.Name):
                    if n_.id in state:
                        out.add(n_.id)
                    elif n_.id in defs and n_.id not in seen:
                        seen.add(n_.id)
                        todo.extend(defs[n_.id])
        return out

    def exec_for(self, st, env):
        it = self.ev(st.iter, env)
        axis, elem = self.iter_elem(it, st.iter, env)
        self.bind_target(st.target, elem, env, st)
        pre = dict(env)
        self.loop_axes.append(axis)
        self.loop_nodes.append(st)
        for i in range(2):
            self.exec_block(st.body, env)
            env.pop("<dead>", None)
            self.join_env(env, pre, st)
        self.loop_axes.pop()
        self.loop_nodes.pop()
        if axis in BLOCK_AXES:
            # loop-carried state (read before it is written in the body, or updated in place) that is updated from every
            # block is a fold over the blocks, however the recurrence is written (x += b, x = x + b, t = x + b; x = t)
            written, first_use = set(), {}
            for x in ast.walk(st):
                if isinstance(x, (ast.Assign, ast.AugAssign, ast.AnnAssign)):
                    for t_ in (x.targets if isinstance(x, ast.Assign) else [x.target]):
                        for n_ in ast.walk(t_):
                            if isinstance(n_, ast.Name):
                                written.add(n_.id)
            for n_ in ast.walk(st.target):
                if isinstance(n_, ast.Name):
                    written.discard(n_.id)
            for x in st.body:
                order = []
                if isinstance(x, (ast.Assign, ast.AnnAssign)) and getattr(x, "value", None) is not None:
                    order = list(ast.walk(x.value)) + [n_ for t_ in (x.targets if isinstance(x, ast.Assign) else [x.target]) for n_ in ast.walk(t_)]
                else:
                    order = list(ast.walk(x))
                for n_ in order:
                    if isinstance(n_, ast.Name) and n_.id in written and n_.id not in first_use:
                        first_use[n_.id] = "load" if (isinstance(n_.ctx, ast.Load) or isinstance(x, ast.AugAssign)) else "store"
            for k_, v_ in first_use.items():
                if v_ == "load" and k_ in env and getattr(env[k_], "part", False):
                    env[k_] = mark_part(env[k_], False)
        self.exec_block(st.orelse, env)

    def iter_elem(self, it, node, env):
        """(axis kind of the iteration, element value)"""
        if it.k == "list":
            el = it.elem if it.elem is not None else unk("empty list element")
            if it.axis == "B":
                el = mark_part(el)
            return it.axis or "?", el
        if it.k == "range":
            return it.axis or "?", V("num", index_of=it.axis, wild=True)
        if it.k == "tuple" and it.note == "zip":
            axes = [x.axis for x in it.tup if x.k == "list"]
            ax = axes[0] if axes else "?"
            return ax, V("tuple", tup=tuple(x.elem if x.k == "list" and x.elem is not None else (self.row_of(x) if x.is_numlike else unk("zip element")) for x in it.tup))
        if it.k == "tuple" and it.note == "enumerate":
            inner = it.tup[0]
            ax, el = self.iter_elem(inner, node, env)
            return ax, V("tuple", tup=(V("num", index_of=ax, wild=True), el))
        if it.is_numlike and it.sh:
            return it.sh[0], self.row_of(it)
        if it.k == "set":
            return "L", it.elem or wild()
        if it.k == "tuple" and it.tup:
            el = it.tup[0]
            for x in it.tup[1:]:
                el = self.join(el, x, node)
            return "?", el
        return "?", unk("iteration over " + fmt(it))

    def row_of(self, v):
        if v.sh:
            return v.copy(sh=tuple(v.sh[1:]))
        return v.copy(sh=None)

    def bind_target(self, t, v, env, node):
        if isinstance(t, ast.Name):
            env[t.id] = v
        elif isinstance(t, (ast.Tuple, ast.List)):
            if v.k == "tuple" and v.tup is not None and len(v.tup) == len(t.elts):
                for e, x in zip(t.elts, v.tup):
                    self.bind_target(e, x, env, node)
            else:
                for e in t.elts:
                    self.bind_target(e, unk("unpack of " + fmt(v)), env, node)
        elif isinstance(t, ast.Starred):
            self.bind_target(t.value, unk("starred"), env, node)
        else:
            self.assign(t, v, env, node)

    def join_env(self, env, other, node):
        for k in set(env) | set(other):
            a, b = env.get(k), other.get(k)
            if k == "<dead>":
                continue
            if a is None or b is None:
                env[k] = a if b is None else b
            else:
                env[k] = self.join(a, b, node, name=k)

    def join(self, a, b, node, name=None, strict=False):
        if a is b:
            return a
        if a.is_unk:
            return a if not b.is_unk else b
        if b.is_unk:
            return b
        if a.k == "none":
            return b
        if b.k == "none":
            return a
        if a.k != b.k:
            if a.is_numlike and b.is_numlike and (a.wild or b.wild):
                return b if a.wild else a
            if {a.k, b.k} == {"list", "num"}:
                return a if a.k == "list" else b
            if {a.k, b.k} == {"list", "obj"}:
                l, o = (a, b) if a.k == "list" else (b, a)
                if l.elem is not None and l.elem.k == "obj" and l.elem.obj == o.obj:
                    return l  # "one record or a list of them": consumers normalise a single record into a list
            return unk(f"join of {fmt(a)} and {fmt(b)}")
        if a.k in ("num", "log"):
            if a.wild:
                return b if not b.wild else a.copy(sh=a.sh if a.sh == b.sh else (a.sh or b.sh), cval=a.cval if a.cval == b.cval else None)
            if b.wild:
                return a
            if a.dim_key() != b.dim_key():
                if strict and name and not name.startswith("<"):
                    self.violation("DIM.BRANCH", node, f"the two arms give `{name}` different types: {fmt(a)} vs {fmt(b)}: the array-type/Dask arm does not compute the same quantity")
                return unk(f"join of {fmt(a)} and {fmt(b)}")
            sh = a.sh
            if a.sh != b.sh:
                if strict and a.sh is not None and b.sh is not None and name and not name.startswith("<") and "?" not in a.sh and "?" not in b.sh:
                    self.violation("DIM.BRANCH", node, f"the two arms give `{name}` different shapes: {fmt(a)} vs {fmt(b)}")
                sh = None if (a.sh is None or b.sh is None or len(a.sh) != len(b.sh)) else tuple(x if x == y else "?" for x, y in zip(a.sh, b.sh))
            return a.copy(sh=sh, cval=a.cval if a.cval == b.cval else None, count_of=a.count_of if a.count_of == b.count_of else None, index_of=a.index_of if a.index_of == b.index_of else None)
        if a.k == "list":
            if a.elem is None:
                return b
            if b.elem is None:
                return a
            return V("list", axis=a.axis if a.axis == b.axis or b.axis in (None, "empty") else (b.axis if a.axis in (None, "empty") else "?"), elem=self.join(a.elem, b.elem, node, strict=strict))
        if a.k == "tuple" and a.tup is not None and b.tup is not None and len(a.tup) == len(b.tup):
            return V("tuple", tup=tuple(self.join(x, y, node, strict=strict) for x, y in zip(a.tup, b.tup)), note=a.note)
        if a.k == "obj":
            return a if a.obj == b.obj else unk("join of objects")
        if a.k == "dict":
            if a.elem is None:
                return b
            if b.elem is None:
                return a
            return V("dict", elem=self.join(a.elem, b.elem, node, strict=strict))
        return a

    # -- assignment --------------------------------------------------------------------------------
    def assign(self, t, v, env, node, aug=False):
        if isinstance(t, ast.Name):
            env[t.id] = v
        elif isinstance(t, (ast.Tuple, ast.List)):
            self.bind_target(t, v, env, node)
        elif isinstance(t, ast.Attribute):
            base = self.ev(t.value, env)
            if base.k == "obj":
                decl = self.c.attr_decl(base.obj, t.attr)
                self.c.facts.setdefault("attr_stores", []).append((self.f.key, node, base.obj, t.attr, v))
                if decl is not None:
                    self.check_decl(decl, v, node, f"{base.obj}.{t.attr}", rule="DIM.D2")
                    if self.c.track_s and any_part([v]) and not base.part and decl.k in ("num", "log", "tuple"):
                        self.violation("EXT.PART", node, f"{base.obj}.{t.attr} receives a value computed from a single block of the data ({fmt(v)}) that was never folded over the blocks: the stored quantity depends on the chunking")
                else:
                    env[src(t)] = v
            else:
                env[src(t)] = v
        elif isinstance(t, ast.Subscript):
            base = self.ev(t.value, env)
            if v.k == "list" and v.elem is not None and v.elem.is_numlike and base.is_numlike:
                v = v.elem  # x[mask] = [row, row, ...]
            if base.is_numlike and not base.is_unk and v.is_numlike:
                # element store: the stored value must agree with the container (unless the container is a wild accumulator)
                if base.wild and isinstance(t.value, ast.Name):
                    sub = self.subscript(base, t.slice, env, t)
                    # the container takes the dimension of what is stored, keeps its own shape
                    env[t.value.id] = v.copy(sh=base.sh, cval=None, count_of=None, index_of=None) if not v.wild else base
                elif not v.wild and not base.wild and base.dim_key() != v.dim_key():
                    self.violation("DIM.D1", node, f"element store of {fmt(v)} into a container of {fmt(base)}")
            elif base.k == "dict" and isinstance(t.value, ast.Name):
                env[t.value.id] = V("dict", elem=v if base.elem is None else self.join(base.elem, v, node))
            elif base.k == "list" and isinstance(t.value, ast.Name):
                be = base.elem
                if be is not None and be.is_numlike and v.is_numlike and not be.wild and not v.wild and not be.is_unk and not v.is_unk and be.dim_key() != v.dim_key():
                    self.violation("DIM.D1", node, f"element store of {fmt(v.copy(sh=None))} into a list of {fmt(be.copy(sh=None))}: the entries of `{t.value.id}` no longer transform alike under feature rescaling")
                env[t.value.id] = V("list", axis=base.axis, elem=v if base.elem is None or base.elem.k == "none" else self.join(base.elem, v, node))
        else:
            pass

    def check_decl(self, decl, v, node, label, rule="DIM.D2"):
        """A store to a declared attribute / a return of a declared function matches the declaration."""
        if decl.k == "unk":
            return
        if v.is_unk:
            self.undecided(rule, node, f"{label}: value has no inferred type ({v.note}); declared {fmt(decl)}")
            return
        if decl.k in ("num", "log"):
            if not v.is_numlike:
                if v.k in ("none",):
                    return
                self.undecided(rule, node, f"{label}: value {fmt(v)} vs declared {fmt(decl)}")
                return
            if v.wild or decl.wild:
                self.ok(rule, node, f"{label}: polymorphic value accepted for {fmt(decl)}")
                return
            dk = (decl.k, decl.u, decl.kk)
            vk = (v.k, v.u, v.kk)
            if dk != vk:
                self.violation(rule, node, f"{label} is declared {fmt(decl.copy(sh=None, s=0))} (its transformation law under feature rescaling) but the value has type {fmt(v.copy(sh=None, s=0))}")
                return
            if self.c.track_s and decl.s != v.s:
                self.violation(rule.replace("DIM.", "EXT."), node, f"{label} is declared {fmt(decl.copy(sh=None))} but the value has type {fmt(v.copy(sh=None))}: its sample extent differs (S^1 = a sum over samples, S^0 = a per-sample or averaged quantity), so it is not the quantity of the whole data set when blocks are combined")
                return
            if decl.sh is not None and v.sh is not None and len(decl.sh) == len(v.sh):
                bad = [(a, b) for a, b in zip(decl.sh, v.sh) if a != b and not a.startswith("?") and not b.startswith("?") and "1" not in (a, b)]
                if bad:
                    self.violation(rule + "-shape", node, f"{label} is declared with axes {list(decl.sh)} but the value has axes {list(v.sh)}")
                    return
            elif decl.sh is not None and v.sh is not None and len(decl.sh) != len(v.sh) and not any(x.startswith("?") for x in v.sh):
                self.violation(rule + "-shape", node, f"{label} is declared with axes {list(decl.sh)} but the value has axes {list(v.sh)}")
                return
            # Only for values *returned* by distance / density functions: parameter updates assembled from raw moments (E[x^2] - m^2)
            # are translation-invariant by cancellation by design of the sufficient statistics.
            if decl.sw == 0 and v.sw == "N" and (label.startswith("return value") or label.split(".")[0] in ("Whitening", "WCCN")):
                self.violation("DIM.TRANSL", node, f"{label} must not depend on a common translation of data and centroids, but it is assembled from terms that each grow with the offset (e.g. ||x||^2 - 2 x.m + ||m||^2) and only cancel numerically: far from the origin the rounding error of the large terms exceeds the true value (wrong nearest centroid, negative 'squared distances'); compute it from differences (x - m)")
            elif decl.sw == 0 and v.sw == 0:
                self.ok("DIM.TRANSL", node, f"{label}: translation-invariant by construction")
            if decl.k == "log" and decl.dconst != 0.0:
                import math
                if v.dconst is None or v.lconst is None:
                    self.undecided("DIM.CONST", node, f"{label}: the constant part of the log-normaliser could not be folded")
                elif abs(v.dconst - decl.dconst) > 1e-9 or abs(v.lconst) > 1e-9:
                    self.violation("DIM.CONST", node, f"{label}: the pure-number part of the normaliser folds to {v.dconst:.6g}*d{'' if abs(v.lconst) < 1e-9 else f' + {v.lconst:.6g}'} but must be {decl.dconst:.6g}*d (= {'log(2*pi)' if decl.dconst > 0 else '-0.5*log(2*pi)'} per feature): the implied density does not integrate to one")
                else:
                    self.ok("DIM.CONST", node, f"{label}: constant folds to {v.dconst:.6g}*d")
            self.ok(rule, node, f"{label}: {fmt(v)}")
        elif decl.k == "tuple" and v.k == "tuple" and decl.tup and v.tup and len(decl.tup) == len(v.tup):
            for i, (d_, x) in enumerate(zip(decl.tup, v.tup)):
                self.check_decl(d_, x, node, f"{label}[{i}]", rule)
        elif decl.k == "obj":
            if v.k == "obj" and v.obj != decl.obj:
                self.violation(rule, node, f"{label}: object of class {v.obj}, declared {decl.obj}")

    # -- expressions ----------------------------------------------------------------------------------
    def ev(self, e, env):
        m = getattr(self, "ev_" + type(e).__name__, None)
        if m is None:
            self.c.unknown_constructs.append((self.f.key, type(e).__name__))
            return unk(type(e).__name__)
        return m(e, env)

    def ev_Constant(self, e, env):
        v = e.value
        if v is None:
            return V("none")
        if isinstance(v, bool):
            return V("bool", cval=v)
        if isinstance(v, (int, float)):
            return wild(sh=(), cval=float(v))
        if isinstance(v, str):
            return V("str", note=v)
        return unk("constant")

    def ev_JoinedStr(self, e, env):
        return V("str")

    def ev_Name(self, e, env):
        if e.id in env:
            return env[e.id]
        mod = self.f.module
        if e.id in mod.constants:
            return wild(sh=())  # module constant (EPSILON): polymorphic
        if e.id in ("True", "False"):
            return V("bool")
        d = self.P.dotted(e, self.f)
        if d:
            return V("func", note=d)
        return unk(f"free name {e.id}")

    def ev_NamedExpr(self, e, env):
        v = self.ev(e.value, env)
        env[e.target.id] = v
        return v

    def ev_Attribute(self, e, env):
        key = src(e)
        if key in env:
            return env[key]
        d = self.P.dotted(e, self.f)
        ch = attr_chain(e)
        if ch and ch[0] not in env and d:
            if d in ("numpy.pi", "math.pi"):
                return wild(sh=(), cval=3.141592653589793)
            if d in ("numpy.inf", "math.inf", "numpy.nan", "numpy.e", "math.e"):
                return wild(sh=())
            if d == "numpy.newaxis":
                return V("none")
            return V("func", note=d)
        base = self.ev(e.value, env)
        if base.k == "obj":
            decl = self.c.attr_decl(base.obj, e.attr)
            if decl is not None:
                return mark_part(decl) if base.part else decl
            # property getter of a repo class: analyse it
            ci = self.P.class_index.get(base.obj)
            if ci is not None:
                pr = self.P.lookup_prop(ci, e.attr)
                if pr and "get" in pr:
                    return self.call_repo(pr["get"], [base], {}, e)
                m = self.P.lookup_method(ci, e.attr)
                if m is not None:
                    return V("func", note="method:" + m.key, origin=base)
            return unk(f"undeclared attribute {base.obj}.{e.attr}")
        if base.is_numlike:
            if e.attr == "T":
                return base.copy(sh=tuple(reversed(base.sh)) if base.sh is not None else None, cval=None)
            if e.attr == "shape":
                if base.sh is None:
                    return V("tuple", tup=None, note="shape")
                tp = tuple(V("num", count_of=a, s=1 if (a == "N" and self.c.track_s) else 0, sh=()) for a in base.sh)
                for x in tp:
                    x.part = base.part
                return V("tuple", tup=tp, note="shape")
            if e.attr == "ndim" and base.sh is not None:
                r_ = wild(sh=(), cval=len(base.sh))
                r_.note = "rank"
                return r_
            if e.attr in ("ndim", "size", "nbytes", "dtype"):
                return wild(sh=())
            if e.attr == "blocks":
                return V("blocks", origin=base)
            if e.attr == "numblocks":
                n = len(base.sh) if base.sh is not None else 2
                return V("tuple", tup=tuple(V("num", count_of="B", sh=(), wild=True) for _ in range(n)), note="numblocks")
            return V("func", note="arraymethod:" + e.attr, origin=base)
        if base.k == "list":
            return V("func", note="listmethod:" + e.attr, origin=base)
        if base.k == "dict" and e.attr in ("items", "values", "keys", "get", "copy"):
            return V("func", note="dictmethod:" + e.attr, origin=base)
        if base.k == "func":
            return V("func", note=(base.note or "") + "." + e.attr)
        return unk(f"attribute {e.attr} of {fmt(base)}")

    def ev_Tuple(self, e, env):
        return V("tuple", tup=tuple(self.ev(x, env) for x in e.elts))

    def ev_List(self, e, env):
        if not e.elts:
            return V("list", axis="empty", elem=None)
        vs = [self.ev(x, env) for x in e.elts]
        el = vs[0]
        for x in vs[1:]:
            el = self.join(el, x, e)
        ax = "?1" if len(vs) == 1 else "?"  # a one-element display: the one-block list of the in-memory arm, or a batch of one
        return V("list", axis=ax, elem=el)

    def ev_Dict(self, e, env):
        if any(k is None for k in e.keys):
            return unk("dict")
        el = None
        for x in e.values:
            v = self.ev(x, env)
            el = v if el is None else self.join(el, v, e)
        return V("dict", elem=el)

    def ev_Set(self, e, env):
        return V("set")

    def ev_ListComp(self, e, env):
        env2 = dict(env)
        axis = "?"
        for g in e.generators:
            it = self.ev(g.iter, env2)
            ax, el = self.iter_elem(it, g.iter, env2)
            axis = ax if axis == "?" else axis
            self.bind_target(g.target, el, env2, e)
            for c in g.ifs:
                self.ev(c, env2)
        self.loop_axes.append(axis)
        el = self.ev(e.elt, env2)
        self.loop_axes.pop()
        return V("list", axis=axis, elem=el)

    ev_GeneratorExp = ev_ListComp
    ev_SetComp = ev_ListComp

    def ev_DictComp(self, e, env):
        env2 = dict(env)
        for g in e.generators:
            it = self.ev(g.iter, env2)
            ax, el = self.iter_elem(it, g.iter, env2)
            self.bind_target(g.target, el, env2, e)
        return V("dict", elem=self.ev(e.value, env2))

    def ev_IfExp(self, e, env):
        stt = self.static_test(e.test, env)
        if stt is True:
            return self.ev(e.body, env)
        if stt is False:
            return self.ev(e.orelse, env)
        self.ev(e.test, env)
        a, b = self.ev(e.body, env), self.ev(e.orelse, env)
        if a is not b and a.is_numlike and b.is_numlike and not a.wild and not b.wild and not a.is_unk and not b.is_unk and a.dim_key() != b.dim_key():
            self.violation("DIM.ARMS", e, f"the two arms of `{src(e)[:60]}` have different dimensions: {fmt(a.copy(sh=None))} vs {fmt(b.copy(sh=None))}; whatever uses the value treats it as one quantity")
        return self.join(a, b, e)

    def ev_BoolOp(self, e, env):
        vs = [self.ev(x, env) for x in e.values]
        if isinstance(e.op, ast.Or) and vs[-1].k == "obj":
            return vs[-1]
        return V("bool")

    def ev_Compare(self, e, env):
        l = self.ev(e.left, env)
        sh = l.sh if l.is_numlike else None
        for op, c in zip(e.ops, e.comparators):
            r = self.ev(c, env)
            if isinstance(op, (ast.Lt, ast.LtE, ast.Gt, ast.GtE)) and l.is_numlike and r.is_numlike:
                self.agree(l, r, e, "comparison")
            if isinstance(op, (ast.Lt, ast.LtE, ast.Gt, ast.GtE, ast.Eq, ast.NotEq)) and l.is_numlike and r.is_numlike:
                # a dimensioned quantity against an absolute literal: the test changes with the unit of the features
                for d_, c_ in ((l, r), (r, l)):
                    if not d_.wild and not d_.is_unk and d_.k == "num" and d_.u != ZERO and c_.wild and c_.cval not in (None, 0, 0.0) and isinstance(c_.cval, (int, float)) and abs(c_.cval) != float("inf"):
                        self.violation("DIM.ABS", e, f"`{src(e)[:60]}` compares a quantity of dimension {fmt(d_.copy(sh=None, s=0))} with the absolute constant {c_.cval:g}: the outcome changes when the features are expressed in another unit, so training is not equivariant under rescaling")
            if r.is_numlike and sh is not None and r.sh is not None:
                sh, _ = bshape(sh, r.sh, e)
            elif r.is_numlike and r.sh is not None and sh is None and not l.is_numlike:
                sh = r.sh
            l = r
        return V("bool", sh=sh)

    def ev_UnaryOp(self, e, env):
        v = self.ev(e.operand, env)
        if isinstance(e.op, ast.Not):
            return V("bool")
        if v.is_numlike:
            if isinstance(e.op, ast.USub) and not v.wild and (v.k == "log" or v.dconst not in (None, 0.0) or v.mconst is not None):
                return self._binop(ast.Mult(), v, wild((), -1.0), e)  # -x is (-1) * x, constants included
            return v.copy(cval=-v.cval if (v.cval is not None and isinstance(e.op, ast.USub)) else None)
        return v

    def ev_BinOp(self, e, env):
        return self.binop(e.op, self.ev(e.left, env), self.ev(e.right, env), e)

    def ev_Subscript(self, e, env):
        base = self.ev(e.value, env)
        return self.subscript(base, e.slice, env, e)

    def ev_Starred(self, e, env):
        return self.ev(e.value, env)

    def ev_Lambda(self, e, env):
        return V("func", note="lambda")

    def ev_Slice(self, e, env):
        return V("none")

    # -- arithmetic ---------------------------------------------------------------------------------
    def agree(self, a, b, node, what):
        """D1: operands of + - compare where/maximum/minimum/clip agree."""
        if not (a.is_numlike and b.is_numlike) or a.is_unk or b.is_unk:
            return None
        if a.wild or b.wild:
            w_, o_ = (a, b) if a.wild else (b, a)
            if what in ("addition", "subtraction") and not o_.wild and o_.k == "num" and o_.u != ZERO and isinstance(w_.cval, (int, float)) and not isinstance(w_.cval, bool) and w_.cval == 1:
                # the number one (a literal, np.ones, an identity matrix) is a pure number in every unit system
                self.violation("DIM.D1", node, f"{what} of the pure number 1 and {fmt(o_.copy(sh=None, s=0))}: `1 + x` (identity plus precision, one plus a ratio) needs a dimensionless x, so one factor of this term has the wrong power of the feature unit")
                return False
            return b if a.wild else a
        if a.k == "log" or b.k == "log":
            return None
        if (a.u, a.kk) != (b.u, b.kk):
            self.violation("DIM.D1", node, f"{what} of {fmt(a.copy(sh=None, s=0))} and {fmt(b.copy(sh=None, s=0))}: the terms do not have the same dimension, so the formula cannot be equivariant under feature rescaling")
            return False
        if self.c.track_s and a.s != b.s:
            self.violation("EXT.D1", node, f"{what} of {fmt(a.copy(sh=None))} and {fmt(b.copy(sh=None))}: a sum over samples is combined with a per-sample/averaged quantity")
            return False
        self.ok("DIM.D1", node, f"{what}: {fmt(a.copy(sh=None))}")
        return True

    def binop(self, op, a, b, node, aug=False):
        r = self._binop(op, a, b, node, aug)
        if (a.part or b.part) and r is not None and not r.part:
            r = mark_part(r)
        if r is not None and r.is_numlike and a.is_numlike and b.is_numlike:
            sw = shift_binop(op, a, b)
            if sw is not None or r.sw is not None:
                if r is a or r is b:
                    r = r.copy()
                r.sw = sw
        return r

    def _binop(self, op, a, b, node, aug=False):
        if a.k == "list" and b.k == "list" and isinstance(op, ast.Add):
            return V("list", axis=a.axis, elem=self.join(a.elem, b.elem, node) if a.elem and b.elem else (a.elem or b.elem))
        if a.k == "list" and isinstance(op, ast.Mult):
            ax = b.count_of if b.is_numlike and b.count_of else a.axis
            return V("list", axis=ax, elem=a.elem)
        if a.k == "tuple" and b.k == "tuple" and isinstance(op, ast.Add):
            return V("tuple", tup=(a.tup + b.tup) if a.tup is not None and b.tup is not None else None, note="shape" if "shape" in (a.note, b.note) else "")
        if a.k == "tuple" and isinstance(op, ast.Mult) and b.is_numlike:
            if a.tup is not None and isinstance(b.cval, (int, float)) and float(b.cval).is_integer() and 0 <= b.cval <= 8:
                return V("tuple", tup=a.tup * int(b.cval), note=a.note)
            return V("tuple", tup=None, note=a.note)
        if a.k == "str" or b.k == "str":
            return V("str")
        if a.k == "obj" and b.k == "obj" and isinstance(op, ast.Add):
            return a
        if a.k == "none" and aug:
            return b
        if not (a.is_numlike and b.is_numlike):
            if a.is_unk or b.is_unk:
                return unk((a.note or b.note))
            return unk(f"{type(op).__name__} on {fmt(a)} and {fmt(b)}")
        sh, bad = vshape(a, b)
        if bad and not isinstance(op, ast.MatMult):
            self.violation("DIM.SHAPE", node, bad + ": the operands are mis-broadcast")
        cv = None
        if a.cval is not None and b.cval is not None:
            try:
                cv = {ast.Add: a.cval + b.cval, ast.Sub: a.cval - b.cval, ast.Mult: a.cval * b.cval, ast.Div: a.cval / b.cval if b.cval else None, ast.Pow: a.cval ** b.cval}.get(type(op))
            except Exception:
                cv = None
        if isinstance(op, (ast.Add, ast.Sub)):
            if a.k == "log" or b.k == "log":
                return self.log_addsub(op, a, b, sh, node)
            r = self.agree(a, b, node, "addition" if isinstance(op, ast.Add) else "subtraction")
            if a.wild and b.wild:
                w_ = wild(sh, cv)
                if "rank" in (a.note, b.note) and cv is not None and (a.note == "rank" or a.cval is not None) and (b.note == "rank" or b.cval is not None):
                    w_.note = "rank"  # a number of axes plus / minus a literal: still known at analysis time
                return w_
            base = b if a.wild else a
            cnt = None
            idx = None
            if a.index_of or b.index_of:
                idx = a.index_of or b.index_of
            return base.copy(sh=sh, cval=None, count_of=None, index_of=idx)
        if isinstance(op, ast.Mult):
            if a.k == "log" or b.k == "log":
                l, o = (a, b) if a.k == "log" else (b, a)
                if o.k == "log":
                    return unk("product of two log-domain values")
                if o.wild and o.cval is not None:
                    r = l.copy(u=lf_scale(l.u, o.cval), sh=sh, cval=None)
                    r.lconst = None if l.lconst is None else l.lconst * o.cval
                    r.dconst = None if l.dconst is None else l.dconst * o.cval
                    return r
                if o.wild:
                    return unk("log-domain value scaled by an unknown constant")
                if o.u == ZERO and o.count_of == "D":
                    # d * log(c): stays a pure log-constant
                    return l.copy(sh=sh, u=lf(0, l.u[0]) if l.u[1] == 0 else l.u)
                return unk("log-domain value multiplied by a non-constant")
            if a.wild and b.wild:
                return wild(sh, cv)
            if (a.wild and a.cval == 0) or (b.wild and b.cval == 0):
                return wild(sh, 0.0)  # zero is zero in every dimension
            if a.wild or b.wild:
                w, o = (a, b) if a.wild else (b, a)
                r = o.copy(sh=sh, cval=None, count_of=None, index_of=None)
                if o.count_of == "D" and o.k == "num" and o.u == ZERO:
                    # d * c : a pure number proportional to the feature count
                    r.dconst = None if w.cval is None else w.cval * (o.dconst if o.dconst not in (0.0, None) else 1.0)
                    r.count_of = None
                elif o.k == "num" and o.dconst not in (0.0,):
                    r.dconst = None if (w.cval is None or o.dconst is None) else o.dconst * w.cval
                r.mconst = None if (w.cval is None or o.mconst is None) else o.mconst * w.cval
                return r
            r = V("num", lf_add(a.u, b.u), a.s + b.s, sh, kk=a.kk + b.kk)
            r.mconst = None if (a.mconst is None or b.mconst is None) else a.mconst * b.mconst
            return r
        if isinstance(op, (ast.Div, ast.FloorDiv)):
            self.c.facts.setdefault("divs", []).append((self.f.key, node, a, b))
            if isinstance(op, ast.Div) and b.wild and isinstance(b.cval, (int, float)) and b.cval not in (0, 0.0) and not a.wild and b.sh in (None, ()):
                return self._binop(ast.Mult(), a, wild((), 1.0 / b.cval), node)  # x / c is (1/c) * x, constants included
            if a.k == "log":
                if b.k == "log":
                    return unk("ratio of log values")
                if b.wild:
                    return a.copy(u=lf_scale(a.u, 1 / b.cval) if b.cval else a.u, sh=sh, cval=None) if b.cval else unk("log / unknown constant")
                if b.u == ZERO:
                    return a.copy(s=a.s - b.s, sh=sh, cval=None)
                return unk("log value divided by a dimensioned quantity")
            if b.k == "log":
                return unk("division by a log value")
            if a.wild and b.wild:
                return wild(sh, cv)
            if a.wild:
                return V("num", lf_scale(b.u, -1), -b.s, sh, kk=-b.kk)
            if b.wild:
                return a.copy(sh=sh, cval=None, count_of=None, index_of=None)
            return V("num", lf_add(a.u, lf_scale(b.u, -1)), a.s - b.s, sh, kk=a.kk - b.kk)
        if isinstance(op, ast.Pow):
            return self.power(a, b, sh, node)
        if isinstance(op, ast.MatMult):
            return self.matmul(a, b, node)
        if isinstance(op, ast.Mod):
            return a.copy(sh=sh, cval=None)
        return unk(type(op).__name__)

    def power(self, a, b, sh, node):
        if a.k == "log":
            return unk("power of a log value")
        if b.is_numlike and not b.wild and b.u != ZERO:
            self.violation("DIM.D3", node, f"the exponent of a power has a dimension ({fmt(b.copy(sh=None))}): base and exponent are exchanged or the formula is not scale-equivariant")
            return unk("dimensioned exponent")
        if b.cval is None:
            if a.wild or a.u == ZERO and a.s == 0:
                return a.copy(sh=sh, cval=None)
            self.undecided("DIM.D3", node, f"power of {fmt(a)} with a non-literal exponent")
            return unk("power with unknown exponent")
        if a.wild:
            return wild(sh, (a.cval ** b.cval) if a.cval is not None else None)
        c = Fr(b.cval).limit_denominator(64)
        return V("num", lf_scale(a.u, c), a.s * c, sh, kk=a.kk * c)

    def log_addsub(self, op, a, b, sh, node):
        """LOG+LOG adds inner exponents, LOG-LOG subtracts them, LOG +- pure number is unchanged."""
        sign = 1 if isinstance(op, ast.Add) else -1
        if a.k == "log" and b.k == "log":
            if self.c.track_s and a.s != b.s:
                self.violation("DIM.LOG", node, f"log-domain values of different sample extent are combined: {fmt(a.copy(sh=None))} and {fmt(b.copy(sh=None))}")
            r = V("log", lf_add(a.u, lf_scale(b.u, sign)), a.s, sh)
            r.lconst = None if (a.lconst is None or b.lconst is None) else a.lconst + sign * b.lconst
            r.dconst = None if (a.dconst is None or b.dconst is None) else a.dconst + sign * b.dconst
            if r.u == ZERO:
                r.k = "num"
                if sign == -1 and a.sh is not None and b.sh is not None and "N" in a.sh and "N" not in b.sh and a.u != ZERO:
                    r.note = "shared-shift"  # log-densities of many samples minus one log-density common to all of them
            return r
        l, o = (a, b) if a.k == "log" else (b, a)
        if o.wild or (o.u == ZERO and (o.s == 0 or not self.c.track_s)):
            osign = sign if o is b else 1
            lsign = 1 if l is a else sign
            r = l.copy(sh=sh, cval=None) if lsign == 1 else V("log", lf_scale(l.u, -1), l.s, sh)
            ld, ll = l.dconst, l.lconst
            if lsign == -1:
                ld = None if ld is None else -ld
                ll = None if ll is None else -ll
            # the pure number added: a multiple of d (count of features times a constant), a literal constant, or something unknown
            if o.count_of == "D" or getattr(o, "dcoef", None) is not None or (o.dconst not in (0.0, None) and o.k == "num"):
                c = o.dconst if o.dconst not in (0.0, None) else (o.mconst if o.count_of == "D" else None)
                r.dconst = None if (ld is None or c is None) else ld + osign * c
                r.lconst = ll
            elif o.cval is not None:
                r.lconst = None if ll is None else ll + osign * o.cval
                r.dconst = ld
            elif o.k == "num" and not o.wild and o.u == ZERO and o.dconst == 0.0 and o.lconst == 0.0 and o.mconst == 1.0:
                r.lconst, r.dconst = ll, ld  # a data-dependent pure number (quadratic form, log-weights): no constant contributed
            else:
                r.lconst, r.dconst = ll, (None if (o.wild and o.cval is None) else ld)
            return r
        self.violation("DIM.LOG", node, f"a log-domain value {fmt(l.copy(sh=None))} is combined with {fmt(o.copy(sh=None))}, which is not a pure number: the sum is not the logarithm of anything with a dimension")
        return unk("log +- dimensioned")

    def matmul(self, a, b, node):
        u = lf_add(a.u, b.u) if not (a.wild or b.wild) else (b.u if a.wild else a.u)
        s = (a.s if not a.wild else 0) + (b.s if not b.wild else 0)
        kk = (a.kk if not a.wild else 0) + (b.kk if not b.wild else 0)
        sh = None
        if a.sh is not None and b.sh is not None and len(a.sh) >= 1 and len(b.sh) >= 1:
            ka = a.sh[-1]
            kb = b.sh[-2] if len(b.sh) >= 2 else b.sh[-1]
            if ka != kb and "?" not in (ka, kb) and "1" not in (ka, kb):
                self.violation("DIM.SHAPE", node, f"matrix product contracts axis {ka} with axis {kb} ({list(a.sh)} @ {list(b.sh)})")
            if len(b.sh) == 1:
                sh = tuple(a.sh[:-1])
            elif len(a.sh) == 1:
                sh = tuple(b.sh[:-2]) + (b.sh[-1],)
            else:
                lead, _ = bshape(a.sh[:-2], b.sh[:-2], node)
                sh = tuple(lead or ()) + (a.sh[-2], b.sh[-1])
        if a.wild and b.wild:
            return wild(sh)
        # contracting over the sample axis sums over samples
        if self.c.track_s and a.sh and a.sh[-1] == "N":
            s = s + 1
        return V("num", u, s, sh, kk=kk)

    # -- subscripts ------------------------------------------------------------------------------------
    def subscript(self, base, sl, env, node):
        if base.k == "tuple":
            i = const_value(sl)
            if base.tup is not None and isinstance(i, int) and -len(base.tup) <= i < len(base.tup):
                return base.tup[i]
            if base.note == "shape":
                return V("num", count_of="?", sh=())
            return unk("tuple index")
        if base.k == "list":
            if isinstance(sl, ast.Slice):
                return base
            el = base.elem if base.elem is not None else unk("element of empty list")
            return mark_part(el) if base.axis == "B" else el
        if base.k == "dict":
            return base.elem if base.elem is not None else unk("element of empty dict")
        if base.k == "blocks" and base.origin is not None:
            return mark_part(base.origin)  # one block of a Dask array
        if base.k == "func" and base.note and base.note.endswith("hdf5"):
            return unk("hdf5")
        if base.k == "bool":
            # a row / element / slice of a mask is a mask
            return V("bool", sh=None)
        if not base.is_numlike:
            return unk(f"subscript of {fmt(base)}")
        if base.sh is None:
            return base.copy(cval=None, count_of=None, index_of=None)
        idxs = list(sl.elts) if isinstance(sl, ast.Tuple) else [sl]
        out = []
        sh = list(base.sh)
        pos = 0
        n_real = sum(1 for i in idxs if not (isinstance(i, ast.Constant) and i.value is None) and not (isinstance(i, ast.Attribute) and i.attr == "newaxis") and not (isinstance(i, ast.Constant) and i.value is Ellipsis))
        for i in idxs:
            if (isinstance(i, ast.Constant) and i.value is None) or (isinstance(i, ast.Attribute) and i.attr == "newaxis"):
                out.append("1")
                continue
            if isinstance(i, ast.Constant) and i.value is Ellipsis:
                k = len(sh) - (n_real - 0) - pos + 0
                take = max(0, len(sh) - pos - (n_real))
                out.extend(sh[pos:pos + take])
                pos += take
                continue
            if pos >= len(sh):
                return base.copy(sh=None, cval=None)
            if isinstance(i, ast.Slice):
                out.append(sh[pos])
                pos += 1
                continue
            iv = self.ev(i, env)
            if iv.k == "bool" or (iv.is_numlike and iv.sh and len(iv.sh) >= 1 and iv.sh != ()):
                # boolean mask / fancy index along this axis: the axis survives (as a subset)
                out.append(sh[pos])
                pos += 1
                continue
            # integer / index variable: axis removed
            if iv.index_of and sh[pos] not in (iv.index_of, "?") and iv.index_of != "?":
                self.violation("DIM.SHAPE", node, f"axis of kind {sh[pos]} is indexed with an index over {iv.index_of}")
            pos += 1
        out.extend(sh[pos:])
        # every element of an array of zeros is zero: a view / selection of it still is "zero in every dimension"
        return base.copy(sh=tuple(out), cval=(base.cval if (base.wild and base.cval == 0) else None), count_of=None, index_of=None)

    # -- calls -----------------------------------------------------------------------------------------
    def ev_Call(self, e, env):
        from .dim_lib import call as lib_call

        return lib_call(self, e, env)

    def kwargs(self, e, env):
        return {k.arg: self.ev(k.value, env) for k in e.keywords if k.arg is not None}

    def call_repo(self, callee, argvals, kwvals, node, self_val=None):
        """Context-sensitive analysis of a repository callee (inlining with memo)."""
        # a hand-written log-sum-exp (COVER.lse_evidence): typed like the library reducers, whatever its loop looks like
        if callee.posparams and not callee.self_name and (argvals or kwvals):
            from .dim_lib import _lse_cached, reduce_axes, _axes_from
            okl, _why = _lse_cached(self.P, callee)
            if okl:
                pos = list(callee.posparams)
                av = argvals[0] if argvals else kwvals.get(pos[0])
                if av is not None and av.is_numlike:
                    axv = kwvals.get("axis", argvals[pos.index("axis")] if "axis" in pos and pos.index("axis") < len(argvals) else None)
                    if axv is not None:
                        axes_ = _axes_from(axv) if axv.k != "none" else None
                    else:
                        a_ = callee.node.args
                        allp = a_.posonlyargs + a_.args
                        dflt_ = {x.arg: d_ for x, d_ in zip(allp[len(allp) - len(a_.defaults):], a_.defaults)}
                        axes_ = const_value(dflt_["axis"]) if "axis" in dflt_ else 0
                    self.c.facts.setdefault("lse_functions", set()).add(callee.key)
                    return reduce_axes(self, av, axes_, node, "lse")
        if self.depth >= self.c.max_depth or callee.key in self.c.stack:
            decl = self.c.decls.get("returns", {}).get(callee.key)
            return parse_type(decl) if decl else unk(f"recursion/depth at {callee.key}")
        params = list(callee.posparams)
        env = {}
        vals = list(argvals)
        if callee.self_name:
            if self_val is not None:
                env[callee.self_name] = self_val
                params = params[1:]
            elif vals:
                env[callee.self_name] = vals.pop(0)
                params = params[1:]
        for p, v in zip(params, vals):
            env[p] = v
        if callee.vararg:
            env[callee.vararg] = V("tuple", tup=tuple(vals[len(params):]))
        for k, v in kwvals.items():
            env[k] = v
        it = Interp(self.c, callee, self.depth + 1)
        for p in callee.params:
            if p not in env:
                d = callee.defaults.get(p)
                dk = self.c.decls.get("params", {}).get(f"{callee.key}.{p}")
                if dk:
                    env[p] = parse_type(dk)
                elif d is not None:
                    env[p] = it.ev(d, {})
                else:
                    env[p] = unk(f"missing argument {p}")
        key = (callee.key, tuple(sorted((k, fmt(v), repr(v.sw)) for k, v in env.items())))
        if key in self.c.memo:
            return self.c.memo[key]
        self.c.stack.append(callee.key)
        try:
            rets = it.run(env)
        finally:
            self.c.stack.pop()
        out = None
        for st, v in rets:
            out = v if out is None else self.join(out, v, st)
        out = out if out is not None else V("none")
        rd = self.c.decls.get("returns", {}).get(callee.key)
        if rd:
            for st, v in rets:
                it.check_decl(parse_type(rd), v, st, f"return value of {callee.qualname}", rule="DIM.D2-ret")
        self.c.memo[key] = out
        return out


def _load(t):
    import copy as _c

    t2 = _c.copy(t)
    t2.ctx = ast.Load()
    return t2


def analyse_root(ctx, key, param_types, self_type=None):
    """Analyse a function as an entry point with declared parameter types."""
    f = ctx.P.func(key)
    it = Interp(ctx, f, 0)
    env = {}
    for p in f.params:
        t = param_types.get(p)
        if t is not None:
            env[p] = parse_type(t) if isinstance(t, str) else t
        elif p == f.self_name and f.cls is not None:
            env[p] = V("obj", obj=f.cls.name)
        elif p in f.defaults:
            env[p] = it.ev(f.defaults[p], {})
        else:
            env[p] = unk(f"undeclared parameter {p}")
    ctx.stack.append(key)
    try:
        rets = it.run(env)
    finally:
        ctx.stack.pop()
    rd = ctx.decls.get("returns", {}).get(key)
    out = None
    for st, v in rets:
        if rd:
            it.check_decl(parse_type(rd), v, st, f"return value of {f.qualname}", rule="DIM.D2-ret")
        out = v if out is None else it.join(out, v, st)
    return out, env
