"""Structural copy of an AST subtree.

copy.deepcopy follows every attribute of a node - also the back pointers analyses attach (`_parent`), and the `ctx` nodes
(`ast.Load()`, `ast.Store()`) are shared singletons on which such a pointer, once set, leads into some other tree.  A deep copy of
a small expression then copies (or recurses through) a whole module.  `clone` copies the grammar fields and the position attributes
only, and keeps the few marks the canonical form sets."""
import ast

MARKS = ("_inplace", "_reciprocal", "_reciprocal_dtype", "_component")


def clone(n):
    if isinstance(n, ast.AST):
        new = n.__class__()
        for f in n._fields:
            if hasattr(n, f):
                setattr(new, f, clone(getattr(n, f)))
        for a in n._attributes:
            if hasattr(n, a):
                setattr(new, a, getattr(n, a))
        for m in MARKS:
            if hasattr(n, m):
                setattr(new, m, getattr(n, m))
        return new
    if isinstance(n, list):
        return [clone(x) for x in n]
    return n
