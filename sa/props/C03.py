"""C03 — GMM ML training never decreases the likelihood and stops by its stated rule."""
from __future__ import annotations

import ast

from ..cfg import guards_of
from ..dataflow import cone, get_defuse, stores
from ..engines import dimrun
from ..engines import loop as loopeng
from ..frontend import const_value, src, walk_no_nested

EXPLANATION = (
    "Decides the stopping protocol of GMMMachine.fit for every configuration at once (LOOP L1-L6): one loop whose continuation "
    "is `cap is None or step < cap` with step starting at 0 and incremented once per pass (exactly max_fitting_steps passes); "
    "exactly one early exit, guarded by `threshold is not None`, `value <= threshold` and first reachable on the second pass; "
    "value = abs((previous - current) / previous); previous is copied from current before current is redefined; in both the "
    "NumPy and the Dask arm current is the second component of the M-step's return, which is log_likelihood / t of the *reduced* "
    "statistics (average log-likelihood); nothing is written to the model after the exit and fit returns the machine. "
    "M-step well-formedness: inside `if update_x:` exactly parameter x is stored, in both M-step functions; the wrapper hands each "
    "switch/threshold of the machine to the parameter of the same name; ML updates are weights n/t, means sum_px/n, variances "
    "sum_pxx/n - means^2 with the floored counts (dimension and extensiveness: engine DIM). That the likelihood does not "
    "decrease is a numerical property and is not decided."
)
ASSUMPTIONS = ["Python while/else and break semantics", "tuple unpacking order of the M-step's return value"]

FIT = "gmm:GMMMachine.fit"
SWITCHES = {"update_means": "means", "update_variances": "variances", "update_weights": "weights"}


def check_switch_pairing(P, R, key):
    f = P.func(key)
    R.analysed(f)
    mp = f.value_params[0]  # machine
    found = set()
    for st, t, v, k in stores(f):
        if isinstance(t, ast.Attribute) and isinstance(t.value, ast.Name) and t.value.id == mp and t.attr.lstrip("_") in SWITCHES.values():
            t = ast.Attribute(value=t.value, attr=t.attr.lstrip("_"), ctx=t.ctx)
            g = guards_of(st)
            sw = [src(c) for c, pol in g if pol and isinstance(c, ast.Name) and c.id in SWITCHES]
            want = [s for s, a in SWITCHES.items() if a == t.attr][0]
            found.add(t.attr)
            R.check(sw == [want] or want in sw and len(sw) == 1, "PAIR.switch", key, f"{src(t)} stored under `if {want}`", "", f"{src(t)} is stored under switch {sw or 'none'} instead of `{want}`: the wrong parameter subset is updated", st.lineno)
    for sw, a in SWITCHES.items():
        R.check(a in found, "PAIR.switch", key, f"`if {sw}` updates {a}", "", f"no store of {mp}.{a} under `{sw}`: the switch has no effect")


def check_mstep_wrapper(P, R):
    key = "gmm:m_step"
    f = P.func(key)
    R.analysed(f)
    du = get_defuse(f, P)
    stats_p, mach_p = f.value_params[:2]
    want = {
        "update_means": "update_means", "update_variances": "update_variances", "update_weights": "update_weights",
        "mean_var_update_threshold": "mean_var_update_threshold", "alpha": "map_alpha", "relevance_factor": "map_relevance_factor",
    }
    calls = [c for c in walk_no_nested(f.node) if isinstance(c, ast.Call) and any(k.arg == "update_means" for k in c.keywords)]
    if not calls:
        R.error("gmm:m_step: call of the M-step function with update switches not found")
        return
    for c in calls:
        for kw in c.keywords:
            if kw.arg in want:
                ok = isinstance(kw.value, ast.Attribute) and src(kw.value) == f"{mach_p}.{want[kw.arg]}"
                R.check(ok, "ARGROLE.mstep", key, f"{kw.arg}={src(kw.value)}", "machine's setting of the same name", f"parameter {kw.arg} receives `{src(kw.value)}` instead of {mach_p}.{want[kw.arg]}", c.lineno)
            if kw.arg == "reynolds_adaptation":
                v_ = kw.value
                ok = isinstance(v_, ast.Compare) and len(v_.ops) == 1 and isinstance(v_.ops[0], ast.IsNot) and src(v_.left) == f"{mach_p}.map_relevance_factor" and isinstance(v_.comparators[0], ast.Constant) and v_.comparators[0].value is None
                R.check(ok, "ARGROLE.mstep", key, f"reynolds_adaptation={src(v_)}", "data-dependent adaptation exactly when a relevance factor is configured", f"reynolds_adaptation receives `{src(v_)}`: the relevance-factor adaptation is switched on exactly when no relevance factor is configured (or never)", c.lineno)
        kws = {k.arg for k in c.keywords}
        for need in ("update_means", "update_variances", "update_weights", "mean_var_update_threshold"):
            R.check(need in kws, "ARGROLE.mstep", key, f"{need} passed", "", f"the M-step is called without {need}: the machine's setting is ignored (callee default used)", c.lineno)
    # dispatch on the trainer
    disp = [s for s in stores(f) if isinstance(s[1], ast.Name) and isinstance(s[2], ast.IfExp)]
    for st, t, v, k in disp:
        if "map_gmm_m_step" in src(v) and "ml_gmm_m_step" in src(v):
            tst = src(v.test).replace(" ", "")
            ok = (tst == f"{mach_p}.trainer=='map'" and src(v.body) == "map_gmm_m_step") or (tst == f"{mach_p}.trainer=='ml'" and src(v.body) == "ml_gmm_m_step") or (tst == f"{mach_p}.trainer!='map'" and src(v.body) == "ml_gmm_m_step")
            R.check(ok, "PAIR.trainer", key, src(v), "MAP trainer -> MAP M-step", "trainer kinds and M-step functions are crossed", st.lineno)
    # L5: returned criterion = log_likelihood / t of the reduced statistics, returned second
    for r in [x for x in walk_no_nested(f.node) if isinstance(x, ast.Return) and x.value is not None]:
        if not (isinstance(r.value, ast.Tuple) and len(r.value.elts) == 2):
            R.violation("LOOP.L5", key, f"return {src(r.value)}", "the M-step wrapper does not return (machine, criterion)", r.lineno)
            continue
        first, second = r.value.elts
        R.check(isinstance(first, ast.Name) and first.id == mach_p, "LOOP.L5", key, f"return ({src(first)}, ...)", "machine first", "the first returned component is not the updated machine", r.lineno)
        c2 = cone(du, second, r, interproc=False)
        divs = [n for n in c2.nodes if isinstance(n, ast.BinOp) and isinstance(n.op, ast.Div)]
        ok = False
        for d in divs:
            if isinstance(d.left, ast.Attribute) and d.left.attr == "log_likelihood" and isinstance(d.right, ast.Attribute) and d.right.attr == "t" and src(d.left.value) == src(d.right.value):
                # same statistics object, and it is the reduced one (defined by the reduction of the list parameter)
                nm = src(d.left.value)
                st = du.stmt_of(d)
                rd = du.reaching(st, nm)
                red = bool(rd) and all(x.how == "assign" and isinstance(x.value, ast.Call) and ("reduce" in src(x.value.func) or src(x.value.func) == "sum") for x in rd)
                if not red and rd and not any(x.how == "param" for x in rd):
                    # ... or it is the very object the M-step function received as its statistics (the fold itself is COVER.fold's business)
                    for c_ in calls:
                        for kw_ in c_.keywords:
                            if kw_.arg == "statistics" and src(kw_.value) == nm:
                                rd2 = du.reaching(du.stmt_of(c_), nm)
                                red = {id(x) for x in rd2} == {id(x) for x in rd}
                ok = red
        R.check(ok, "LOOP.L5", key, f"criterion = {src(second)[:60]}", "average log-likelihood of the reduced statistics", "the criterion is not total log-likelihood divided by the total sample count of the reduced statistics (un-averaged, or taken from one block)", r.lineno)


def check_variance_update(P, R, key="gmm:ml_gmm_m_step"):
    """The ML variance update is the responsibility-weighted second moment about the machine's means *as they are when the
    update runs*: either the centred form  sum_pxx/n - 2*mean*sum_px/n + mean^2, or  sum_pxx/n - mean^2  with a mean that is, on
    every path, the weighted mean sum_px/n of the same statistics (which fails when the means are not being updated)."""
    from ..cfg import ENTRY
    from ..engines import pol

    f = P.func(key)
    du = get_defuse(f, P)
    mp, sp = f.value_params[:2]
    p = pol.Pol(P, f)
    for st, t, v, k in stores(f):
        if not (isinstance(t, ast.Attribute) and t.attr == "variances" and isinstance(t.value, ast.Name) and t.value.id == mp):
            continue
        cst = du.stmt_of(st)
        terms = list(dict.fromkeys(p.terms(v, cst)))
        has = lambda a, pats: any(pol._match(x, pats) for x in a)
        sec = [x for x in terms if has(x[1], [f"{sp}.sum_pxx"])]
        cross = [x for x in terms if has(x[1], [f"{sp}.sum_px"]) and has(x[1], [f"{mp}.means", f"{mp}._means"]) and not has(x[1], [f"{sp}.sum_pxx"])]
        sq = [x for x in terms if has(x[1], [f"{mp}.means", f"{mp}._means"]) and not has(x[1], [f"{sp}.sum_px", f"{sp}.sum_pxx"])]
        what = f"{src(t)} = {src(v)[:70]}"
        if not sec or any(s_ != 1 for s_, a in sec):
            R.violation("POL.ml-variance", key, what, "the second-order statistics do not enter the variance update positively", st.lineno)
            continue
        if cross:
            ok = all(s_ == -1 for s_, a in cross) and sq and all(s_ == 1 for s_, a in sq)
            R.check(ok, "POL.ml-variance", key, what, "centred second moment: E[x^2] - 2 m E[x] + m^2", f"centred form with wrong signs: {pol.fmt_terms(cross + sq)}", st.lineno)
            pc = pol.Pol(P, f, track_coef=True)
            tc = [x for x in dict.fromkeys(pc.terms(v, cst))]
            crossc = [x for x in tc if has(x[1], [f"{sp}.sum_px"]) and has(x[1], [f"{mp}.means", f"{mp}._means"]) and not has(x[1], [f"{sp}.sum_pxx"])]
            secc = [x for x in tc if has(x[1], [f"{sp}.sum_pxx"])]
            R.check(all(sorted(a_ for a_ in x[1] if a_.startswith("#")) == ["#2"] for x in crossc) and all(not any(a_.startswith("#") for a_ in x[1]) for x in secc), "POL.ml-variance-coef", key, what, "E[x^2] - 2 m E[x] + m^2", f"the centred second moment has the wrong literal coefficients: {pol.fmt_terms(crossc + secc)}", st.lineno)
            continue
        if not sq or any(s_ != -1 for s_, a in sq):
            R.violation("POL.ml-variance", key, what, f"the squared mean is not subtracted from the second moment: {pol.fmt_terms(sq) or 'missing'}", st.lineno)
            continue
        # E[x^2] - m^2 : only the M-step when m is the weighted mean of the same statistics on every path
        mean_stores = [du.stmt_of(s2) for s2, t2, v2, k2 in stores(f) if isinstance(t2, ast.Attribute) and t2.attr in ("means", "_means") and isinstance(t2.value, ast.Name) and t2.value.id == mp]
        fresh = bool(mean_stores)
        for s2, t2, v2, k2 in stores(f):
            if isinstance(t2, ast.Attribute) and t2.attr in ("means", "_means") and isinstance(t2.value, ast.Name) and t2.value.id == mp:
                c = cone(du, v2, du.stmt_of(s2), interproc=False)
                fresh = fresh and c.has_attr("sum_px") and c.has_attr("n")
        stale_path = du.cfg.reach_avoiding(ENTRY, cst, set(mean_stores))
        R.check(
            fresh and not stale_path, "POL.ml-variance", key, what,
            "mean is the weighted mean of the same statistics on every path",
            "the update is E[x^2] - mean^2 with the machine's current means, but on the path where the means are not updated "
            "(update_means off, update_variances on) they are not the weighted mean of these statistics: the result is not the "
            "second moment about the means (it can even be negative) and the likelihood decreases", st.lineno,
        )


def run(P, R, tier):
    check_variance_update(P, R)
    F = loopeng.analyse(P, R, FIT, "max_fitting_steps", "convergence_threshold", ("m_step",))
    if F is not None:
        n = loopeng.check_criterion_source(P, R, F, FIT, ("m_step",))
        R.floor("LOOP.L4-mstep arms", n, 1)
        # the initial previous criterion of the GMM is a finite literal: the step guard is mandatory (checked in L2-second)
    n, _ = dimrun.route(P, R, ["gmm.fit", "gmm.m_step", "gmm.ml", "gmm.e_step"], rules=["DIM.", "EXT."], where_prefix=["gmm:m_step", "gmm:ml_gmm_m_step", "gmm:e_step", "gmm:GMMMachine.fit"])
    R.floor("DIM/EXT obligations (GMM ML training)", n, 10)
    check_switch_pairing(P, R, "gmm:ml_gmm_m_step")
    check_switch_pairing(P, R, "gmm:map_gmm_m_step")
    check_mstep_wrapper(P, R)
    # ML update formulas: structure (dimension/extensiveness is DIM's job)
    f = P.func("gmm:ml_gmm_m_step")
    du = get_defuse(f, P)
    mp, sp = f.value_params[:2]
    need = {"weights": (("n",), ("t",)), "means": (("sum_px",), ("n",)), "variances": (("sum_pxx",), ("n", "means"))}
    for st, t, v, k in stores(f):
        if isinstance(t, ast.Attribute) and t.attr in need and isinstance(t.value, ast.Name) and t.value.id == mp:
            c = cone(du, v, du.stmt_of(st), interproc=False)
            for grp in need[t.attr]:
                for a in grp:
                    R.check(c.has_attr(a), "DEP.ml", f.key, f"{mp}.{t.attr} depends on .{a}", "", f"the ML update of {t.attr} does not depend on {a}", st.lineno)
    from ..engines import proto as _pp
    _pp.check_pairwise_folds(P, R, ['gmm', 'utils'])
    # the model the next E-step sees is the one the M-step produced, on both execution paths (with their caches)
    from ..engines import own as _owneng, proto as _pp2
    _own = _owneng.Own(P)
    nb = _pp2.check_branch(P, R, _pp2.site_func(P, FIT))
    ncb = _pp2.check_copyback(P, R, _own, _pp2.site_func(P, FIT), ("m_step",))
    R.floor("BRANCH/COPYBACK (GMM fit)", nb + ncb, 2)
    from ..engines import traps as _traps
    _traps.check(P, R, ['gmm'], scope='gmm:(e_step|m_step|ml_gmm_m_step|GMMMachine\\.fit|_\\w+)$')
    from ..engines import proto as _pst
    _pst.check_standins(P, R, 'gmm:GMMMachine.fit')


EXPLANATION += " Also: (BRANCH / COPYBACK) both execution paths of fit run the same kernels with the same inputs and everything the M-step writes is stored back through the setters; (ARGROLE.mstep) the M-step function receives the machine's own switches, thresholds and the relevance-factor flag with the right polarity; (COVER.pairs)."
EXPLANATION += ' (COVER.tree) a tree-shaped fold in the M-step wrapper covers every block exactly once.'


_run_c03_r6 = run


def run(P, R, tier):
    _run_c03_r6(P, R, tier)
    from ..engines import carry as _carry
    _carry.check_stale_derived(P, R, "gmm:GMMMachine.fit")


EXPLANATION += " (STALE.derived) a local precomputed from the machine parameters inside the training loop is recomputed after every update of them."
