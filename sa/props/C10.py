"""C10 — i-vectors are posterior means; i-vector EM never decreases the likelihood."""
from __future__ import annotations

import ast

from ..cfg import guards_of
from ..dataflow import cone, get_defuse, stores
from ..engines import dimrun, guard, pol
from ..frontend import src, walk_no_nested
from .C13 import check_sigma_floor

EXPLANATION = (
    "Decides for every UBM, T, covariance and statistics at once: (DIM) T is U, sigma U^2, the posterior precision and the linear term "
    "are pure numbers, the i-vector is a pure number of shape (t,), the E-step accumulators have their declared dimensions and the "
    "covariance update is U^2 (its two terms agree); (POL) Fnorm = F - N m in both places it is computed and Snorm = S - 2 F m + N m^2; "
    "(PREC) the posterior precision is identity (standard-normal prior) plus the count-weighted T' Sigma^-1 T; E[w w'] is the posterior "
    "covariance plus the outer product of the posterior mean; (SIBLING) project and the E-step obtain precision and linear term from "
    "the same two kernels with the same argument roles (machine's T and sigma, UBM means, the statistics being projected); project "
    "returns the solution of the linear system (zero right-hand side for zero-frame statistics gives the zero vector); (GUARD) the "
    "covariance clamp follows the covariance update on every path, the per-component solve is filtered against all-zero matrices, "
    "divisions by counts must be floored (the unguarded `/ nij` is a recorded finding). Posterior-mean numerics and EM monotonicity are "
    "not decided."
)
ASSUMPTIONS = ["np.linalg.solve(A, b) returns the unique solution for non-singular A", "np.einsum contracts as written in its subscript string"]

IV = "ivector:"


class _Component(ast.AST):
    """A marker expression: component `index` of the tuple a call returns (stats.x, lost = helper(...))."""
    _fields = ("call",)


def _acc_store(f, attr):
    for st, t, v, k in stores(f):
        if isinstance(t, ast.Attribute) and t.attr == attr and v is not None:
            if isinstance(st, ast.Assign) and isinstance(v, ast.Call):
                for tg in st.targets:
                    if isinstance(tg, ast.Tuple) and t in tg.elts:
                        v._component = tg.elts.index(t)
            return st, v
    return None, None


def _terms_of_store(gp, st, v):
    """terms of the stored value; for `a.x, b = helper(...)` those of the matching component of what the helper returns"""
    idx = getattr(v, "_component", None)
    if idx is not None:
        got = gp._inline(v, idx)
        if got is not None:
            return got
    return gp.terms(v, gp.du.stmt_of(st))


def posterior_locals(P, f):
    """Locals of the E-step that hold posterior moments, recognised by how they are computed:
    level 0  the posterior covariance: value of inv / pinv / solve(...)
    level 1  the posterior mean: a product (dot / matmul / @ / einsum / solve) that has a level-0 value as an operand.
    They are data-dependent in sign; the sign rules treat them as opaque positive-labelled atoms `post:cov` / `post:mean`."""
    lab = {}
    sts = [(st, t, v) for st, t, v, k in stores(f) if isinstance(t, ast.Name) and v is not None and k == "assign"]
    for st, t, v in sts:
        if isinstance(v, ast.Call) and src(v.func).split(".")[-1] in ("inv", "pinv"):
            lab[t.id] = "post:cov"
        if isinstance(v, ast.Call) and src(v.func).split(".")[-1] == "solve":
            lab[t.id] = "post:mean"
    for st, t, v in sts:
        if t.id in lab:
            continue
        ops = []
        if isinstance(v, ast.BinOp) and isinstance(v.op, ast.MatMult):
            ops = [v.left, v.right]
        elif isinstance(v, ast.Call) and src(v.func).split(".")[-1] in ("dot", "matmul", "einsum", "tensordot"):
            ops = list(v.args)
        if any(isinstance(o, ast.Name) and lab.get(o.id) == "post:cov" for o in ops):
            lab[t.id] = "post:mean"
    return lab


def estep_pol(P, g, **kw):
    """POL over the E-step with posterior moments as opaque atoms, also inside helpers the E-step calls for them."""
    p_ = pol.Pol(P, g, opaque=posterior_locals(P, g), inline_repo=True, **kw)
    p_.opaque_provider = lambda fn: posterior_locals(P, fn)
    return p_


def estep_scopes(P, g):
    """The E-step and the helpers it hands the machine and a sample to (one level)."""
    out = [g]
    for c in walk_no_nested(g.node):
        if isinstance(c, ast.Call):
            for t_ in P.resolve_callee(c.func, g):
                if t_[0] == "repo" and t_[1] not in out and t_[1].module is g.module and not t_[1].qualname.startswith("compute_") and not t_[1].qualname[0].isupper():
                    out.append(t_[1])
    return out


def check_fnorm(P, R):
    """Centred statistics, identified by where they flow (not by the names of locals):
    - the value returned by compute_tt_sigma_inv_fnorm is T'S^-1 (F - N m);
    - the value accumulated into stats.fnorm_sigma_wij is (F - N m) E[w]';
    - the value accumulated into stats.snormij is S - 2 F m + N m^2."""
    f = P.func(IV + "compute_tt_sigma_inv_fnorm")
    R.analysed(f)
    p = pol.Pol(P, f)
    t = list(dict.fromkeys(p.value_terms()))
    pol.check_row(R, "POL.fnorm", f.key, t, dict(atoms=["sum_px"], sign="+", why="first-order statistics"))
    pol.check_row(R, "POL.fnorm", f.key, t, dict(atoms=[f.value_params[0], "ubm.means", "means"], sign="-", with_=["n"], why="N times the UBM mean is subtracted"))
    g = P.func(IV + "e_step")
    R.analysed(g)
    gp = estep_pol(P, g)
    st, v = _acc_store(g, "fnorm_sigma_wij")
    if v is None:
        R.violation("POL.fnorm", g.key, "stats.fnorm_sigma_wij accumulation", "the Fnorm E[w]' accumulator is no longer updated")
    else:
        t = [x for x in dict.fromkeys(_terms_of_store(gp, st, v)) if not any("fnorm_sigma_wij" in a for a in x[1])]
        pol.check_row(R, "POL.fnorm", g.key, t, dict(atoms=["sum_px"], sign="+", why="first-order statistics"))
        pol.check_row(R, "POL.fnorm", g.key, t, dict(atoms=["ubm.means", "means"], sign="-", with_=["n"], why="N times the UBM mean is subtracted"))
    st, v = _acc_store(g, "snormij")
    if v is None:
        R.violation("POL.snorm", g.key, "stats.snormij accumulation", "the Snorm accumulator is no longer updated")
    else:
        t = [x for x in dict.fromkeys(_terms_of_store(gp, st, v)) if not any("snormij" in a for a in x[1])]
        pol.check_row(R, "POL.snorm", g.key, t, dict(atoms=["sum_pxx"], sign="+", why="second-order statistics"))
        cross = [x for x in t if any(a.endswith(".sum_px") for a in x[1])]
        sq = [x for x in t if any(a.endswith(".n") for a in x[1])]
        R.check(bool(cross) and all(s_ == -1 for s_, a in cross), "POL.snorm", g.key, "- 2 F m", pol.fmt_terms(cross), f"the cross term of Snorm is not subtracted: {pol.fmt_terms(cross) or 'missing'}", st.lineno)
        R.check(bool(sq) and all(s_ == 1 for s_, a in sq), "POL.snorm", g.key, "+ N m^2", pol.fmt_terms(sq), f"the N m^2 term of Snorm is not added: {pol.fmt_terms(sq) or 'missing'}", st.lineno)
        gc = pol.Pol(P, g, track_coef=True)
        tc = [x for x in dict.fromkeys(_terms_of_store(gc, st, v)) if not any("snormij" in a for a in x[1])]
        pol.check_coefficients(R, "POL.snorm-coef", g.key, tc, [(["sum_pxx"], None), (["sum_px"], 2), (["n"], None)], what="Snorm = S - 2 F m + N m^2", line=st.lineno)


def check_precision(P, R):
    f = P.func(IV + "compute_id_tt_sigma_inv_t")
    R.analysed(f)
    p = pol.Pol(P, f)
    for r in [x for x in walk_no_nested(f.node) if isinstance(x, ast.Return) and x.value is not None]:
        t = list(dict.fromkeys(p.terms(r.value, r)))
        ident = [x for x in t if x[0] == 1 and not x[1]]
        dat = [x for x in t if x[1]]
        R.check(bool(ident), "PREC.prior", f.key, "identity term of the posterior precision", "standard-normal prior", "the identity is missing from the i-vector posterior precision", r.lineno)
        R.check(bool(dat) and all(s_ == 1 for s_, a in dat) and all(any(x.endswith(".n") for x in a) for s_, a in dat), "PREC.data", f.key, "+ sum_c N_c T_c' S_c^-1 T_c", pol.fmt_terms(dat)[:80], f"the data term of the precision is not a positive count-weighted term: {pol.fmt_terms(dat)}", r.lineno)
    # E[w w'] accumulated into nij_sigma_wij2: N * (posterior covariance + mean outer product)
    g = P.func(IV + "e_step")
    gp = estep_pol(P, g)
    st, v = _acc_store(g, "nij_sigma_wij2")
    if v is None:
        R.violation("PREC.second-moment", g.key, "stats.nij_sigma_wij2 accumulation", "the N E[ww'] accumulator is no longer updated")
        return
    t = [x for x in dict.fromkeys(_terms_of_store(gp, st, v)) if not any("nij_sigma_wij2" in a for a in x[1])]
    cov = [x for x in t if any("inv" in a or a == "post:cov" for a in x[1])]
    R.check(bool(t) and all(s_ == 1 for s_, a in t) and len(t) >= 2 and bool(cov), "PREC.second-moment", g.key, f"N E[w w'] = {pol.fmt_terms(t)[:90]}", "N * (posterior covariance + outer product of the mean), all positive", f"the accumulated second moment is not N * (inverse precision + mean outer product): {pol.fmt_terms(t)[:120]}", st.lineno)
    R.check(all(any(a.endswith(".n") for a in x[1]) for x in t), "PREC.second-moment", g.key, "weighted by the counts", "", "E[w w'] is not weighted by the counts", st.lineno)
    # the E-step sums have no divisions: counts, statistics, means and posterior moments all multiply
    gi = estep_pol(P, g, track_inv=True)
    nn = 0
    for attr in ("nij_sigma_wij2", "fnorm_sigma_wij", "snormij", "nij"):
        st2, v2 = _acc_store(g, attr)
        if v2 is None:
            continue
        it = list(dict.fromkeys(gi.terms(v2, gi.du.stmt_of(st2))))
        nn += pol.check_inverse(R, "PREC.placement", g.key, it, direct=["n", "sum_px", "sum_pxx", "means", "call:*", "inv*", "post:*", attr], what=f"stats.{attr}: every factor multiplies", line=st2.lineno)
    R.floor("PREC.placement atoms", nn, 8)


def _kernel_calls(P, f):
    out = {}
    for c in walk_no_nested(f.node):
        if isinstance(c, ast.Call):
            nm = src(c.func)
            if nm in ("compute_id_tt_sigma_inv_t", "compute_tt_sigma_inv_fnorm"):
                tg = P.func(IV + nm)
                out[nm] = (c, P.bind_args(tg, c.args, c.keywords))
    return out


def _inline_posterior_term(P, f, kernel):
    """Is the value of `kernel` computed in place in f?  precision: the inverted / solved-against expression is identity + a positive
    count-weighted term in T; linear term: what the posterior covariance is applied to has +F and -N m."""
    p_ = pol.Pol(P, f)
    du = p_.du
    inv_args, lin_args = [], []
    lab = posterior_locals(P, f)
    for n in walk_no_nested(f.node):
        if isinstance(n, ast.Call) and src(n.func).split(".")[-1] in ("inv", "pinv") and n.args:
            inv_args.append((n.args[0], n))
        if isinstance(n, ast.Call) and src(n.func).split(".")[-1] == "solve" and len(n.args) == 2:
            inv_args.append((n.args[0], n))
            lin_args.append((n.args[1], n))
        ops = None
        if isinstance(n, ast.BinOp) and isinstance(n.op, ast.MatMult):
            ops = [n.left, n.right]
        elif isinstance(n, ast.Call) and src(n.func).split(".")[-1] in ("dot", "matmul") and len(n.args) == 2:
            ops = list(n.args)
        if ops and isinstance(ops[0], ast.Name) and lab.get(ops[0].id) == "post:cov":
            lin_args.append((ops[1], n))
    if kernel == "compute_id_tt_sigma_inv_t":
        for e, n in inv_args:
            t = list(dict.fromkeys(p_.terms(e, du.stmt_of(n))))
            ident = [x for x in t if x[0] == 1 and not x[1]]
            dat = [x for x in t if x[1]]
            if ident and dat and all(s_ == 1 for s_, a in dat) and all(any(x.endswith(".n") for x in a) for s_, a in dat) and any(any(x.endswith(".T") or "compute_tct" in x for x in a) for s_, a in dat):
                return True, ""
        return False, "no inverted expression of the form I + sum_c N_c T_c' S_c^-1 T_c"
    for e, n in lin_args:
        t = list(dict.fromkeys(p_.terms(e, du.stmt_of(n))))
        plus = [x for x in t if any(a.endswith(".sum_px") for a in x[1])]
        minus = [x for x in t if any(a.endswith("means") for a in x[1]) and not any(a.endswith(".sum_px") for a in x[1])]
        if plus and minus and all(s_ == 1 for s_, a in plus) and all(s_ == -1 and any(x.endswith(".n") for x in a) for s_, a in minus):
            return True, ""
    return False, "no linear term of the form T' S^-1 (F - N m)"


def _delegate(P, f):
    """A method whose body is `return helper(args...)`: (helper, {helper parameter: text of the argument}) - else (f, {})."""
    body = [st for st in f.body() if not isinstance(st, (ast.Pass,))]
    if len(body) == 1 and isinstance(body[0], ast.Return) and isinstance(body[0].value, ast.Call):
        c = body[0].value
        tg = [t_[1] for t_ in P.resolve_callee(c.func, f) if t_[0] == "repo"]
        if tg and not tg[0].qualname.split(".")[-1].startswith("compute_"):
            b = P.bind_args(tg[0], c.args, c.keywords)
            return tg[0], {p_: src(a_) for p_, a_ in b.items()}
    return f, {}


def check_sibling(P, R):
    pr0 = P.func(IV + "IVectorMachine.project")
    es = P.func(IV + "e_step")
    R.analysed(pr0)
    pr, argmap = _delegate(P, pr0)  # the projection may be a thin method over a module function
    kp, ke = _kernel_calls(P, pr), {}
    es_of = {}
    for sc_ in estep_scopes(P, es):
        for nm_, val_ in _kernel_calls(P, sc_).items():
            ke.setdefault(nm_, val_)
            es_of.setdefault(nm_, sc_)
    for nm in ("compute_id_tt_sigma_inv_t", "compute_tt_sigma_inv_fnorm"):
        for who, f_, calls, mach in (("project", pr, kp, pr0.self_name), ("e_step", es, ke, es.value_params[0])):
            if who == "e_step" and nm in calls:
                f_ = es_of.get(nm, f_)  # the helper of the E-step that holds the call
                mach = f_.value_params[0] if f_ is not es else mach
            if nm not in calls:
                # the kernel may be written out in place: then the same structural conditions are checked on the expression
                ok_inline, why = False, ""
                for sc_ in (estep_scopes(P, f_) if who == "e_step" else [f_]):
                    ok_inline, why = _inline_posterior_term(P, sc_, nm)
                    if ok_inline:
                        break
                R.check(ok_inline, "SIBLING.kernels", f_.key, f"{who} computes {nm} (call or in place)", "same posterior in training and extraction", f"{who} neither calls {nm} nor computes its value in place ({why}): training and extraction disagree on the posterior")
                continue
            R.ok("SIBLING.kernels", f_.key, f"{who} calls {nm}", "same kernel")
            c, b = calls[nm]
            roles = {"T": f"{mach}.T", "sigma": f"{mach}.sigma", "ubm_means": f"{mach}.ubm.means"}
            from ..dataflow import resolve_name as _rn
            _du = get_defuse(f_, P)
            for prm, want in roles.items():
                if prm in b:
                    b[prm] = _rn(_du, b[prm], _du.stmt_of(c))[0]  # a name bound to the machine's parameter is that parameter
                    got_ = src(b[prm])
                    if who == "project" and got_ in argmap:
                        got_ = argmap[got_]  # a parameter of the delegate stands for what the method passes
                    R.check(got_ == want, "SIBLING.roles", f_.key, f"{nm}({prm}={src(b[prm])})", f"machine's own {prm}", f"{who} passes `{src(b[prm])}` as {prm} where the machine's `{want}` is required", c.lineno)
            if "stats" in b:
                sv = src(b["stats"])
                sv = argmap.get(sv, sv) if who == "project" else sv
                want = pr0.value_params[0] if who == "project" else None
                if who == "project":
                    R.check(sv == want, "SIBLING.roles", pr.key, f"{nm}(stats={sv})", "the statistics being projected", f"project passes `{sv}` instead of its statistics argument", c.lineno)
    # project solves precision w = linear term
    du = get_defuse(pr, P)
    for r in [x for x in walk_no_nested(pr.node) if isinstance(x, ast.Return) and x.value is not None]:
        v = r.value
        ok = isinstance(v, ast.Call) and src(v.func).split(".")[-1] == "solve" and len(v.args) == 2 and "compute_id_tt_sigma_inv_t" in src(v.args[0]) and "compute_tt_sigma_inv_fnorm" in src(v.args[1])
        if not ok:
            c = cone(du, v, r, interproc=False)
            ok = c.calls_any("solve", "inv") and any("compute_id_tt_sigma_inv_t" in x for x in c.calls) and any("compute_tt_sigma_inv_fnorm" in x for x in c.calls)
        R.check(ok, "SIBLING.solve", pr.key, f"return {src(v)[:70]}", "solution of precision * w = linear term", "the i-vector is not the solution of (I + sum N T'S^-1 T) w = sum T'S^-1 (F - N m)", r.lineno)


def check_every_sample_accumulated(P, R, rule="COVER.samples"):
    """Every statistics object of the training data contributes to the four accumulators: the sample loop of the E-step has no
    early exit and the accumulator updates are unconditional (a skip of statistics without any frame is the only accepted filter)."""
    f = P.func(IV + "e_step")
    dp = f.value_params[1]
    loops = [n for n in walk_no_nested(f.node) if isinstance(n, ast.For) and isinstance(n.iter, ast.Name) and n.iter.id == dp]
    if not loops:
        R.violation(rule, f.key, f"for <sample> in {dp}", "the E-step no longer iterates over all statistics of its input")
        return
    lp = loops[0]
    for n in walk_no_nested(lp):
        if isinstance(n, (ast.Break, ast.Continue)):
            g = getattr(n, "_parent", None)
            tst = src(g.test).replace(" ", "") if isinstance(g, ast.If) else ""
            harmless = isinstance(g, ast.If) and ("np.any(" in tst or ".any()" in tst or ".sum()==0" in tst or ".t==0" in tst) and tst.startswith("not") or tst.endswith("==0")
            R.check(harmless, rule, f.key, f"`{type(n).__name__.lower()}` under `if {src(g.test)[:50] if isinstance(g, ast.If) else ''}`", "only statistics without any frame are skipped", "statistics objects are skipped or the loop is left early: their counts and moments never reach the accumulators, so the M-step maximises the likelihood of a subset", n.lineno)
    accs = [st for st, t, v, k in stores(lp) if isinstance(t, ast.Attribute) and t.attr in ("nij_sigma_wij2", "fnorm_sigma_wij", "snormij", "nij")]
    for st in accs:
        p_ = getattr(st, "_parent", None)
        cond = False
        while p_ is not None and p_ is not lp:
            if isinstance(p_, ast.If):
                cond = True
            p_ = getattr(p_, "_parent", None)
        R.check(not cond, rule, f.key, src(st)[:60], "unconditional", "an accumulator is only updated under a condition", st.lineno)
    R.floor(rule + " accumulator updates", len(accs), 4)


def _inside_like(x):
    p = getattr(x, "_parent", None)
    while p is not None and not isinstance(p, ast.stmt):
        if isinstance(p, ast.Call) and src(p.func).split(".")[-1] in ("ones_like", "zeros_like", "empty_like", "full_like"):
            return True
        p = getattr(p, "_parent", None)
    return False


def run(P, R, tier):
    n, rets = dimrun.route(P, R, ["iv.e_step", "iv.m_step", "iv.project", "iv.fit"], rules=["DIM.", "EXT."], where_prefix=[IV])
    R.floor("DIM obligations (i-vector)", n, 15)
    check_fnorm(P, R)
    check_precision(P, R)
    check_sibling(P, R)
    check_sigma_floor(P, R)
    check_every_sample_accumulated(P, R)
    from ..engines import memo, own as owneng
    memo.check_class(P, R, owneng.Own(P), "IVectorMachine")
    guard.check_divisions(P, R, ["iv.e_step", "iv.m_step", "iv.project"], ("ivector",))
    # E-step accumulators: N E[ww'], Fnorm E[w]', Snorm, N
    e = P.func(IV + "e_step")
    edu = get_defuse(e, P)
    ep = estep_pol(P, e)
    need = {"nij_sigma_wij2": ("n", "post:"), "fnorm_sigma_wij": ("sum_px", "post:"), "snormij": ("sum_pxx",), "nij": ("n",)}
    for st, t, v, k in stores(e):
        if isinstance(t, ast.Attribute) and t.attr in need:
            if isinstance(st, ast.Assign) and isinstance(v, ast.Call):
                for tg_ in st.targets:
                    if isinstance(tg_, ast.Tuple) and t in tg_.elts:
                        v._component = tg_.elts.index(t)
            terms = list(dict.fromkeys(_terms_of_store(ep, st, v)))
            prev = [x for x in terms if any(a.endswith("." + t.attr) for a in x[1]) and len(x[1]) == 1]
            new_t = [x for x in terms if x not in prev]
            R.check(any(s_ == 1 for s_, a in prev), "DEP.accumulators", e.key, f"{t.attr} adds to its previous value", "", f"accumulator {t.attr} is overwritten instead of accumulated over the samples", st.lineno)
            lead = need[t.attr][0]
            lead_t = [x for x in new_t if any((a.endswith("." + lead) or a == lead) for a in x[1]) and not any(a.endswith(".means") or a == "means" for a in x[1])]
            # (compensated summation hands back error terms of both signs: only a statistic that enters *only* negatively is wrong)
            R.check(not lead_t or any(s_ == 1 for s_, a in lead_t), "POL.acc-sign", e.key, f"{t.attr} += ... {lead} ...", "the sample's statistic is added", f"the term of `{t.attr}` that carries the sample's `{lead}` is {pol.fmt_terms(lead_t)[:70] or 'missing'}: it is subtracted from (not added to) the accumulator", st.lineno)
            for nd in need[t.attr]:
                got = any(any((a.endswith("." + nd) or nd in a) for a in x[1]) for x in new_t)
                R.check(got, "DEP.accumulators", e.key, f"{t.attr} accumulates a term with {nd}", "", f"accumulator {t.attr} lacks its {nd} factor ({pol.fmt_terms(new_t)[:90]})", st.lineno)
    # M-step: T solves A X = B per component from the two accumulators
    f = P.func(IV + "m_step")
    du = get_defuse(f, P)
    mp, sp = f.value_params[:2]
    n_T = n_sigma = 0
    for st, t, v, k in stores(f):
        if isinstance(t, ast.Attribute) and t.attr == "sigma" and isinstance(t.value, ast.Name) and t.value.id == mp and k == "assign":
            n_sigma += 1
            c = cone(du, v, du.stmt_of(st), interproc=False)
            R.check(c.has_attr("snormij") and c.has_attr("fnorm_sigma_wij") and c.has_attr("nij"), "DEP.sigma", f.key, f"{src(t)} = {src(v)[:40]}", "(Snorm - diag(Fnorm E[w]' T')) / N", "the new sigma is not computed from the centred second-order statistics, the cross term and the counts", st.lineno)
            # sign structure of the update: the node that combines the centred second-order statistics with the part explained by T
            from ..dataflow import resolve_name as _rn10
            comb = []
            todo_ = [(v, du.stmt_of(st))]
            seen_ = set()
            while todo_:
                e_, s_ = todo_.pop()
                e_, s_ = _rn10(du, e_, s_)
                if id(e_) in seen_:
                    continue
                seen_.add(id(e_))
                if isinstance(e_, ast.BinOp) and isinstance(e_.op, (ast.Add, ast.Sub)):
                    cl_, cr_ = cone(du, e_.left, s_, interproc=False), cone(du, e_.right, s_, interproc=False)
                    l_sn, r_sn = cl_.has_attr("snormij"), cr_.has_attr("snormij")
                    l_fn, r_fn = cl_.has_attr("fnorm_sigma_wij"), cr_.has_attr("fnorm_sigma_wij")
                    if (l_sn and r_fn and not l_fn) or (r_sn and l_fn and not r_fn):
                        comb.append((e_, l_sn and r_fn))
                        continue
                for c_ in ast.iter_child_nodes(e_):
                    if isinstance(c_, ast.expr) and not isinstance(e_, ast.Call):
                        todo_.append((c_, s_))
                    elif isinstance(c_, ast.expr) and isinstance(e_, ast.Call) and c_ in e_.args:
                        todo_.append((c_, s_))
            if comb:
                def _usign(x_, s_):
                    sg = 1
                    x_, s_ = _rn10(du, x_, s_)
                    while isinstance(x_, ast.UnaryOp) and isinstance(x_.op, (ast.USub, ast.UAdd)):
                        sg = -sg if isinstance(x_.op, ast.USub) else sg
                        x_, s_ = _rn10(du, x_.operand, s_)
                    return sg
                for e_, snorm_left in comb:
                    sl_ = _usign(e_.left, du.stmt_of(st))
                    sr_ = _usign(e_.right, du.stmt_of(st)) * (1 if isinstance(e_.op, ast.Add) else -1)
                    s_sn, s_fn = (sl_, sr_) if snorm_left else (sr_, sl_)
                    ok_ = s_sn == 1 and s_fn == -1
                    R.check(ok_, "POL.sigma", f.key, f"sigma ~ {src(e_)[:70]}", "Snorm - diag(Fnorm E[w]' T')", f"the covariance update combines the centred second-order statistics and the part explained by T as `{src(e_)[:70]}`: the explained part must be subtracted from the statistics", getattr(e_, "lineno", st.lineno))
            else:
                R.undecided("POL.sigma", f.key, f"sigma = {src(v)[:60]}", "the node that combines Snorm with the part explained by T was not found", st.lineno)
            g_ = [src(test) for test, pol_ in guards_of(du.stmt_of(st)) if pol_]
            R.check(any("update_sigma" in x for x in g_), "DEP.sigma", f.key, "sigma updated under machine.update_sigma", "", "sigma is updated regardless of update_sigma", st.lineno)
        if isinstance(t, ast.Attribute) and t.attr == "T" and isinstance(t.value, ast.Name) and t.value.id == mp:
            n_T += 1
            from ..cfg import enclosing_guards as _eg
            R.check(not _eg(du.stmt_of(st)), "DEP.T", f.key, "T is updated on every M-step", "", "the T update is conditional", st.lineno)
            c = cone(du, v, du.stmt_of(st), interproc=False)
            R.check(c.has_attr("nij_sigma_wij2") and c.has_attr("fnorm_sigma_wij") and c.calls_any("solve", "inv"), "DEP.T", f.key, f"{src(t)} = {src(v)[:40]}", "solve(sum N E[ww'], sum Fnorm E[w]')", "the new T does not solve the normal equations built from both accumulators", st.lineno)
    R.check(n_T >= 1, "DEP.T", f.key, "m_step stores machine.T", "", "the M-step no longer updates T: training returns the initial total-variability matrix")
    R.check(n_sigma >= 1, "DEP.sigma", f.key, "m_step stores machine.sigma", "", "the M-step no longer updates sigma (update_sigma has no effect)")
    from ..engines import dtype as _dt
    n_dt = 0
    for name in ("e_step", "compute_tt_sigma_inv_fnorm", "compute_id_tt_sigma_inv_t"):
        n_dt += _dt.check_function(P, R, IV + name, raw_attrs=("n", "sum_px", "sum_pxx"))
    R.floor("DTYPE.raw sites (i-vector)", n_dt, 4)
    from ..engines import traps as _traps
    _traps.check(P, R, ['ivector'], scope='ivector:')
    from ..engines import own as _oro
    _own_ro = _oro.Own(P)
    n_ro = 0
    n_ro += _oro.check_param_readonly(P, R, _own_ro, 'ivector:m_step', ['stats'], why='the statistics / data handed to one step are changed by it: a second step from the same object (several clients adapted from one set of statistics, a repeated call) computes from different values')
    n_ro += _oro.check_param_readonly(P, R, _own_ro, 'ivector:e_step', ['data'], why='the statistics / data handed to one step are changed by it: a second step from the same object (several clients adapted from one set of statistics, a repeated call) computes from different values')
    R.floor('OWN.readonly parameters', n_ro, 2)
    from ..engines import proto as _pst
    _pst.check_standins(P, R, 'ivector:IVectorMachine.fit')


EXPLANATION += ' Also: literal coefficient 2 of the Snorm cross term, no division in the E-step sums, the M-step stores T on every call (solved from both accumulators) and sigma under update_sigma; posterior moments are opaque to the sign rules (their sign is data dependent); the kernels may be written out in place or moved into a helper; (MEMO) no memo derived from T / sigma survives their update; (DTYPE.raw).'


_run_c10_r6 = run


def run(P, R, tier):
    _run_c10_r6(P, R, tier)
    from ..engines import carry as _carry
    _carry.check_stale_derived(P, R, "ivector:IVectorMachine.fit")


EXPLANATION += " (STALE.derived) a local computed from T / sigma in the training loop is recomputed after every update of them before it is used again (no path from the update to the use without a definition)."
