"""C04 — array training is independent of chunking, task order and worker isolation."""
from __future__ import annotations

import ast

from ..dataflow import cone, get_defuse, stores
from ..engines import dimrun, own as owneng, proto
from ..frontend import src, walk_no_nested

EXPLANATION = (
    "Decides for every block structure, task order and executor at once the structural conditions of 'Dask = NumPy': (CHUNK) a Dask "
    "array is split into delayed blocks only after its feature axis has been rechunked to a single block, so every block holds "
    "complete samples; (BRANCH) at each of the two-armed `if input_is_dask / is_input_dask_nested(...)` sites of gmm.fit, kmeans.fit, "
    "get_variances_and_weights..., FactorAnalysisBase.initialize / compute_latent_x / update_y / fit_using_array, ISV.fit and JFA.fit (x3) "
    "both arms call the same kernels (wrappers peeled) with the same argument sources for every parameter; WCCN/whitening bind the same "
    "names to same-named functions in both module arms; (COPYBACK) everything the M-step sink writes on its (possibly serialised) copy of "
    "the machine is stored back on self from the computed result; (PURE) every other block task has an empty in-place effect summary on "
    "its inputs and on the machine (engine OWN), so task order and memory sharing cannot matter; (EXT, engine DIM) per-block partials are "
    "extensive and are folded over all blocks, the global sample count is taken from the whole array before the split and applied once, "
    "nothing computed from a single block is stored as a whole-data quantity; (COVER) one task per block, the whole task list reaches "
    "the reducer. The scheduler is assumed to run a task after its inputs. Floating-point equality of results is not decided."
)
ASSUMPTIONS = ["Dask executes a task after its inputs; to_delayed() returns one object per block of an N-d grid", "OWN library model", "DIM declared types"]

SITES = {
    "gmm:GMMMachine.fit": ("m_step",),
    "kmeans:KMeansMachine.fit": ("m_step",),
    "kmeans:KMeansMachine.get_variances_and_weights_for_each_cluster": ("reduce_indices_means_vars",),
    "factor_analysis:FactorAnalysisBase.initialize": (),
    "factor_analysis:FactorAnalysisBase.compute_latent_x": (),
    "factor_analysis:FactorAnalysisBase.update_y": (),
    "factor_analysis:FactorAnalysisBase.fit_using_array": (),
    "factor_analysis:ISVMachine.fit": ("m_step",),
    "factor_analysis:JFAMachine.fit": ("m_step_v", "m_step_u", "m_step_d"),
}
PURE_ALLOW = ()


def run(P, R, tier):
    own = owneng.Own(P)
    proto.check_chunk(P, R)
    # every caller of the splitter hands it a whole array
    ncall = 0
    for f in P.all_funcs(["gmm", "kmeans"]):
        for c in walk_no_nested(f.node):
            if isinstance(c, ast.Call) and src(c.func) == "array_to_delayed_list":
                ncall += 1
    R.floor("array_to_delayed_list call sites", ncall, 3)
    nb = ncb = npure = ncov = 0
    for key, sinks in SITES.items():
        nb += proto.check_branch(P, R, proto.site_func(P, key))
        ncb += proto.check_copyback(P, R, own, proto.site_func(P, key), sinks)
        npure += proto.check_tasks_pure(P, R, own, proto.site_func(P, key), sinks, allow=PURE_ALLOW)
        ncov += proto.check_cover_tasks(P, R, proto.site_func(P, key))
    R.floor("BRANCH sites", nb, 11)
    from ..engines import proto as _proto
    R.floor("PARTITION.by-class definitions", _proto.check_class_split(P, R), 2)
    R.floor("COPYBACK sinks", ncb, 6)
    R.floor("PURE tasks", npure, 10)
    # module switches of the linear transforms
    from .C14 import check_fit_common
    # (only the BRANCH.module obligations are C04's; the rest belongs to C14 and is recorded there)
    for key in ("wccn:WCCN.fit", "whitening:Whitening.fit"):
        f = P.func(key)
        sw = [n for n in walk_no_nested(f.node) if isinstance(n, ast.If) and "isinstance" in src(n.test) and any(isinstance(x, (ast.Import, ast.ImportFrom)) for x in n.body)]
        for s_ in sw:
            def bound(stmts):
                out = {}
                for s in stmts:
                    if isinstance(s, ast.Import):
                        for al in s.names:
                            out[al.asname or al.name.split(".")[0]] = al.name
                    elif isinstance(s, ast.ImportFrom):
                        for al in s.names:
                            out[al.asname or al.name] = f"{s.module}.{al.name}"
                return out
            a, b = bound(s_.body), bound(s_.orelse)
            R.check(set(a) == set(b) and all(a[k].split(".")[-1] == b[k].split(".")[-1] or {a[k].split(".")[-1], b[k].split(".")[-1]} <= {"array", "numpy"} for k in set(a) & set(b)), "BRANCH.module", key, f"arms bind {sorted(a)} / {sorted(b)}", "same names, same functions", "the Dask and NumPy arms bind different functions", s_.lineno)
    # the reduction of per-block results: every field / every block
    from ..engines import fields as fieldseng
    from ..engines import loop as loopeng
    from .C02 import check_fold
    from .C20 import check_reduce_cover
    flds = fieldseng.init_fields_of(P, "GMMStats", ("n_gaussians", "n_features"))
    fieldseng.check_iadd(P, R, "GMMStats", flds)
    check_fold(P, R)
    check_reduce_cover(P, R)
    # same criterion and same number of iterations in both arms: the loop protocol and the criterion source
    for key, cap in (("gmm:GMMMachine.fit", "max_fitting_steps"), ("kmeans:KMeansMachine.fit", "max_iter")):
        F = loopeng.analyse(P, R, key, cap, "convergence_threshold", ("m_step",))
        if F is not None:
            loopeng.check_criterion_source(P, R, F, key, ("m_step",))
    dimrun.route(P, R, ["gmm.ll", "gmm.e_step"], rules=["DIM.LOGDOM", "DIM.BRANCH"], where_prefix=["gmm:"])
    dimrun.compare_modes(P, R, "gmm.ll")
    # extent: block partials, global count, no block-local value stored as global
    n, rets = dimrun.route(P, R, ["gmm.fit", "km.fit", "km.varw", "gmm.init", "gmm.m_step"], rules=["EXT.", "DIM.BRANCH", "DIM.SHAPE"], where_prefix=["gmm:", "kmeans:", "utils:"])
    for nm in ("km.varw", "km.transform"):
        dimrun.compare_modes(P, R, nm)
    dimrun.route(P, R, ["wccn.fit", "white.fit"], rules=["DIM.", "EXT."], where_prefix=["wccn:", "whitening:"])
    # the global sample count is taken before the split
    f = P.func("kmeans:KMeansMachine.fit")
    du = get_defuse(f, P)
    for st, t, v, k in stores(f):
        if isinstance(t, ast.Name) and t.id == "n_samples":
            c = cone(du, v, du.stmt_of(st), interproc=False)
            from_whole = not any(x.endswith("array_to_delayed_list") for x in c.calls)
            R.check(from_whole and c.calls_any("len", "shape") or from_whole and any(a.endswith(".shape") for a in c.attrs), "EXT.count", f.key, f"n_samples = {src(v)}", "counted on the whole array before the split", "the sample count is taken after the array was split into blocks", st.lineno)
    from ..engines import proto as _pp
    _pp.check_pairwise_folds(P, R, ['gmm', 'kmeans', 'utils', 'factor_analysis', 'ivector'])
    from ..engines import proto as _pbs
    _pbs.check_block_sums(P, R, "kmeans:m_step")
    from ..engines import traps as _traps
    _traps.check(P, R, ['gmm', 'kmeans', 'utils', 'factor_analysis', 'ivector'], scope='(utils:|gmm:(e_step|m_step|GMMMachine\\.fit)|kmeans:(e_step|m_step|accumulate_indices_means_vars|reduce_indices_means_vars|KMeansMachine\\.(fit|get_variances_and_weights_for_each_cluster))|factor_analysis:(FactorAnalysisBase\\.(initialize|fit_using_array|compute_latent_x|update_y|update_z|_prepare_dask_input)|ISVMachine\\.fit|JFAMachine\\.fit|reduce_iadd|check_dask_input_samples_per_class)|ivector:IVectorMachine\\.fit)')
    n_add = 0
    for k_ in ("kmeans:e_step", "kmeans:accumulate_indices_means_vars", "gmm:e_step", "ivector:e_step"):
        n_add += _pbs.check_block_additive(P, R, k_)
    R.floor("ACC.additive returned statistics", n_add, 10)
    from ..engines import proto as _pst
    _pst.check_standins(P, R, 'gmm:GMMMachine.fit')
    _pst.check_standins(P, R, 'ivector:IVectorMachine.fit')
    _pst.check_standins(P, R, 'kmeans:KMeansMachine.fit')
    from ..engines import proto as _prs
    _prs.check_reduction_siblings(P, R, ['gmm', 'kmeans', 'utils'])
    from ..engines import cover as _cvl
    _cvl.check_lse_functions(P, R, ['gmm'])


EXPLANATION += ' (COVER.tree) tree-shaped reductions over the blocks (rounds that rebuild the list, window recursion, stride doubling) add every block exactly once for every number of blocks: affine tiling of the index runs after a parity split.'
EXPLANATION += " (ACC.additive) what a per-block task returns is pooled by addition, so no returned statistic is clamped / floored / rounded inside the block; (DIM.SHAPE) a per-cluster count taken with np.bincount has minlength = the number of clusters (its length is otherwise the largest label seen in the block plus one)."
